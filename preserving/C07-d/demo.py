"""C07 demo: score-ranked distance suppression keeps a separated, dominating set.

Checks Motl.clean_by_distance and tmana.scores_extract_particles
  (1) against an independent brute-force statement of the property, and
  (2) against verbatim copies of the ORIGINAL functions (kept below),
over many random inputs, edge cases, repeated calls on the same objects and calls in different orders.
Prints PASS and exits 0 when everything holds.
"""

import sys, os

sys.path.insert(0, os.getcwd())

import contextlib
import gc
import inspect
import io
import re
import tempfile
import warnings

import numpy as np
import pandas as pd
from scipy.spatial import KDTree
from sklearn.cluster import DBSCAN

from cryocat import cryomap, cryomotl, geom, ioutils, nnana, tmana
from cryocat.cryomotl import Motl

FAILS = []


def check(cond, msg):
    if not cond:
        FAILS.append(msg)
        if len(FAILS) < 20:
            print("FAIL:", msg)


@contextlib.contextmanager
def quiet():
    with contextlib.redirect_stdout(io.StringIO()):
        yield


# --------------------------------------------------------------------------------------------------------------------
# verbatim copies of the original functions (tree at HEAD)
# --------------------------------------------------------------------------------------------------------------------
def orig_point_pairwise_dist(coord_1, coord_2):
    if coord_1.shape[0] == 1 and coord_2.shape[0] != 1:
        coord_1 = np.tile(coord_1, (coord_2.shape[0], 1))

    coord_1 = np.atleast_2d(coord_1)
    coord_2 = np.atleast_2d(coord_2)
    # Squares of the distances
    pairwise_dist = np.linalg.norm(coord_1 - coord_2, axis=1)

    pairwise_dist = np.where(isinstance(pairwise_dist, complex), 0.0, pairwise_dist)

    return pairwise_dist


def orig_clean_by_distance(
    self,
    distance_in_voxels,
    feature_id,
    metric_id="score",
    keep_greater=True,
    dist_mask=None,
):
    # Distance cutoff (pixels)
    d_cut = distance_in_voxels

    # Load mask if provided
    if dist_mask is not None:
        nn_stats = nnana.get_nn_stats_within_radius(self, nn_radius=d_cut, feature=feature_id)
        nn_stats_filtered = nnana.filter_nn_radial_stats(nn_stats, dist_mask)

    # Parse tomograms
    features = np.unique(self.get_feature(feature_id))

    # Initialize clean motl
    cleaned_df = pd.DataFrame()

    # Loop through and clean
    for f in features:
        # Parse tomogram
        feature_m = self.get_motl_subset(f, feature_id=feature_id, reset_index=True)
        n_temp_motl = feature_m.df.shape[0]

        # Parse positions
        pos = feature_m.get_coordinates()

        # Parse scores
        temp_scores = feature_m.df[metric_id].values

        # prepare scores
        if keep_greater:
            # Sort scores
            sort_idx = np.argsort(temp_scores)[::-1]
        else:  # lower than
            # Sort scores
            sort_idx = np.argsort(temp_scores)

        # Temporary keep index
        temp_keep = np.ones((n_temp_motl,), dtype=bool)

        # Loop through in order of score
        for j in sort_idx:
            if temp_keep[j]:

                # classic radius-based cleaning
                if dist_mask is None:
                    # Calculate distances
                    dist = orig_point_pairwise_dist(pos[j, :], pos)
                    # Find cutoff
                    d_cut_idx = dist < d_cut

                    # Keep current entry
                    d_cut_idx[j] = False
                else:
                    d_cut_idx = np.arange(feature_m.df.shape[0])
                    subtomo_id = feature_m.df.loc[j, "subtomo_id"]
                    filtered_idx = nn_stats_filtered.loc[
                        nn_stats_filtered["qp_subtomo_id"] == subtomo_id, "nn_motl_idx"
                    ].values
                    d_cut_idx = np.isin(d_cut_idx, filtered_idx)

                # Remove other entries
                temp_keep[d_cut_idx] = False

        # Add entries to main list
        cleaned_df = pd.concat((cleaned_df, feature_m.df.iloc[temp_keep, :]), ignore_index=True)

    print(f"Cleaned {self.df.shape[0] - cleaned_df.shape[0]} particles.")
    self.df = cleaned_df


def orig_scores_extract_particles(
    scores_map,
    angles_map,
    angles_list,
    tomo_id,
    particle_diameter,
    object_id=None,
    scores_threshold=None,
    sigma_threshold=None,
    cluster_size=None,
    n_particles=None,
    output_path=None,
    output_type="emmotl",
    angles_order="zxz",
    symmetry="c1",
    angles_numbering=0,
    tomo_mask=None,
):
    if symmetry.lower().startswith("c"):
        symmetry = int(re.findall(r"\d+", symmetry)[-1])
    else:
        warnings.warn(
            f"Only C symmetry is supported. Provided {symmetry} is currently not supported and will be ignored."
        )
        symmetry = 1

    # load the scores map
    scores_map = cryomap.read(scores_map)

    # load the angles map
    angles_map = cryomap.read(angles_map)

    # Read angle list.
    anglist = ioutils.rot_angles_load(angles_list, angles_order=angles_order)

    # load and apply a tomogram mask if any:
    if tomo_mask is not None:
        tomo_mask = cryomap.read(tomo_mask)
        scores_map = scores_map * tomo_mask

    if object_id is None:
        object_id = 1

    if scores_threshold is not None:
        threshold = scores_threshold
    elif sigma_threshold is None:
        threshold = tmana.compute_scores_map_threshold_triangle(scores_map)
    else:
        # Set threshold by sigma value
        score_mean = scores_map.mean()
        score_std = scores_map.std(ddof=1)
        threshold = score_mean + sigma_threshold * score_std

    # Threshold and sort indices/scores
    t_idx = np.where(scores_map > threshold)

    k = len(t_idx[0])

    # Check for early termination
    if k == 0:
        return None

    k = min(k, len(scores_map[t_idx])) - 1
    s_idx = np.argpartition(-scores_map[t_idx], k)[: k + 1]
    s_idx = s_idx[np.argsort(-scores_map[t_idx][s_idx])]  # Sort for later

    # Sorted indices. s_ind[0] = x, s_ind[1] = y, s_ind[2] = z
    s_ind = np.array([t_idx[0][s_idx], t_idx[1][s_idx], t_idx[2][s_idx]])

    # Create a list of tuples where each tuple is (coord, score) and sort it by score in descending order
    scored_coords = sorted(zip(s_ind.T, scores_map[s_ind[0], s_ind[1], s_ind[2]]), key=lambda x: x[1], reverse=True)

    # Build a KD-tree with the coordinates
    tree = KDTree([coord for coord, score in scored_coords])

    # Remove any points that are within the specified particle diameter of a higher score point
    coord_to_score = {tuple(coord): score for coord, score in scored_coords}
    remaining_coords = set(coord_to_score.keys())
    filtered_coords = []

    for coord, score in scored_coords:
        if tuple(coord) not in remaining_coords:
            continue
        filtered_coords.append((coord, score))
        nearby_coords = tree.query_ball_point(coord, particle_diameter)
        for nearby_coord in nearby_coords:
            nearby_coord_tuple = tuple(scored_coords[nearby_coord][0])
            if nearby_coord_tuple in remaining_coords and coord_to_score[nearby_coord_tuple] <= score:
                remaining_coords.remove(nearby_coord_tuple)

    # Extract the coordinates from the filtered_coords list
    filtered_coords, filtered_scores = zip(*filtered_coords)
    filtered_coords = np.array(filtered_coords)
    filtered_scores = np.array(filtered_scores)

    # Use DBSCAN to cluster points
    clusterer = DBSCAN(eps=particle_diameter / 2, min_samples=1)
    cluster_labels = clusterer.fit_predict(filtered_coords)

    # Keep track of hits in case of number of particles
    filtered_hit_idx = np.zeros(len(filtered_coords), dtype=bool)

    # Count number of hits
    c = 0
    for cluster_id in np.unique(cluster_labels):
        if cluster_id == -1:
            continue

        # Check cluster size
        if cluster_size is not None:
            c_size = np.sum(cluster_labels == cluster_id)
            if c_size < cluster_size:
                continue

        filtered_hit_idx[cluster_labels == cluster_id] = True
        c += np.sum(cluster_labels == cluster_id)

    # Remaining positions
    rpos = filtered_coords[filtered_hit_idx]
    filtered_scores = filtered_scores[filtered_hit_idx]
    if n_particles is not None:
        rpos = rpos[0 : min(rpos.shape[0], n_particles), :]
        filtered_scores = filtered_scores[0 : min(rpos.shape[0], n_particles)]

    # Fill orientation and scores
    # Parse angle index
    ang_idx = angles_map[rpos[:, 0], rpos[:, 1], rpos[:, 2]].astype(int) - angles_numbering

    phi = anglist[ang_idx, 0]
    theta = anglist[ang_idx, 1]
    psi = anglist[ang_idx, 2]

    if symmetry > 1:
        add_phi = np.linspace(0, 360, symmetry + 1)
        add_phi = add_phi[:-1]
        phi = phi + np.random.choice(add_phi, size=phi.shape[0])

    motl = cryomotl.Motl()
    motl.fill(
        {
            "x": rpos[:, 0] + 1,
            "y": rpos[:, 1] + 1,
            "z": rpos[:, 2] + 1,
            "score": filtered_scores,
            "class": 1,
            "tomo_id": tomo_id,
            "object_id": object_id,
            "phi": phi,
            "theta": theta,
            "psi": psi,
            "subtomo_id": np.arange(1, rpos.shape[0] + 1),
        }
    )

    del s_ind, scored_coords
    gc.collect()

    if output_path is not None:
        if output_type == "emmotl":
            motl.write_out(output_path)
        elif output_type == "stopgap":
            sg_motl = cryomotl.StopgapMotl(motl.df)
            sg_motl.write_out(output_path=output_path)
        elif output_type == "relion":
            rel_motl = cryomotl.RelionMotl(motl.df)
            rel_motl.write_out(output_path=output_path)
        else:
            raise ValueError(f"The output motl type {output_type} is not currently supported.")

    return motl


# --------------------------------------------------------------------------------------------------------------------
# part 1: clean_by_distance
# --------------------------------------------------------------------------------------------------------------------
GROUP_FIELDS = ["tomo_id", "object_id", "class", "geom1", "geom2"]


def random_motl(rng, n, n_groups, field, clustered=True, integer_scores=False):
    if clustered:
        n_centres = max(1, n // rng.integers(2, 12))
        centres = rng.uniform(0, 60, size=(n_centres, 3))
        coord = centres[rng.integers(0, n_centres, size=n)] + rng.normal(0, rng.uniform(0.5, 6), size=(n, 3))
    else:
        coord = rng.uniform(0, 40, size=(n, 3))
    base = np.round(coord)
    shifts = coord - base
    m = Motl()
    df = Motl.create_empty_motl_df()
    df["x"] = base[:, 0]
    df = df.fillna(0.0)
    df["y"] = base[:, 1]
    df["z"] = base[:, 2]
    df["shift_x"] = shifts[:, 0]
    df["shift_y"] = shifts[:, 1]
    df["shift_z"] = shifts[:, 2]
    # scores without ties (a random permutation scaled) so that the greedy order is unambiguous
    if integer_scores:
        df["score"] = rng.permutation(n).astype(float) - n // 2
    else:
        df["score"] = rng.permutation(n) / n + rng.uniform(-1e-4, 1e-4) - rng.choice([0.0, 0.5])
    df["geom3"] = rng.permutation(n) * 0.37 - 3.0  # an alternative metric column
    df["subtomo_id"] = rng.permutation(n) + 1
    df["tomo_id"] = 1.0
    df["object_id"] = 1.0
    df["class"] = 1.0
    group_values = rng.choice(np.arange(1, 50), size=n_groups, replace=False).astype(float)
    g = group_values[rng.integers(0, n_groups, size=n)]
    # every group label occurs at least once when possible
    g[: min(n, n_groups)] = group_values[: min(n, n_groups)]
    df[field] = g
    # a second, unrelated labelling in another field: must not matter
    other = [f for f in GROUP_FIELDS if f != field]
    df[other[int(rng.integers(0, len(other)))]] = rng.integers(1, 4, size=n).astype(float)
    df["phi"] = rng.uniform(-180, 180, size=n)
    df["theta"] = rng.uniform(0, 180, size=n)
    df["psi"] = rng.uniform(-180, 180, size=n)
    return Motl(df)


def check_clean_property(before_df, after_df, d, field, metric, keep_greater, tag):
    """Independent brute-force statement of the property."""
    key_cols = ["x", "y", "z", "shift_x", "shift_y", "shift_z", metric, field, "subtomo_id"]
    b = before_df.reset_index(drop=True)
    a = after_df.reset_index(drop=True)
    # remaining rows are a subset of the input rows, unchanged, each at most once
    bkeys = {tuple(r): i for i, r in enumerate(b[key_cols].to_numpy().tolist())}
    check(len(bkeys) == len(b), f"{tag}: test input has duplicate rows")
    kept_idx = []
    for r in a[key_cols].to_numpy().tolist():
        if tuple(r) not in bkeys:
            check(False, f"{tag}: a remaining row is not an input row")
            return
        kept_idx.append(bkeys[tuple(r)])
    check(len(set(kept_idx)) == len(kept_idx), f"{tag}: a row was duplicated")
    kept = np.zeros(len(b), dtype=bool)
    kept[kept_idx] = True
    # all other columns unchanged as well
    if len(a) > 0:
        check(
            np.array_equal(a[b.columns].to_numpy(dtype=float), b.loc[kept_idx, b.columns].to_numpy(dtype=float)),
            f"{tag}: remaining rows were modified",
        )
    pos = b[["x", "y", "z"]].to_numpy(dtype=float) + b[["shift_x", "shift_y", "shift_z"]].to_numpy(dtype=float)
    sc = b[metric].to_numpy(dtype=float)
    grp = b[field].to_numpy()
    for gval in pd.unique(grp):
        gi = np.flatnonzero(grp == gval)
        P = pos[gi]
        D = np.sqrt(((P[:, None, :] - P[None, :, :]) ** 2).sum(axis=2))
        k = kept[gi]
        check(k.any(), f"{tag}: group {gval} lost all particles")
        # separation
        Dk = D[np.ix_(k, k)].copy()
        np.fill_diagonal(Dk, np.inf)
        if Dk.size:
            check(Dk.min() >= d, f"{tag}: two remaining particles of group {gval} closer than d ({Dk.min()} < {d})")
        # domination
        s = sc[gi]
        for r in np.flatnonzero(~k):
            near = k & (D[r] < d)
            if keep_greater:
                ok = near.any() and (s[near] >= s[r]).any()
            else:
                ok = near.any() and (s[near] <= s[r]).any()
            check(ok, f"{tag}: removed particle of group {gval} not dominated by a remaining one")


def run_clean(m, d, field, metric, keep_greater, style):
    """Call the method under test in different calling styles."""
    with quiet():
        if style == 0:
            m.clean_by_distance(d, field, metric_id=metric, keep_greater=keep_greater)
        elif style == 1:
            m.clean_by_distance(distance_in_voxels=d, feature_id=field, metric_id=metric, keep_greater=keep_greater)
        elif style == 2:
            m.clean_by_distance(d, feature_id=field, keep_greater=keep_greater, metric_id=metric, dist_mask=None)
        else:
            if metric == "score" and keep_greater:
                m.clean_by_distance(d, field)  # defaults
            else:
                m.clean_by_distance(d, field, metric_id=metric, keep_greater=keep_greater)


def frames_equal(a, b):
    try:
        pd.testing.assert_frame_equal(a, b, check_exact=True)
        return True
    except AssertionError as e:
        return str(e)


def part_clean(rng):
    n_cases = 0
    sizes = [1, 1, 2, 2, 3, 3, 4, 5, 7, 10, 25, 60, 150, 400]
    for trial in range(170):
        n = int(sizes[trial % len(sizes)]) if trial < 70 else int(rng.integers(1, 401))
        n_groups = int(rng.integers(1, 5))
        field = GROUP_FIELDS[trial % len(GROUP_FIELDS)]
        keep_greater = bool(trial % 2 == 0) if trial % 3 else bool(rng.integers(0, 2))
        metric = "score" if trial % 4 else "geom3"
        if field == "geom3":
            metric = "score"
        m0 = random_motl(rng, n, n_groups, field, clustered=bool(trial % 5), integer_scores=(trial % 7 == 0))
        d = float(rng.choice([rng.uniform(0.05, 1.0), rng.uniform(1.0, 8.0), rng.uniform(8.0, 30.0), 1e-9, 500.0]))
        tag = f"clean trial {trial} (n={n}, groups={n_groups}, field={field}, metric={metric}, greater={keep_greater}, d={d:.4g})"

        before = m0.df.copy()
        m_new = Motl(m0.df.copy())
        m_old = Motl(m0.df.copy())
        run_clean(m_new, d, field, metric, keep_greater, style=trial % 4)
        with quiet():
            orig_clean_by_distance(m_old, d, field, metric_id=metric, keep_greater=keep_greater)

        check(frames_equal(m_new.df, m_old.df) is True, f"{tag}: differs from the original function")
        check_clean_property(before, m_new.df, d, field, metric, keep_greater, tag)
        check(frames_equal(m0.df, before) is True, f"{tag}: helper copies changed the source frame")

        # groups never affect each other: cleaning every group on its own gives the same survivors
        surv = set(m_new.df["subtomo_id"].tolist())
        surv_sep = set()
        gvals = list(pd.unique(before[field]))
        for gval in (gvals if trial % 2 else gvals[::-1]):
            mg = Motl(before.loc[before[field] == gval].copy().reset_index(drop=True))
            run_clean(mg, d, field, metric, keep_greater, style=(trial + 1) % 4)
            surv_sep |= set(mg.df["subtomo_id"].tolist())
        check(surv == surv_sep, f"{tag}: survivors depend on the presence of other groups")

        # second call on the same object: nothing more to remove (idempotent)
        snap = m_new.df.copy()
        run_clean(m_new, d, field, metric, keep_greater, style=(trial + 2) % 4)
        with quiet():
            orig_clean_by_distance(m_old, d, field, metric_id=metric, keep_greater=keep_greater)
        check(frames_equal(m_new.df, m_old.df) is True, f"{tag}: second call differs from the original function")
        check(len(m_new.df) == len(snap), f"{tag}: second call removed more particles")

        # third call after editing the object in place: other positions, scores, direction, radius and grouping field
        m3 = Motl(before.copy())
        run_clean(m3, d, field, metric, keep_greater, style=trial % 4)  # first use of the object
        m3.df = before.copy()  # the user puts the full list back
        m3.df.loc[:, ["shift_x", "shift_y", "shift_z"]] = m3.df[["shift_x", "shift_y", "shift_z"]].to_numpy()[::-1] * 1.7
        m3.df[metric] = m3.df[metric].to_numpy()[rng.permutation(len(m3.df))]
        field3 = GROUP_FIELDS[(trial + 1) % len(GROUP_FIELDS)]
        d3 = d * float(rng.uniform(0.3, 3.0))
        before3 = m3.df.copy()
        m3_old = Motl(before3.copy())
        run_clean(m3, d3, field3, metric, not keep_greater, style=(trial + 3) % 4)
        with quiet():
            orig_clean_by_distance(m3_old, d3, field3, metric_id=metric, keep_greater=not keep_greater)
        check(frames_equal(m3.df, m3_old.df) is True, f"{tag}: call after in-place edit differs from the original")
        check_clean_property(before3, m3.df, d3, field3, metric, not keep_greater, tag + " [edited]")
        n_cases += 1

    # the helper itself, in both call shapes used in the package
    for _ in range(200):
        n = int(rng.integers(1, 30))
        A = rng.normal(size=(n, 3)) * 10
        B = rng.normal(size=(n, 3)) * 10
        got = geom.point_pairwise_dist(A, B)
        exp = np.sqrt(((A - B) ** 2).sum(axis=1))
        check(isinstance(got, np.ndarray) and got.shape == (n,), "point_pairwise_dist: shape")
        check(np.array_equal(got, orig_point_pairwise_dist(A, B)), "point_pairwise_dist: differs from original (N,N)")
        check(np.allclose(got, exp, rtol=1e-13, atol=0), "point_pairwise_dist: wrong distances (N,N)")
        j = int(rng.integers(0, n))
        got = geom.point_pairwise_dist(A[j, :], A)
        check(got.shape == (n,) and got[j] == 0.0, "point_pairwise_dist: shape/self distance (1-D point)")
        check(np.array_equal(got, orig_point_pairwise_dist(A[j, :], A)), "point_pairwise_dist: differs (1-D point)")
        got = geom.point_pairwise_dist(A[j : j + 1, :], B)
        check(np.array_equal(got, orig_point_pairwise_dist(A[j : j + 1, :], B)), "point_pairwise_dist: differs (1,D)")
        check(np.allclose(got, np.sqrt(((A[j] - B) ** 2).sum(axis=1)), rtol=1e-13, atol=0), "point_pairwise_dist (1,D)")
    return n_cases


# --------------------------------------------------------------------------------------------------------------------
# part 2: scores_extract_particles
# --------------------------------------------------------------------------------------------------------------------
def random_diameter(rng, hi):
    """A diameter whose square is not (nearly) an integer: voxel distances are square roots of integers."""
    while True:
        d = float(rng.uniform(0.6, hi))
        if abs(d * d - round(d * d)) > 1e-6:
            return d


def check_peaks_property(scores, angmap, anglist_eff, thr, diam, numbering, motl, tag, tomo_id, object_id):
    sup = np.argwhere(scores > thr)
    if len(sup) == 0:
        check(motl is None, f"{tag}: no supra-threshold voxel but something was returned")
        return
    check(motl is not None, f"{tag}: None returned although voxels exceed the threshold")
    if motl is None:
        return
    df = motl.df
    xyz = df[["x", "y", "z"]].to_numpy()
    check(np.all(xyz == np.round(xyz)), f"{tag}: non-integer positions")
    vox = xyz.astype(int) - 1  # 1-based positions
    check(np.all(vox >= 0) and np.all(vox < np.array(scores.shape)), f"{tag}: positions outside the map")
    check(len({tuple(v) for v in vox.tolist()}) == len(vox), f"{tag}: duplicated peaks")
    ps = scores[vox[:, 0], vox[:, 1], vox[:, 2]]
    check(np.array_equal(df["score"].to_numpy(), ps), f"{tag}: peak does not carry its voxel's score")
    check(np.all(ps > thr), f"{tag}: peak not above the threshold")
    # separation
    if len(vox) > 1:
        D = np.sqrt(((vox[:, None, :] - vox[None, :, :]) ** 2).sum(axis=2).astype(float))
        np.fill_diagonal(D, np.inf)
        check(D.min() > diam, f"{tag}: peaks closer than the diameter")
    # domination of every supra-threshold voxel
    ssc = scores[sup[:, 0], sup[:, 1], sup[:, 2]]
    D2 = ((sup[:, None, :] - vox[None, :, :]) ** 2).sum(axis=2)
    ok = ((D2 <= diam * diam) & (ps[None, :] >= ssc[:, None])).any(axis=1)
    check(ok.all(), f"{tag}: {np.count_nonzero(~ok)} supra-threshold voxels not dominated by a peak")
    # the global maximum is always a peak and comes first; peaks are listed by descending score
    check(ps[0] == scores.max(), f"{tag}: first peak is not the global maximum")
    check(np.all(np.diff(ps) < 0), f"{tag}: peaks not in descending score order")
    # angles
    idx = angmap[vox[:, 0], vox[:, 1], vox[:, 2]].astype(int) - numbering
    exp = anglist_eff[idx]
    check(np.array_equal(df[["phi", "theta", "psi"]].to_numpy(), exp), f"{tag}: wrong Euler angles")
    check(np.all(df["tomo_id"].to_numpy() == tomo_id), f"{tag}: tomo_id")
    check(np.all(df["object_id"].to_numpy() == (1 if object_id is None else object_id)), f"{tag}: object_id")
    check(np.array_equal(df["subtomo_id"].to_numpy(), np.arange(1, len(df) + 1)), f"{tag}: subtomo_id")
    check(np.all(df["class"].to_numpy() == 1), f"{tag}: class")
    check(np.all(df[["shift_x", "shift_y", "shift_z"]].to_numpy() == 0), f"{tag}: shifts")


def random_scores(rng, shape, kind):
    if kind == 0:
        s = rng.normal(size=shape)
    elif kind == 1:  # smooth blobs + noise: many neighbouring supra-threshold voxels
        s = rng.normal(size=shape) * 0.05
        g = np.stack(np.meshgrid(*[np.arange(k) for k in shape], indexing="ij"), axis=-1)
        for _ in range(int(rng.integers(1, 8))):
            c = rng.uniform(0, 1, size=3) * np.array(shape)
            s += rng.uniform(0.5, 1.0) * np.exp(-((g - c) ** 2).sum(axis=-1) / (2 * rng.uniform(0.8, 3.0) ** 2))
    else:
        s = rng.uniform(0, 1, size=shape)
    # plateau-free: break all exact ties
    flat = s.ravel()
    if len(np.unique(flat)) != flat.size:
        flat += rng.permutation(flat.size) * 1e-9
    assert len(np.unique(flat)) == flat.size
    return s.astype(np.float32 if kind == 2 else np.float64)


def part_peaks(rng, tmpdir):
    n_cases = 0
    shapes = [(1, 1, 1), (2, 1, 3), (5, 5, 5), (8, 6, 7), (12, 12, 12), (16, 9, 20), (20, 20, 20), (40, 40, 40)]
    for trial in range(90):
        shape = shapes[trial % len(shapes)] if trial < 40 else tuple(int(v) for v in rng.integers(1, 25, size=3))
        scores = random_scores(rng, shape, trial % 3)
        n_ang = int(rng.integers(1, 60))
        numbering = trial % 2
        order = "zxz" if (trial // 2) % 2 == 0 else "zzx"
        anglist = np.column_stack(
            [rng.uniform(-180, 180, n_ang), rng.uniform(0, 180, n_ang), rng.uniform(-180, 180, n_ang)]
        ).round(3)
        angmap = (rng.integers(0, n_ang, size=shape) + numbering).astype(np.float32 if trial % 3 else np.int32)
        # threshold: keep the number of supra-threshold voxels moderate on big maps
        n_vox = scores.size
        frac = float(rng.choice([0.0005, 0.002, 0.01])) if n_vox > 20000 else float(rng.uniform(0.0, 0.6))
        if trial % 11 == 10:
            thr = float(scores.max())  # nothing above: None expected
        elif trial % 11 == 9:
            thr = float(scores.min()) - 1.0  # everything above
            if n_vox > 4000:
                thr = float(np.quantile(scores, 1 - 2000 / n_vox))
        else:
            thr = float(np.quantile(scores, 1 - frac)) if frac > 0 else float(np.sort(scores.ravel())[-2:].mean())
        diam = random_diameter(rng, float(rng.choice([1.5, 4.0, 12.0])))
        tomo_id = int(rng.integers(1, 300))
        object_id = None if trial % 4 == 0 else int(rng.integers(1, 9))

        use_file = trial % 3 == 1
        if use_file:
            path = os.path.join(tmpdir, f"angles_{trial}.csv")
            pd.DataFrame(anglist).to_csv(path, header=False, index=False)
            ang_arg = path
            # file lists are re-ordered to phi, theta, psi: zzx files hold phi, psi, theta
            anglist_eff = pd.read_csv(path, header=None).to_numpy()
            if order == "zzx":
                anglist_eff = anglist_eff[:, [0, 2, 1]]
        else:
            ang_arg = anglist
            anglist_eff = anglist  # arrays are taken as they are
        tag = f"peaks trial {trial} (shape={shape}, thr={thr:.4g}, diam={diam:.4g}, num={numbering}, order={order}, file={use_file})"

        s_in, a_in, l_in = scores.copy(), angmap.copy(), anglist.copy()
        kwargs = dict(
            object_id=object_id,
            scores_threshold=thr,
            angles_order=order,
            angles_numbering=numbering,
        )
        with quiet():
            got = tmana.scores_extract_particles(scores, angmap, ang_arg, tomo_id, diam, **kwargs)
            exp = orig_scores_extract_particles(scores, angmap, ang_arg, tomo_id, diam, **kwargs)
        check(np.array_equal(scores, s_in) and np.array_equal(angmap, a_in) and np.array_equal(anglist, l_in),
              f"{tag}: inputs modified")
        check((got is None) == (exp is None), f"{tag}: None-ness differs from the original")
        if got is not None and exp is not None:
            check(frames_equal(got.df, exp.df) is True, f"{tag}: differs from the original function")
        check_peaks_property(scores, angmap, anglist_eff, thr, diam, numbering, got, tag, tomo_id, object_id)

        # second call on the same arrays (nothing may be remembered), then a third after editing them in place
        with quiet():
            got2 = tmana.scores_extract_particles(scores, angmap, ang_arg, tomo_id, diam, **kwargs)
        if got is not None and got2 is not None:
            check(frames_equal(got.df, got2.df) is True, f"{tag}: second call differs from the first")
        else:
            check(got is None and got2 is None, f"{tag}: second call differs from the first (None)")

        scores[...] = scores[::-1, ::-1, ::-1] * 0.5 + 0.25 * scores  # stays plateau-free with probability one
        if len(np.unique(scores)) != scores.size:
            continue
        angmap[...] = np.roll(angmap, 1, axis=0)
        anglist[...] = anglist[::-1]
        if use_file:
            pd.DataFrame(anglist).to_csv(ang_arg, header=False, index=False)
            anglist_eff = pd.read_csv(ang_arg, header=None).to_numpy()
            if order == "zzx":
                anglist_eff = anglist_eff[:, [0, 2, 1]]
        else:
            anglist_eff = anglist
        thr3 = float(np.quantile(scores, 1 - min(0.5, 1500 / n_vox)))
        diam3 = random_diameter(rng, 6.0)
        kwargs3 = dict(kwargs, scores_threshold=thr3, angles_numbering=numbering)
        with quiet():
            got3 = tmana.scores_extract_particles(scores, angmap, ang_arg, tomo_id + 1, diam3, **kwargs3)
            exp3 = orig_scores_extract_particles(scores, angmap, ang_arg, tomo_id + 1, diam3, **kwargs3)
        check((got3 is None) == (exp3 is None), f"{tag}: [edited] None-ness differs from the original")
        if got3 is not None and exp3 is not None:
            check(frames_equal(got3.df, exp3.df) is True, f"{tag}: [edited] differs from the original function")
        check_peaks_property(scores, angmap, anglist_eff, thr3, diam3, numbering, got3, tag + " [edited]", tomo_id + 1,
                             object_id)
        n_cases += 1

    # other options keep working the same way (sigma threshold, n_particles, symmetry spelling, mask)
    for trial in range(12):
        shape = (14, 15, 13)
        scores = random_scores(rng, shape, 1)
        n_ang = 20
        anglist = rng.uniform(0, 180, size=(n_ang, 3)).round(2)
        angmap = rng.integers(0, n_ang, size=shape).astype(np.float32)
        mask = (rng.uniform(size=shape) > 0.3).astype(np.float32)
        kw = dict(sigma_threshold=float(rng.uniform(1.0, 3.0)), symmetry=["c1", "C1", "c01"][trial % 3])
        if trial % 2:
            kw["n_particles"] = int(rng.integers(1, 6))
        if trial % 3 == 0:
            kw["tomo_mask"] = mask
        if trial % 4 == 0:
            kw["cluster_size"] = 1
        with quiet():
            got = tmana.scores_extract_particles(scores, angmap, anglist, 7, 3.3, **kw)
            exp = orig_scores_extract_particles(scores, angmap, anglist, 7, 3.3, **kw)
        check((got is None) == (exp is None), f"options trial {trial}: None-ness differs")
        if got is not None and exp is not None:
            check(frames_equal(got.df, exp.df) is True, f"options trial {trial}: differs from the original function")
    return n_cases


def extra_checks(rng):
    """Checks specific to change a: the extracted private helper (skipped on the unmodified tree, where the
    block is still inline) must give the greedy result of the original inline block."""
    helper = getattr(tmana, "_suppress_peaks_within_distance", None)
    if helper is None:
        return 0
    n_done = 0
    for trial in range(60):
        n = int(rng.integers(1, 300))
        side = int(rng.integers(2, 14))
        flat = rng.choice(side**3, size=min(n, side**3), replace=False)
        coords = np.array(np.unravel_index(flat, (side, side, side))).T
        scores = rng.permutation(len(coords)).astype(float)
        scored = sorted(zip(coords, scores), key=lambda x: x[1], reverse=True)
        diam = random_diameter(rng, 5.0)
        snapshot = [(c.copy(), s) for c, s in scored]
        got = helper(scored, diam)
        # the original inline block
        tree = KDTree([coord for coord, score in scored])
        coord_to_score = {tuple(coord): score for coord, score in scored}
        remaining = set(coord_to_score.keys())
        exp = []
        for coord, score in scored:
            if tuple(coord) not in remaining:
                continue
            exp.append((coord, score))
            for nb in tree.query_ball_point(coord, diam):
                t = tuple(scored[nb][0])
                if t in remaining and coord_to_score[t] <= score:
                    remaining.remove(t)
        check(len(got) == len(exp) and all(np.array_equal(a[0], b[0]) and a[1] == b[1] for a, b in zip(got, exp)),
              f"helper trial {trial}: differs from the inline block")
        check(len(scored) == len(snapshot) and all(np.array_equal(a[0], b[0]) and a[1] == b[1]
                                                   for a, b in zip(scored, snapshot)),
              f"helper trial {trial}: input list modified")
        n_done += 1
    return n_done


def main():
    rng = np.random.default_rng(20260928)
    warnings.simplefilter("ignore")
    n1 = part_clean(rng)
    with tempfile.TemporaryDirectory() as tmpdir:
        n2 = part_peaks(rng, tmpdir)
    n3 = extra_checks(rng)
    print(f"clean_by_distance cases: {n1}, scores_extract_particles cases: {n2}, extra checks: {n3}")
    if FAILS:
        print(f"FAIL ({len(FAILS)} failed checks)")
        sys.exit(1)
    print("PASS")


if __name__ == "__main__":
    main()
