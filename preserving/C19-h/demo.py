import sys, os
sys.path.insert(0, os.getcwd())
import copy, warnings
import numpy as np, pandas as pd
import sklearn.neighbors as sn
warnings.filterwarnings("ignore")
from cryocat import cryomotl, ribana

COLS = cryomotl.Motl.motl_columns


# ----------------------------------------------------------------------------- inputs inside the quantifier
def make_pair(rng, n, n_tomo, spread, disp, index_mode=0, cluster=False, nan_holes=False):
    """paired entry / exit tables: same rows, same subtomo_id / tomo_id, exit sites = entry sites + random vectors"""
    df = pd.DataFrame(np.zeros((n, 20)), columns=COLS)
    tomo = rng.integers(1, n_tomo + 1, size=n)
    if rng.random() < 0.5:
        tomo = np.sort(tomo)
    df["tomo_id"] = tomo.astype(float) * (7.0 if rng.random() < 0.3 else 1.0)
    df["subtomo_id"] = (rng.permutation(n) + 1).astype(float) if rng.random() < 0.5 else np.arange(1, n + 1, dtype=float)
    if cluster:  # dense clusters: force merging, prefixing and tail cutting
        centers = rng.uniform(-spread, spread, size=(max(1, n // 6), 3))
        pos = centers[rng.integers(0, centers.shape[0], size=n)] + rng.normal(0, disp, size=(n, 3))
    else:
        pos = rng.uniform(-spread, spread, size=(n, 3))
    ip = np.round(pos)
    df[["x", "y", "z"]] = ip
    df[["shift_x", "shift_y", "shift_z"]] = pos - ip
    df["score"] = rng.random(n)
    df[["phi", "theta", "psi"]] = rng.uniform(-180, 180, size=(n, 3))
    if n > 2:  # poles of the Euler angles
        df.loc[0, ["phi", "theta", "psi"]] = [30.0, 0.0, -30.0]
        df.loc[1, ["phi", "theta", "psi"]] = [10.0, 180.0, 20.0]
    df["class"] = 1.0
    ex = df.copy()
    epos = pos + rng.normal(0, disp, size=(n, 3))
    eip = np.round(epos)
    ex[["x", "y", "z"]] = eip
    ex[["shift_x", "shift_y", "shift_z"]] = epos - eip
    if nan_holes:  # holes in columns the tracing does not read
        for c in ("geom3", "geom5", "subtomo_mean"):
            holes = rng.random(n) < 0.3
            df.loc[holes, c] = np.nan
            ex.loc[holes, c] = np.nan
    if index_mode == 1:
        idx = rng.permutation(n) * 3 + 5
        df.index = idx
        ex.index = idx
    elif index_mode == 2:
        df.index = np.arange(n)[::-1]
        ex.index = np.arange(n)[::-1]
    return df, ex


def grid_pair(n, step):
    """exit of i coincides with nothing; entries on a line with equal spacing: ties and distances == max_distance"""
    df = pd.DataFrame(np.zeros((n, 20)), columns=COLS)
    df["tomo_id"] = 1.0
    df["subtomo_id"] = np.arange(1, n + 1, dtype=float)
    df["x"] = np.arange(n) * float(step)
    df["class"] = 1.0
    ex = df.copy()
    ex["x"] = df["x"] + step / 2.0
    return df, ex


# ----------------------------------------------------------------------------- the property, computed independently
def check_property(entry_df, exit_df, traced, dmax, dmin):
    t = traced.df
    assert sorted(t["subtomo_id"].tolist()) == sorted(entry_df["subtomo_id"].tolist()), "a particle is lost or doubled"
    ent, ext, tomo = {}, {}, {}
    for r in entry_df.itertuples(index=False):
        ent[r.subtomo_id] = np.array([r.x + r.shift_x, r.y + r.shift_y, r.z + r.shift_z])
        tomo[r.subtomo_id] = r.tomo_id
    for r in exit_df.itertuples(index=False):
        ext[r.subtomo_id] = np.array([r.x + r.shift_x, r.y + r.shift_y, r.z + r.shift_z])
    chains = {}
    for r in t.itertuples(index=False):
        assert tomo[r.subtomo_id] == r.tomo_id, "a particle changed its tomogram"
        chains.setdefault((r.tomo_id, r.object_id), []).append((r.geom2, r.subtomo_id, r.geom4))
    n_links = 0
    for key, members in chains.items():
        members.sort()
        orders = [m[0] for m in members]
        assert orders == list(range(1, len(members) + 1)), f"chain {key}: order numbers {orders}"
        for (o1, s1, d1), (o2, s2, d2) in zip(members[:-1], members[1:]):
            d = float(np.sqrt(((ext[s1] - ent[s2]) ** 2).sum()))
            assert dmin - 1e-9 < d <= dmax + 1e-9, f"chain {key}: link distance {d} outside ({dmin}, {dmax}]"
            assert abs(d - d1) < 1e-6, f"chain {key}: recorded distance {d1}, actual {d}"
            n_links += 1
    return len(chains), n_links


def as_input(df, mode):
    if mode == 0:
        return cryomotl.Motl(df.copy())
    if mode == 1:
        return df.copy()
    return cryomotl.EmMotl(df.copy())


def frames_identical(a, b):
    return (
        list(a.columns) == list(b.columns)
        and a.index.equals(b.index)
        and list(a.dtypes) == list(b.dtypes)
        and np.array_equal(a.to_numpy(dtype=float), b.to_numpy(dtype=float), equal_nan=True)
    )


def run_property(seed, rounds, with_reference=None):
    """with_reference: context manager factory that installs the ORIGINAL helper text; traced tables must be identical"""
    rng = np.random.default_rng(seed)
    stats = dict(cases=0, chains=0, links=0, suffix_calls=0, suffix_joined=0, prefix_calls=0, prefix_joined=0)
    orig_suffix, orig_prefix = ribana.add_chain_suffix, ribana.add_chain_prefix

    def count_suffix(*a, **k):
        r = orig_suffix(*a, **k)
        stats["suffix_calls"] += 1
        stats["suffix_joined"] += bool(r)
        return r

    def count_prefix(*a, **k):
        r = orig_prefix(*a, **k)
        stats["prefix_calls"] += 1
        stats["prefix_joined"] += r is None
        return r

    cases = []
    for it in range(rounds):
        n = int(rng.integers(2, 61))
        nt = int(rng.integers(1, 4))
        spread = float(rng.choice([10, 30, 80]))
        disp = float(rng.choice([1, 3, 8]))
        df, ex = make_pair(rng, n, nt, spread, disp, index_mode=int(rng.integers(0, 3)),
                           cluster=rng.random() < 0.6, nan_holes=rng.random() < 0.3)
        dmax = float(rng.choice([2, 5, 10, 20, 50]))
        dmin = float(rng.choice([0, 0, 0.5, 2, 4]))
        cases.append((df, ex, dmax, min(dmin, dmax), int(rng.integers(0, 3))))
    for n in (2, 3, 7, 8):  # tiny, odd and even sizes; equal spacings; distance exactly max_distance
        df, ex = grid_pair(n, 4.0)
        cases.append((df, ex, 2.0, 0.0, 0))
        cases.append((df, ex, 2.0, 2.0, 1))  # nothing is farther than min: every particle its own chain
        cases.append((df, ex, 1.0, 0.0, 2))  # nothing within reach
    df, ex = make_pair(rng, 2, 1, 10.0, 1.0)
    cases.append((df, ex, 100.0, 0.0, 0))
    df, ex = make_pair(rng, 12, 1, 5.0, 0.0)  # exit == entry: zero displacement
    cases.append((df, ex, 6.0, 0.0, 0))
    cases.append((df, ex, 6.0, 1.0, 1))

    for df, ex, dmax, dmin, mode in cases:
        m_entry, m_exit = as_input(df, mode), as_input(ex, mode)
        keep_entry = (m_entry.df if mode != 1 else m_entry).copy()
        keep_exit = (m_exit.df if mode != 1 else m_exit).copy()
        ribana.add_chain_suffix, ribana.add_chain_prefix = count_suffix, count_prefix
        try:
            traced = ribana.trace_chains(m_entry, m_exit, dmax, dmin)
        finally:
            ribana.add_chain_suffix, ribana.add_chain_prefix = orig_suffix, orig_prefix
        c, l = check_property(df, ex, traced, dmax, dmin)
        stats["cases"] += 1
        stats["chains"] += c
        stats["links"] += l
        # the inputs are left as they were, and a second call on the same objects gives the same table
        assert frames_identical(keep_entry, m_entry.df if mode != 1 else m_entry), "entry list modified"
        assert frames_identical(keep_exit, m_exit.df if mode != 1 else m_exit), "exit list modified"
        again = ribana.trace_chains(m_entry, m_exit, dmax, dmin)
        assert frames_identical(traced.df, again.df), "second call differs"
        check_property(df, ex, again, dmax, dmin)
        if with_reference is not None:
            with with_reference():
                ref = ribana.trace_chains(as_input(df, mode), as_input(ex, mode), dmax, dmin)
            assert frames_identical(traced.df, ref.df), "traced table differs from the one of the original helper"
    assert stats["suffix_calls"] > 20 and stats["prefix_joined"] > 20 and stats["prefix_calls"] > stats["prefix_joined"], (
        f"merging branches not exercised: {stats}"
    )
    return stats


# ----------------------------------------------------------------------------- change a: get_nn_dist
def get_nn_dist_ORIGINAL(kdt, query_point, dist_max, dist_min, active_points, test_value):
    id_max, dist = kdt.query_radius(query_point, dist_max, return_distance=True, sort_results=True)
    # id_max, dist = [a[0] for a in kdt.query_radius(query_point, dist_max, return_distance=True, sort_results=True)]
    id_max = id_max[0]
    dist = dist[0]
    if id_max.size == 0:
        return -1, []

    rp_idx = id_max[active_points[id_max] == test_value]
    rp_dist = dist[active_points[id_max] == test_value]

    if rp_idx.size == 0:
        return -1, []
    elif dist_min >= 0:  # the interval is open at its lower end also for dist_min == 0 (a site at distance 0 is not a neighbour)
        rp_idx = rp_idx[rp_dist > dist_min]
        rp_dist = rp_dist[rp_dist > dist_min]

    if rp_idx.size == 0:
        return -1, []
    else:
        return rp_idx[0], rp_dist[0]


class original_helper:
    def __enter__(self):
        self.saved = ribana.get_nn_dist
        ribana.get_nn_dist = get_nn_dist_ORIGINAL

    def __exit__(self, *exc):
        ribana.get_nn_dist = self.saved


def same_answer(a, b):
    if type(a[0]) is not type(b[0]) or type(a[1]) is not type(b[1]):
        return False
    if isinstance(a[1], list):
        return a[0] == b[0] == -1 and a[1] == b[1] == []
    return a[0] == b[0] and a[1] == b[1]


def compare_helper(seed, rounds):
    rng = np.random.default_rng(seed)
    n_cmp = n_none = 0
    for it in range(rounds):
        n = int(rng.integers(1, 61))
        if it % 3 == 0:  # integer grid: many exactly equal distances, distances exactly dist_max / dist_min
            pts = rng.integers(-3, 4, size=(n, 3)).astype(float)
        else:
            pts = rng.normal(0, 5, size=(n, 3))
        kdt = sn.KDTree(pts)
        for q in range(6):
            active = rng.random(n) < rng.choice([0.0, 0.2, 0.5, 1.0])
            qp = (pts[rng.integers(0, n)] if rng.random() < 0.5 else rng.normal(0, 5, size=3)).reshape(1, 3)
            dmax = float(rng.choice([0.5, 1, 2, 3, 5, 10, 100]))
            dmin = float(rng.choice([0, 0, 0.5, 1, 2, 3, 200]))
            for tv in (True, False):
                before = active.copy()
                new = ribana.get_nn_dist(kdt, qp, dmax, dmin, active, tv)
                old = get_nn_dist_ORIGINAL(kdt, qp, dmax, dmin, active, tv)
                assert same_answer(new, old), (new, old)
                assert np.array_equal(active, before), "mask modified"
                n_cmp += 1
                n_none += isinstance(new[1], list)
    return n_cmp, n_none


if __name__ == "__main__":
    n_cmp, n_none = compare_helper(11, 600)
    print(f"get_nn_dist: {n_cmp} queries agree with the original text ({n_none} without a neighbour)")
    stats = run_property(2024, 150, with_reference=original_helper)
    print("trace_chains:", stats)
    print("PASS")
