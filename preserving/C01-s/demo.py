"""C01 demo: EM particle-list files round-trip losslessly for any table column order.

Run as:  cd /tmp/wt11/C01 && /venv/bin/python /tmp/seedsU/C01/<a|b|c>/demo.py

Part 1 checks the property against an independent computation (own EM byte parser, float32 rounding done by
struct.pack, expected rows assembled *by field name*).
Part 2 compares the functions of the tree under test with verbatim copies of the original functions (HEAD 86ccbaf)
on the same inputs: bytes on disk, loaded tables, headers, state of the objects after the calls.
Part 3: a few inputs outside the quantifier must fail on both trees (any exception type).
"""
import sys, os

sys.path.insert(0, os.getcwd())

import io
import logging
import math
import struct
import tempfile
import warnings
from pathlib import Path

import numpy as np
import pandas as pd

from cryocat import cryomotl
from cryocat.cryomotl import Motl, EmMotl

# run the library with DEBUG logging switched on, into a buffer, so that any diagnostic code path is exercised
_logbuf = io.StringIO()
_h = logging.StreamHandler(_logbuf)
_lg = logging.getLogger("cryocat")
_lg.addHandler(_h)
_lg.setLevel(logging.DEBUG)
_lg.propagate = False

# the canonical field order, written down here independently of the library
FIELDS = ["score", "geom1", "geom2", "subtomo_id", "tomo_id", "object_id", "subtomo_mean", "x", "y", "z",
          "shift_x", "shift_y", "shift_z", "geom3", "geom4", "geom5", "phi", "psi", "theta", "class"]
assert len(FIELDS) == 20 and len(set(FIELDS)) == 20

F32MAX = 3.4028234663852886e38
F32TINY = 1.1754943508222875e-38
SPECIAL = [0.0, -0.0, 1.0, -1.0, F32MAX, -F32MAX, F32TINY, -F32TINY, 1e-45, 7e-46, 1e-46, -1e-50, 5e-324,
           1.0 + 2.0**-24, 1.0 + 2.0**-23, 1.0 + 3 * 2.0**-24, 16777216.0, 16777217.0, 16777219.0, -16777217.0,
           0.1, -0.1, 1.0 / 3.0, 360.0, -180.0, 179.99999999, 1e38, -1e38, 1e-38, 123456789.0, 2.0**31, 2.0**63,
           65504.0, 1e10, math.pi, -math.e]

failures = []
n_checks = 0


def check(cond, msg):
    global n_checks
    n_checks += 1
    if not cond:
        failures.append(msg)
        if len(failures) <= 20:
            print("FAIL:", msg)


# ---------------------------------------------------------------------------------------------------------------
# independent side
# ---------------------------------------------------------------------------------------------------------------
def parse_em(path):
    """Own EM reader: 512-byte header (machine, 2 unused, dtype code, xdim, ydim, zdim as little-endian int32)."""
    b = Path(path).read_bytes()
    machine, _v, _u, dcode = struct.unpack("<4b", b[:4])
    xdim, ydim, zdim = struct.unpack("<3i", b[4:16])
    return dict(machine=machine, dcode=dcode, xdim=xdim, ydim=ydim, zdim=zdim, size=len(b), payload=b[512:])


def expected_payload(named_cols, n):
    """named_cols: dict field name -> list of python floats (row order). Returns the expected data bytes."""
    out = []
    for i in range(n):
        row = []
        for name in FIELDS:
            v = named_cols[name][i]
            v = 0.0 if (v != v) else v  # missing -> +0.0
            row.append(v)
        out.append(struct.pack("<20f", *row))  # struct does the single-precision rounding (round-half-even)
    return b"".join(out)


def check_file(path, named_cols, n, tag):
    em = parse_em(path)
    check(em["machine"] == 6, f"{tag}: machine byte {em['machine']}")
    check(em["dcode"] == 5, f"{tag}: dtype code {em['dcode']} is not float32 (5)")
    check((em["zdim"], em["ydim"], em["xdim"]) == (1, n, 20), f"{tag}: dims {(em['zdim'], em['ydim'], em['xdim'])}")
    check(em["size"] == 512 + 4 * 20 * n, f"{tag}: file size {em['size']}")
    exp = expected_payload(named_cols, n)
    check(em["payload"] == exp, f"{tag}: payload differs from expectation")
    return exp


def check_loaded(loaded, exp_payload, n, tag):
    check(type(loaded).__name__ in ("EmMotl", "OrigEmMotl"), f"{tag}: loaded type {type(loaded)}")
    df = loaded.df
    check(list(df.columns) == FIELDS, f"{tag}: loaded columns {list(df.columns)}")
    check(df.shape == (n, 20), f"{tag}: loaded shape {df.shape}")
    check(list(df.index) == list(range(n)), f"{tag}: loaded index {list(df.index)[:5]}")
    check(all(str(t) == "float64" for t in df.dtypes), f"{tag}: loaded dtypes {set(map(str, df.dtypes))}")
    exp = np.frombuffer(exp_payload, dtype="<f4").reshape(n, 20).astype(np.float64)
    got = np.ascontiguousarray(df.to_numpy(dtype=np.float64))
    check(got.tobytes() == exp.tobytes(), f"{tag}: loaded values differ (bitwise) from float32 roundings")
    check(not np.isnan(got).any(), f"{tag}: NaN read back")


# ---------------------------------------------------------------------------------------------------------------
# verbatim copies of the original functions (HEAD of the worktree), bound to a subclass OrigEmMotl
# ---------------------------------------------------------------------------------------------------------------
ORIG_SRC = '''
def orig_check_df_correct_format(input_df):
    if sorted(Motl.motl_columns) == sorted(input_df.columns):
        return True
    else:
        return False


def orig_check_df_type(self, input_motl):
    if orig_check_df_correct_format(input_motl):
        self.df = input_motl.copy()
        self.df.reset_index(inplace=True, drop=True)
        self.df = self.df.fillna(0.0)
    else:
        self.convert_to_motl(input_motl)


def orig_read_in(emfile_path):
    if not os.path.isfile(emfile_path):
        raise UserInputError(f"Provided file {emfile_path} does not exist.")

    header, parsed_emfile = emfile.read(emfile_path)
    if not len(parsed_emfile[0][0]) == 20:
        raise UserInputError(
            f"Provided file contains {len(parsed_emfile[0][0])} columns, while 20 columns are expected."
        )

    motl_df = pd.DataFrame(data=parsed_emfile[0], dtype=float, columns=Motl.motl_columns)

    return motl_df, header


def orig_emmotl_write_out(self, output_path):
    filled_df = self.df[Motl.motl_columns].fillna(0.0)
    motl_array = filled_df.to_numpy()
    motl_array = motl_array.reshape((1, motl_array.shape[0], motl_array.shape[1])).astype(np.single)
    self.header = {}  # FIXME fails on writing back the header
    emfile.write(output_path, motl_array, self.header, overwrite=True)


def orig_emmotl_init(self, input_motl=None, header=None):
    if input_motl is not None:
        if isinstance(input_motl, EmMotl):
            self.df = input_motl.df.copy()
            self.header = copy.deepcopy(input_motl.header)
        elif isinstance(input_motl, pd.DataFrame):
            self.check_df_type(input_motl)
        elif isinstance(input_motl, (str, Path)):
            self.df, self.header = self.read_in(input_motl)
        else:
            raise UserInputError(
                f"Provided input_motl is neither DataFrame nor path to the motl file: {input_motl}."
            )
    else:
        self.df = Motl.create_empty_motl_df()

    self.header = header if header else {}


def orig_motl_write_out(self, output_path, motl_type="emmotl"):
    if motl_type.lower() == "emmotl":
        OrigEmMotl(self.df).write_out(output_path)
    else:
        raise UserInputError(f"Provided motl file {output_path} has format that is currently not supported.")


def orig_load(input_motl, motl_type="emmotl"):
    if isinstance(input_motl, Motl):
        return copy.deepcopy(input_motl)

    if motl_type == "emmotl":
        return OrigEmMotl(input_motl)
    else:
        raise UserInputError(f"Provided motl file {input_motl} has format that is currently not supported.")
'''
NS = dict(vars(cryomotl))
exec(compile(ORIG_SRC, "<orig>", "exec"), NS)


class OrigEmMotl(EmMotl):
    __init__ = NS["orig_emmotl_init"]
    check_df_type = NS["orig_check_df_type"]
    read_in = staticmethod(NS["orig_read_in"])
    write_out = NS["orig_emmotl_write_out"]


NS["OrigEmMotl"] = OrigEmMotl
orig_motl_write_out = NS["orig_motl_write_out"]
orig_load = NS["orig_load"]


# ---------------------------------------------------------------------------------------------------------------
# input generation
# ---------------------------------------------------------------------------------------------------------------
def gen_values(rng, n, mode):
    if mode == "normal":
        v = rng.normal(size=(n, 20)) * 10.0 ** rng.integers(-4, 7, size=(n, 20))
    elif mode == "ints":
        v = rng.integers(-2000, 2000, size=(n, 20)).astype(np.float64)
    elif mode == "special":
        v = rng.choice(np.array(SPECIAL), size=(n, 20))
    elif mode == "wide":
        v = rng.choice([-1.0, 1.0], size=(n, 20)) * 10.0 ** rng.uniform(-44, 38.5, size=(n, 20))
        v = np.clip(v, -F32MAX, F32MAX)
    elif mode == "zeros":
        v = np.zeros((n, 20))
    elif mode == "motl":  # realistic
        v = np.zeros((n, 20))
        v[:, 0] = rng.uniform(0, 1, n)
        v[:, 3] = np.arange(1, n + 1)
        v[:, 4] = rng.integers(1, 5, n)
        v[:, 5] = rng.integers(1, 9, n)
        v[:, 7:10] = rng.integers(1, 4000, (n, 3))
        v[:, 10:13] = rng.uniform(-1, 1, (n, 3))
        v[:, 16] = rng.uniform(-180, 180, n)
        v[:, 17] = rng.uniform(-180, 180, n)
        v[:, 18] = rng.choice([0.0, 180.0, 90.0, 1e-7], n)  # poles of theta included
        v[:, 19] = rng.integers(1, 3, n)
    else:
        raise AssertionError(mode)
    return v.astype(np.float64)


def gen_holes(rng, n, mode):
    m = np.zeros((n, 20), dtype=bool)
    if mode == "none":
        pass
    elif mode == "random":
        m = rng.random((n, 20)) < 0.2
    elif mode == "firstlast":
        m[0, 0] = True
        m[-1, -1] = True
        m[0, -1] = True
        m[-1, 0] = True
    elif mode == "column":
        m[:, rng.integers(0, 20)] = True
    elif mode == "row":
        m[rng.integers(0, n), :] = True
    elif mode == "all":
        m[:, :] = True
    return m


def gen_index(rng, n, mode):
    if mode == "default":
        return None
    if mode == "shuffled":
        return rng.permutation(n)
    if mode == "dup":
        return np.full(n, 7)
    if mode == "neg":
        return -np.arange(n) * 3 - 1
    if mode == "str":
        return [f"p{n - i}" for i in range(n)]
    if mode == "float":
        return rng.normal(size=n)
    raise AssertionError(mode)


def gen_perm(rng, mode):
    if mode == "canonical":
        return list(range(20))
    if mode == "reversed":
        return list(range(19, -1, -1))
    if mode == "rot1":
        return list(range(1, 20)) + [0]
    if mode == "swap_psi_theta":
        p = list(range(20))
        p[17], p[18] = p[18], p[17]
        return p
    if mode == "sorted_names":
        return sorted(range(20), key=lambda j: FIELDS[j])
    return list(rng.permutation(20))


def build_df(values, perm, index, how, dtype_mode):
    """values: (n,20) in canonical field order. Returns a table whose columns are in order `perm`."""
    n = values.shape[0]
    names = [FIELDS[j] for j in perm]
    if how == "dict":
        df = pd.DataFrame({FIELDS[j]: values[:, j].copy() for j in perm})
    elif how == "array":
        df = pd.DataFrame(values[:, perm].copy(), columns=names)
    elif how == "fortran":
        df = pd.DataFrame(np.asfortranarray(values[:, perm]), columns=names)
    elif how == "reorder":
        df = pd.DataFrame(values.copy(), columns=FIELDS)[names]
    elif how == "objcols":
        df = pd.DataFrame(values[:, perm].copy(), columns=pd.Index(names, dtype=object))
    else:
        raise AssertionError(how)
    if index is not None:
        df.index = index
    if dtype_mode == "someint":  # integer element type for integer-valued, hole-free columns
        for name in names[::3]:
            col = df[name].to_numpy()
            if not np.isnan(col).any() and np.all(np.abs(col) < 2**24) and np.all(col == np.round(col)):
                df[name] = col.astype(np.int64)
    elif dtype_mode == "somef32":
        for name in names[::4]:
            col = df[name].to_numpy()
            with warnings.catch_warnings():
                warnings.simplefilter("ignore")
                c32 = col.astype(np.float32)
            if np.array_equal(c32.astype(np.float64), col, equal_nan=True):
                df[name] = c32
    assert list(df.columns) == names
    return df


def named_columns(df):
    """field name -> list of python floats in row order (access by label, never by column position)"""
    return {name: [float(x) for x in df[name].tolist()] for name in FIELDS}


def frames_identical(a, b):
    try:
        pd.testing.assert_frame_equal(a, b, check_exact=True, check_column_type=True, check_index_type=True)
        return True
    except AssertionError:
        return False


def same_header(a, b):
    return type(a) is type(b) and a == b


# ---------------------------------------------------------------------------------------------------------------
# one case
# ---------------------------------------------------------------------------------------------------------------
def run_case(tmp, tag, df, late_holes=None):
    n = len(df)
    # diagnostics on / off alternately, so both branches of any logging guard are exercised
    run_case.count = getattr(run_case, "count", 0) + 1
    _lg.setLevel(logging.DEBUG if run_case.count % 2 else logging.WARNING)
    np_state = np.random.get_state()
    before = df.copy(deep=True)
    named = named_columns(df)
    p_new, p_old, p_new2, p_old2 = (os.path.join(tmp, f) for f in ("new.em", "old.em", "new2.em", "old2.em"))

    # ---- path 1: EmMotl(df).write_out(path)
    em_new, em_old = EmMotl(df), OrigEmMotl(df)
    check(frames_identical(em_new.df, em_old.df), f"{tag}: EmMotl(df).df differs from original constructor")
    check(same_header(em_new.header, em_old.header), f"{tag}: header after construction differs")
    if late_holes is not None:  # missing values that appear after construction (write_out's own fillna matters)
        for (r, name) in late_holes:
            if em_new.df[name].dtype.kind != "f":
                continue
            em_new.df.loc[r, name] = np.nan
            em_old.df.loc[r, name] = np.nan
            named[name][r] = float("nan")
    state_before_write = em_new.df.copy(deep=True)
    r_new = em_new.write_out(p_new)
    r_old = em_old.write_out(p_old)
    check(r_new is None and r_old is None, f"{tag}: write_out returned something")
    exp = check_file(p_new, named, n, tag + " [EmMotl.write_out]")
    check(Path(p_new).read_bytes() == Path(p_old).read_bytes(), f"{tag}: file bytes differ from original write_out")
    check(frames_identical(em_new.df, state_before_write), f"{tag}: write_out changed self.df")
    check(frames_identical(em_new.df, em_old.df), f"{tag}: self.df after write_out differs from original")
    check(same_header(em_new.header, em_old.header), f"{tag}: self.header after write_out differs from original")
    check(frames_identical(df, before) and list(df.columns) == list(before.columns), f"{tag}: input table mutated")

    # repeated call on the same object, same path (overwrite) and with a pathlib.Path
    em_new.write_out(Path(p_new))
    check(Path(p_new).read_bytes()[512:] == exp, f"{tag}: second write_out gives other bytes")

    # ---- load back: Motl.load(path), EmMotl(path), EmMotl.read_in(path)
    ld_new, ld_old = Motl.load(p_new), orig_load(p_old)
    check_loaded(ld_new, exp, n, tag + " [Motl.load]")
    check(frames_identical(ld_new.df, ld_old.df), f"{tag}: loaded table differs from original loader")
    check(same_header(ld_new.header, ld_old.header), f"{tag}: loaded header differs from original loader")
    check_loaded(EmMotl(Path(p_new)), exp, n, tag + " [EmMotl(Path)]")
    d1, h1 = EmMotl.read_in(p_new)
    d2, h2 = OrigEmMotl.read_in(p_new)
    check(frames_identical(d1, d2) and same_header(h1, h2), f"{tag}: read_in differs from original read_in")
    check(frames_identical(d1, ld_new.df), f"{tag}: read_in and load disagree")

    # ---- path 2: Motl(df).write_out(path, 'emmotl')   (NaN holes stay in Motl.df until the dispatch)
    df2 = df.copy(deep=True)
    named2 = named_columns(df2)
    m_new, m_old = Motl(df2), Motl(df2.copy(deep=True))
    check(m_new.df is df2, f"{tag}: Motl(df) no longer keeps the table object")
    m_new.write_out(p_new2, "emmotl")
    orig_motl_write_out(m_old, p_old2, "emmotl")
    exp2 = check_file(p_new2, named2, n, tag + " [Motl.write_out]")
    check(Path(p_new2).read_bytes() == Path(p_old2).read_bytes(), f"{tag}: Motl.write_out bytes differ from original")
    check(frames_identical(m_new.df, m_old.df), f"{tag}: Motl.df after write_out differs from original")
    check(frames_identical(df2, before), f"{tag}: Motl.write_out mutated the table")
    m_new.write_out(p_new2)  # default motl_type, repeated call
    check(Path(p_new2).read_bytes()[512:] == exp2, f"{tag}: Motl.write_out default type / repeat differs")
    m_new.write_out(p_new2, "EmMotl")  # the dispatch lower-cases the type
    check(Path(p_new2).read_bytes()[512:] == exp2, f"{tag}: Motl.write_out('EmMotl') differs")
    check_loaded(Motl.load(p_new2, "emmotl"), exp2, n, tag + " [Motl.load after Motl.write_out]")

    # ---- write -> load -> write is a fixed point, also through Motl.load(Motl)
    again = Motl.load(ld_new)
    check(again is not ld_new and frames_identical(again.df, ld_new.df), f"{tag}: Motl.load(Motl) is not a deep copy")
    again.write_out(p_new2)
    check(Path(p_new2).read_bytes()[512:] == exp, f"{tag}: write(load(write(x))) != write(x)")

    st = np.random.get_state()
    check(st[0] == np_state[0] and np.array_equal(st[1], np_state[1]) and st[2:] == np_state[2:],
          f"{tag}: global numpy random state was touched")


def main():
    check(list(Motl.motl_columns) == FIELDS, "Motl.motl_columns is not the canonical field order")
    rng = np.random.default_rng(20260928)
    tmp = tempfile.mkdtemp(prefix="c01demo_")
    n_cases = 0

    value_modes = ["normal", "ints", "special", "wide", "zeros", "motl"]
    hole_modes = ["none", "random", "firstlast", "column", "row", "all"]
    index_modes = ["default", "shuffled", "dup", "neg", "str", "float"]
    perm_modes = ["canonical", "reversed", "rot1", "swap_psi_theta", "sorted_names", "random", "random", "random"]
    hows = ["dict", "array", "fortran", "reorder", "objcols"]
    dtype_modes = ["float", "float", "someint", "somef32"]
    sizes = [1, 1, 2, 3, 4, 5, 16, 17, 64, 101]

    # systematic sweep over sizes x perms with the other axes drawn at random
    with warnings.catch_warnings():
        warnings.simplefilter("error")  # e.g. an overflow in the float32 cast would be a finding
        for n in sizes:
            for pm in perm_modes:
                for vm in value_modes:
                    hm = hole_modes[rng.integers(len(hole_modes))]
                    im = index_modes[rng.integers(len(index_modes))]
                    how = hows[rng.integers(len(hows))]
                    dm = dtype_modes[rng.integers(len(dtype_modes))]
                    values = gen_values(rng, n, vm)
                    values[gen_holes(rng, n, hm)] = np.nan
                    perm = gen_perm(rng, pm)
                    df = build_df(values, perm, gen_index(rng, n, im), how, dm)
                    late = None
                    if rng.random() < 0.4:
                        k = int(rng.integers(1, 4))
                        late = [(int(rng.integers(0, n)), FIELDS[int(rng.integers(0, 20))]) for _ in range(k)]
                    tag = f"n={n} perm={pm} val={vm} holes={hm} idx={im} how={how} dt={dm} late={late}"
                    run_case(tmp, tag, df, late)
                    n_cases += 1

        # every hole mode x every index mode at two sizes
        for n in (1, 6):
            for hm in hole_modes:
                for im in index_modes:
                    values = gen_values(rng, n, "special")
                    values[gen_holes(rng, n, hm)] = np.nan
                    df = build_df(values, gen_perm(rng, "random"), gen_index(rng, n, im), "dict", "float")
                    run_case(tmp, f"n={n} holes={hm} idx={im} (grid)", df, [(n - 1, "class"), (0, "score")])
                    n_cases += 1

        # every special value in every field position, one particle each
        for j, name in enumerate(FIELDS):
            values = np.array(SPECIAL[: 20])[None, :].repeat(2, axis=0)
            values = np.roll(values, j, axis=1)
            values[1] = np.array(SPECIAL[-20:])
            df = build_df(values, gen_perm(rng, "random"), None, "array", "float")
            run_case(tmp, f"special values rolled by {j}", df)
            n_cases += 1

        # check_df_correct_format: same verdicts as the original on valid and invalid column sets
        base = pd.DataFrame(np.zeros((2, 20)), columns=FIELDS)
        variants = [base, base[FIELDS[::-1]], base.drop(columns="class"), base.assign(extra=1.0),
                    base.rename(columns={"psi": "Psi"}), pd.DataFrame(np.zeros((2, 21)), columns=FIELDS + ["x"]),
                    pd.DataFrame(), base.iloc[:0]]
        for k, v in enumerate(variants):
            check(Motl.check_df_correct_format(v) == NS["orig_check_df_correct_format"](v),
                  f"check_df_correct_format verdict differs on variant {k}")
        check(Motl.check_df_correct_format(base[FIELDS[::-1]]) is True, "a permuted table is not accepted")

    # ---- outside the quantifier: must fail on both trees (the exception type is free)
    def raises(fn):
        try:
            fn()
        except Exception:
            return True
        return False

    ok_df = pd.DataFrame(np.arange(40.0).reshape(2, 20), columns=FIELDS)
    em = EmMotl(ok_df)
    em.df = em.df.drop(columns=["phi"])
    check(raises(lambda: em.write_out(os.path.join(tmp, "x.em"))), "write_out of a table without 'phi' did not fail")
    check(raises(lambda: Motl(ok_df).write_out(os.path.join(tmp, "x.em"), "nonsense")), "unknown motl_type accepted")
    check(raises(lambda: Motl(ok_df).write_out(os.path.join(tmp, "x.em"), None)), "motl_type None accepted")
    check(raises(lambda: EmMotl.read_in(os.path.join(tmp, "does_not_exist.em"))), "missing file accepted")

    # a field present twice after construction: refused at write time, or (original behaviour) a 21-column file
    # that read_in refuses
    def dup_field():
        e = EmMotl(ok_df)
        e.df = pd.concat([e.df, e.df[["x"]]], axis=1)
        e.write_out(os.path.join(tmp, "dup.em"))
        EmMotl.read_in(os.path.join(tmp, "dup.em"))

    check(raises(dup_field), "a table with field x twice was written and read back")

    # an additional, non-motl column added after construction is ignored by both the tree under test and the original
    e_new, e_old = EmMotl(ok_df[FIELDS[::-1]]), OrigEmMotl(ok_df[FIELDS[::-1]])
    e_new.df["note"] = 5.0
    e_old.df["note"] = 5.0
    e_new.write_out(os.path.join(tmp, "extra_new.em"))
    e_old.write_out(os.path.join(tmp, "extra_old.em"))
    check(Path(os.path.join(tmp, "extra_new.em")).read_bytes() == Path(os.path.join(tmp, "extra_old.em")).read_bytes(),
          "additional column: bytes differ from original")
    check(Path(os.path.join(tmp, "extra_new.em")).read_bytes()[512:] == expected_payload(named_columns(ok_df), 2),
          "additional column: payload not the 20 fields")
    check(raises(lambda: EmMotl(ok_df.drop(columns=["x"]))), "19-column table accepted")
    check(raises(lambda: Motl(ok_df.assign(extra=0.0))), "21-column table accepted by Motl")

    for f in os.listdir(tmp):
        os.remove(os.path.join(tmp, f))
    os.rmdir(tmp)

    print(f"diagnostic lines captured from the library: {len(_logbuf.getvalue().splitlines())} (0 on the original tree)")
    print(f"cases: {n_cases}, checks: {n_checks}, failures: {len(failures)}")
    if failures:
        print("FAILED")
        sys.exit(1)
    print("PASS")


if __name__ == "__main__":
    main()
