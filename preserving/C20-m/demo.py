"""C20 -- membrane thickness pairs: one-to-one, forward, within range and cone.

Change c (kind 6, shortcuts that are exactly right): the numba candidate kernel find_matches_parallel stops scanning the
targets of a source once its output row is full (the remaining candidates were dropped by the width guard anyway), and
process_matches_cpu2cpu returns the blank result at once when there is no candidate at all (scaling kept, so dtypes stay).

Run:  cd /tmp/wt7/C20 && /venv/bin/python <this file>
The property is tested against a brute-force computation (all admissible pairs, greedy by distance) on random
two-sheet point sets and hand-made boundary inputs; the functions of the working tree are also compared with the
original functions (text of HEAD kept below) on the same inputs.  Prints PASS and exits 0 when everything holds.
"""
import sys, os

sys.path.insert(0, os.getcwd())
import io, contextlib, logging, re, warnings
import numpy as np
from cryocat import memthick as M

ORIG_SRC = r'''
@numba.njit(parallel=True)
def find_matches_parallel(
    points,
    normals,
    source_mask,
    target_mask,
    target_indices,
    max_thickness_voxels,
    max_angle_cos,
    match_distances,
    match_indices,
    match_counts,
):
    """
    Parallelized function to find matches between points on different surfaces.

    Parameters
    ----------
    points : ndarray
        Point coordinates
    normals : ndarray
        Normal vectors
    source_mask : ndarray
        Mask for source points
    target_mask : ndarray
        Mask for target points
    target_indices : ndarray
        Indices of target points
    max_thickness_voxels : float
        Maximum thickness in voxel units
    max_angle_cos : float
        Cosine of maximum angle
    match_distances : ndarray
        Output array for match distances
    match_indices : ndarray
        Output array for match indices
    match_counts : ndarray
        Output array for match counts
    """
    n_points = len(points)
    max_matches = match_distances.shape[1]

    # For each source point, find valid matches
    for i in prange(n_points):
        if not source_mask[i]:
            continue

        point = points[i]
        normal = normals[i]
        match_count = 0

        # Check each potential target
        for j in range(len(target_indices)):
            target_idx = target_indices[j]

            # Vector from source to target
            dx = points[target_idx, 0] - point[0]
            dy = points[target_idx, 1] - point[1]
            dz = points[target_idx, 2] - point[2]

            # Euclidean distance
            dist = np.sqrt(dx * dx + dy * dy + dz * dz)

            # Check if within max thickness
            if dist < max_thickness_voxels:
                # Project vector onto normal
                proj = dx * normal[0] + dy * normal[1] + dz * normal[2]

                # Only consider points in the direction of the normal
                if proj > 0:
                    # Calculate lateral distance (perpendicular to normal)
                    lateral_dx = dx - proj * normal[0]
                    lateral_dy = dy - proj * normal[1]
                    lateral_dz = dz - proj * normal[2]
                    lateral_dist_sq = lateral_dx**2 + lateral_dy**2 + lateral_dz**2

                    # Check if within cone angle
                    if proj > max_angle_cos * dist:
                        if match_count < max_matches:
                            match_distances[i, match_count] = dist
                            match_indices[i, match_count] = target_idx
                            match_count += 1

        match_counts[i] = match_count


def measure_thickness_cpu(
    points,
    normals,
    surface1_mask,
    surface2_mask,
    voxel_size,
    max_thickness_nm=8.0,
    max_angle_degrees=5.0,
    direction="1to2",
    num_threads=None,
    logger=None,
    max_matches_per_point=25,
):
    """CPU-based thickness measurement with parallelization."""
    log_msg = lambda msg: logger.info(msg) if logger else print(msg)

    # Set number of threads if specified
    if num_threads is not None:
        numba.set_num_threads(num_threads)
        log_msg(f"Using {num_threads} CPU threads")
    else:
        log_msg(f"Using all available CPU threads (numba default)")

    # Switch source and target surfaces if direction is 2to1
    if direction == "2to1":
        log_msg("Measuring thickness from surface 2 to surface 1...")
        source_mask, target_mask = surface2_mask, surface1_mask
    else:
        log_msg("Measuring thickness from surface 1 to surface 2...")
        source_mask, target_mask = surface1_mask, surface2_mask

    n_points = len(points)
    max_angle_cos = np.cos(np.radians(max_angle_degrees))

    # Convert max thickness from nm to voxels
    max_thickness_voxels = max_thickness_nm / voxel_size

    log_msg(f"Starting CPU thickness measurement with {n_points} points...")
    log_msg(f"Source points: {np.sum(source_mask)}, Target points: {np.sum(target_mask)}")
    log_msg(f"Max thickness: {max_thickness_nm} nm ({max_thickness_voxels:.2f} voxels)")
    log_msg(f"Max angle: {max_angle_degrees} degrees")

    # Get indices of target points
    target_indices = np.where(target_mask)[0]
    log_msg(f"Number of target points: {len(target_indices)}")

    # Get target points
    target_points = points[target_indices]

    # Get source points and indices
    source_indices = np.where(source_mask)[0]
    source_points = points[source_indices]

    log_msg(f"Number of source points: {len(source_points)}")

    # Use SciPy's KDTree for CPU implementation
    log_msg("Using SciPy KDTree implementation with query_ball_point")

    # Build KD-tree
    log_msg("Building KD-tree for target points...")
    target_tree = ScipyKDTree(target_points)

    # Pre-filter matches using ball query
    log_msg("Pre-filtering potential matches using KD-tree query_ball_point...")
    start_time = time.time()

    # Query ball point for each source point
    log_msg(f"Querying KD-tree for {len(source_points)} source points...")
    neighbor_lists = target_tree.query_ball_point(source_points, max_thickness_voxels)

    # Process the results
    flat_matches = []
    for i, neighbors in enumerate(neighbor_lists):
        source_idx = source_indices[i]
        source_normal = normals[source_idx]
        source_point = points[source_idx]

        valid_matches = 0

        for n in neighbors:
            # Get original index
            target_idx = target_indices[n]
            target_point = points[target_idx]

            # Vector from source to target
            dx = target_point[0] - source_point[0]
            dy = target_point[1] - source_point[1]
            dz = target_point[2] - source_point[2]

            # Distance
            dist = np.sqrt(dx * dx + dy * dy + dz * dz)

            # Project vector onto normal
            proj = dx * source_normal[0] + dy * source_normal[1] + dz * source_normal[2]

            # Only consider points in the direction of the normal
            if proj > 0:
                # Calculate lateral distance
                lateral_dx = dx - proj * source_normal[0]
                lateral_dy = dy - proj * source_normal[1]
                lateral_dz = dz - proj * source_normal[2]
                lateral_dist_sq = lateral_dx**2 + lateral_dy**2 + lateral_dz**2

                # Check if within cone angle
                if proj > max_angle_cos * dist:
                    flat_matches.append((dist, source_idx, target_idx))
                    valid_matches += 1

                    # Limit matches per point
                    if valid_matches >= max_matches_per_point:
                        break

    log_msg(f"KD-tree pre-filtering completed in {time.time() - start_time:.2f} seconds")
    log_msg(f"Found {len(flat_matches)} potential matches across all source points")

    # Process matches to ensure one-to-one matching
    log_msg("Processing matches to ensure one-to-one matching...")
    thickness_results, valid_mask, point_pairs = process_matches_cpu2cpu(flat_matches, n_points, voxel_size)

    log_msg(f"Found {np.sum(valid_mask)} valid thickness measurements")
    if np.sum(valid_mask) > 0:
        log_msg(f"Mean thickness: {np.mean(thickness_results[valid_mask]):.2f} nm")
        log_msg(
            f"Min: {np.min(thickness_results[valid_mask]):.2f} nm, Max: {np.max(thickness_results[valid_mask]):.2f} nm"
        )

    return thickness_results, valid_mask, point_pairs


def process_matches_cpu2cpu(flat_matches, n_points, voxel_size):
    """
    Process matches on CPU to ensure one-to-one matching and convert to physical units.

    Parameters
    ----------
    flat_matches : list
        List of tuples (distance, source_idx, target_idx)
    n_points : int
        Total number of points
    voxel_size : float
        Voxel size for scaling

    Returns
    -------
    thickness_results : ndarray
        Thickness measurements in physical units
    valid_mask : ndarray
        Boolean mask for valid measurements
    point_pairs : ndarray
        Indices of paired points
    """
    # Create arrays for final results (still in voxel units)
    thickness_results = np.zeros(n_points, dtype=np.float32)
    valid_mask = np.zeros(n_points, dtype=np.bool_)
    point_pairs = np.zeros(n_points, dtype=np.int32)

    # Sort matches by distance
    flat_matches.sort()

    # Track assigned points
    source_assigned = set()
    target_assigned = set()

    # Assign matches
    for dist, source_idx, target_idx in flat_matches:
        if source_idx not in source_assigned and target_idx not in target_assigned:
            # Assign match (still in voxel units)
            thickness_results[source_idx] = dist
            valid_mask[source_idx] = True
            point_pairs[source_idx] = target_idx

            source_assigned.add(source_idx)
            target_assigned.add(target_idx)

    # Convert thickness results to physical units before returning
    thickness_results = thickness_results * voxel_size

    return thickness_results, valid_mask, point_pairs
'''

# --------------------------------------------------------------------------------------
# originals (text of HEAD), executed in a copy of the module namespace
# --------------------------------------------------------------------------------------
_ns = dict(M.__dict__)
exec(compile(ORIG_SRC, "<original memthick>", "exec"), _ns)
orig_cpu = _ns["measure_thickness_cpu"]
orig_process = _ns["process_matches_cpu2cpu"]
orig_kernel = _ns["find_matches_parallel"]

QUIET = logging.getLogger("c20-demo-quiet")
QUIET.setLevel(logging.CRITICAL + 1)
QUIET.propagate = False

FAILS = []


def check(cond, msg):
    if not cond:
        FAILS.append(msg)
        if len(FAILS) <= 20:
            print("FAIL:", msg)
    return cond


# --------------------------------------------------------------------------------------
# independent computation: brute force candidates + greedy by (distance, source, target)
# --------------------------------------------------------------------------------------
def roles(m1, m2, direction):
    return (m2, m1) if direction == "2to1" else (m1, m2)


def candidates(points, normals, src_mask, tgt_mask, r_vox, max_deg, inclusive=True):
    """all admissible (dist, s, t): within range, ahead of the source, within the cone"""
    S = np.flatnonzero(src_mask)
    T = np.flatnonzero(tgt_mask)
    c = np.cos(np.radians(max_deg))
    out = []
    if len(T) == 0:
        return out
    P = np.asarray(points)
    for s in S:
        d = P[T] - P[s]
        dist = np.sqrt(d[:, 0] * d[:, 0] + d[:, 1] * d[:, 1] + d[:, 2] * d[:, 2])
        n = normals[s]
        proj = d[:, 0] * n[0] + d[:, 1] * n[1] + d[:, 2] * n[2]
        ok = (dist <= r_vox) if inclusive else (dist < r_vox)
        ok = ok & (proj > 0) & (proj > c * dist)
        for k in np.flatnonzero(ok):
            out.append((float(dist[k]), int(s), int(T[k])))
    return out


def greedy(cands, n_points):
    valid = np.zeros(n_points, bool)
    pairs = np.zeros(n_points, np.int64)
    dist = np.zeros(n_points, np.float64)
    used_s, used_t = set(), set()
    for d, s, t in sorted(cands):
        if s in used_s or t in used_t:
            continue
        used_s.add(s)
        used_t.add(t)
        valid[s] = True
        pairs[s] = t
        dist[s] = d
    return dist, valid, pairs


def check_property(tag, points, normals, m1, m2, voxel, max_nm, max_deg, direction, res, inclusive=True, exact=True):
    """the statement of C20, item by item, against the brute-force computation"""
    thick, valid, pairs = res
    n = len(points)
    src, tgt = roles(m1, m2, direction)
    r_vox = max_nm / voxel
    ok = True
    ok &= check(len(thick) == n and len(valid) == n and len(pairs) == n, f"{tag}: result lengths")
    vi = np.flatnonzero(valid)
    # sources / targets from the right surfaces, no target twice
    ok &= check(bool(np.all(src[vi])), f"{tag}: a matched point is not a source point")
    ok &= check(bool(np.all(tgt[pairs[vi]])), f"{tag}: a partner is not a target point")
    ok &= check(len(set(pairs[vi].tolist())) == len(vi), f"{tag}: a target is used twice")
    # unmatched rows are blank
    ok &= check(bool(np.all(thick[~valid] == 0)) and bool(np.all(pairs[~valid] == 0)), f"{tag}: unmatched rows not blank")
    # thickness = euclidean distance * voxel size, within range, forward, within the cone
    P = np.asarray(points, dtype=np.float64)
    N = np.asarray(normals, dtype=np.float64)
    d = P[pairs[vi]] - P[vi]
    eu = np.linalg.norm(d, axis=1)
    ok &= check(np.allclose(thick[vi], eu * float(voxel), rtol=2e-6, atol=1e-7), f"{tag}: thickness != distance * voxel size")
    ok &= check(bool(np.all(thick[vi] <= float(max_nm) * (1 + 2e-6))), f"{tag}: thickness exceeds the maximum")
    proj = np.einsum("ij,ij->i", d, N[vi])
    ok &= check(bool(np.all(proj > 0)), f"{tag}: target not ahead of the source")
    nn = np.linalg.norm(N[vi], axis=1)
    with np.errstate(invalid="ignore", divide="ignore"):
        ang = np.degrees(np.arccos(np.clip(proj / (eu * nn), -1, 1)))
    ok &= check(bool(np.all(ang <= max_deg + 1e-6)), f"{tag}: pair outside the cone (max {ang.max() if len(ang) else 0})")
    # greedy by increasing distance: nothing admissible left over, no closer free target
    cands = candidates(points, normals, src, tgt, r_vox, max_deg, inclusive)
    used_t = set(pairs[vi].tolist())
    mydist = {int(s): float(e) for s, e in zip(vi, eu)}
    left = 0
    closer = 0
    for dd, s, t in cands:
        if t in used_t:
            continue
        if not valid[s]:
            left += 1
        elif dd < mydist[s] * (1 - 1e-9):
            closer += 1
    ok &= check(left == 0, f"{tag}: {left} admissible pairs of two unmatched points left over")
    ok &= check(closer == 0, f"{tag}: {closer} matched sources have a closer admissible free target")
    if exact:
        gd, gv, gp = greedy(cands, n)
        ok &= check(np.array_equal(gv, valid), f"{tag}: matched set differs from greedy computation")
        ok &= check(np.array_equal(gp, pairs), f"{tag}: pairing differs from greedy computation")
        ok &= check(np.allclose(thick, gd * float(voxel), rtol=2e-6, atol=1e-7), f"{tag}: thickness differs from greedy computation")
    return ok


def same_result(tag, a, b):
    ok = True
    for name, x, y in zip(("thickness", "valid", "pairs"), a, b):
        ok &= check(x.dtype == y.dtype, f"{tag}: {name} dtype {x.dtype} vs original {y.dtype}")
        ok &= check(x.shape == y.shape and np.array_equal(x, y), f"{tag}: {name} differs from the original function")
    return ok


# --------------------------------------------------------------------------------------
# inputs inside the quantifier
# --------------------------------------------------------------------------------------
def unit(v):
    return v / np.linalg.norm(v, axis=-1, keepdims=True)


def random_rotation(rng):
    q = rng.normal(size=4)
    q /= np.linalg.norm(q)
    a, b, c, d = q
    return np.array(
        [
            [a * a + b * b - c * c - d * d, 2 * (b * c - a * d), 2 * (b * d + a * c)],
            [2 * (b * c + a * d), a * a - b * b + c * c - d * d, 2 * (c * d - a * b)],
            [2 * (b * d - a * c), 2 * (c * d + a * b), a * a - b * b - c * c + d * d],
        ]
    )


def make_sheets(rng, n_total, spacing, gap, curved, jitter, noise_deg, labelling):
    """two roughly parallel sheets (curved or tilted), jitter, noisy unit normals"""
    n1 = n_total // 2
    n2 = n_total - n1
    pts, nrm, sheet = [], [], []
    tilt = rng.uniform(-0.3, 0.3, size=2)
    amp = rng.uniform(0.5, 2.0) if curved else 0.0
    wl = rng.uniform(15, 40)
    for k, cnt in enumerate((n1, n2)):
        side = int(np.ceil(np.sqrt(cnt)))
        gx, gy = np.meshgrid(np.arange(side), np.arange(side), indexing="ij")
        xy = np.stack([gx.ravel(), gy.ravel()], 1)[:cnt].astype(float) * spacing
        xy += rng.uniform(-0.3, 0.3, size=2) * spacing * k  # the two grids are not aligned
        z = tilt[0] * xy[:, 0] + tilt[1] * xy[:, 1] + amp * np.sin(xy[:, 0] / wl * 2 * np.pi)
        dzdx = tilt[0] + amp * np.cos(xy[:, 0] / wl * 2 * np.pi) * 2 * np.pi / wl
        dzdy = np.full(cnt, tilt[1])
        nn = unit(np.stack([-dzdx, -dzdy, np.ones(cnt)], 1))
        p = np.column_stack([xy, z])
        if k == 1:
            p = p + nn * gap
            nn = -nn  # second sheet looks back at the first
        p = p + rng.normal(scale=jitter, size=p.shape)
        # angular noise on the normals
        if noise_deg > 0:
            t = unit(np.cross(nn, rng.normal(size=nn.shape)))
            a = np.radians(rng.normal(scale=noise_deg, size=(cnt, 1)))
            nn = unit(nn * np.cos(a) + t * np.sin(a))
        pts.append(p)
        nrm.append(nn)
        sheet.append(np.full(cnt, k))
    pts = np.vstack(pts) + rng.uniform(-50, 50, size=3)
    nrm = np.vstack(nrm)
    sheet = np.concatenate(sheet)
    m1 = sheet == 0
    m2 = sheet == 1
    if labelling == "swapped":
        m1, m2 = m2, m1
    elif labelling == "noisy":  # a few points carry the other / both / no label
        flip = rng.random(len(sheet)) < 0.1
        m1 = np.where(flip, ~m1, m1)
        both = rng.random(len(sheet)) < 0.05
        m2 = np.where(both, True, m2)
        none = rng.random(len(sheet)) < 0.05
        m1 = np.where(none, False, m1)
        m2 = np.where(none, False, m2)
    elif labelling == "random":
        m1 = rng.random(len(sheet)) < 0.5
        m2 = ~m1
    perm = rng.permutation(len(sheet))  # row order carries no meaning
    return pts[perm].copy(), nrm[perm].copy(), m1[perm].copy(), m2[perm].copy()


def max_candidates(points, normals, m1, m2, r_vox, max_deg):
    """largest number of in-range forward targets of any source, in either direction (the candidate budget)"""
    worst = 0
    for a, b in ((m1, m2), (m2, m1)):
        cnt = {}
        for _, s, _t in candidates(points, normals, a, b, r_vox, max_deg, True):
            cnt[s] = cnt.get(s, 0) + 1
        if cnt:
            worst = max(worst, max(cnt.values()))
    return worst


def random_case(rng, size=None):
    while True:
        n_total = int(size if size is not None else rng.choice([20, 21, 37, 60, 120, 200, 333, 600]))
        voxel = float(rng.choice([0.5, 0.784, 1.0, 1.35, 2.0]))
        gap = rng.uniform(3.0, 6.0)  # voxels
        max_nm = float(rng.uniform(0.8, 1.8) * gap * voxel)
        max_deg = float(rng.choice([1, 2, 3, 5, 7.5, 10, 15, 20, 30]))
        spacing = rng.uniform(1.6, 3.0) * (1.6 if max_deg >= 20 else 1.0)
        labelling = str(rng.choice(["plain", "swapped", "noisy", "random"]))
        pts, nrm, m1, m2 = make_sheets(
            rng,
            n_total,
            spacing,
            gap,
            curved=bool(rng.random() < 0.5),
            jitter=float(rng.choice([0.02, 0.05, 0.2])),
            noise_deg=float(rng.choice([0.0, 1.0, 4.0])),
            labelling=labelling,
        )
        if max_candidates(pts, nrm, m1, m2, max_nm / voxel, max_deg) < 25:
            return pts, nrm, m1, m2, voxel, max_nm, max_deg


def run(fn, pts, nrm, m1, m2, voxel, max_nm, max_deg, direction, **kw):
    return fn(pts, nrm, m1, m2, voxel, max_thickness_nm=max_nm, max_angle_degrees=max_deg, direction=direction, logger=QUIET, **kw)


def full_check(tag, case, rng, metamorphic=True):
    """property + comparison with the original on one input, both directions"""
    pts, nrm, m1, m2, voxel, max_nm, max_deg = case
    keep = [x.copy() for x in (pts, nrm, m1, m2)]
    for direction in ("1to2", "2to1"):
        t = f"{tag}/{direction}"
        res = run(M.measure_thickness_cpu, pts, nrm, m1, m2, voxel, max_nm, max_deg, direction)
        check_property(t, pts, nrm, m1, m2, voxel, max_nm, max_deg, direction, res)
        same_result(t, res, run(orig_cpu, pts, nrm, m1, m2, voxel, max_nm, max_deg, direction))
        # a second call on the same objects gives the same answer, inputs untouched
        same_result(t + "/again", run(M.measure_thickness_cpu, pts, nrm, m1, m2, voxel, max_nm, max_deg, direction), res)
        for x, y in zip(keep, (pts, nrm, m1, m2)):
            check(np.array_equal(x, y), f"{t}: input modified")
        # '2to1' swaps the roles of the surfaces
        other = "1to2" if direction == "2to1" else "2to1"
        sw = run(M.measure_thickness_cpu, pts, nrm, m2, m1, voxel, max_nm, max_deg, other)
        same_result(t + "/roles", sw, res)
        if not metamorphic:
            continue
        # rigid motion of points and normals
        R = random_rotation(rng)
        shift = rng.uniform(-30, 30, size=3)
        pr = pts @ R.T + shift
        nr = nrm @ R.T
        rr = run(M.measure_thickness_cpu, pr, nr, m1, m2, voxel, max_nm, max_deg, direction)
        check(np.array_equal(rr[1], res[1]) and np.array_equal(rr[2], res[2]), f"{t}: pairing changed by a rigid motion")
        check(np.allclose(rr[0], res[0], rtol=1e-5, atol=1e-6), f"{t}: thickness changed by a rigid motion")
        # scales with the voxel size (range scaled along, so the same candidates)
        rs = run(M.measure_thickness_cpu, pts, nrm, m1, m2, voxel * 4, max_nm * 4, max_deg, direction)
        check(np.array_equal(rs[1], res[1]) and np.array_equal(rs[2], res[2]), f"{t}: pairing changed by the voxel size")
        check(np.allclose(rs[0], res[0] * 4, rtol=1e-6, atol=0), f"{t}: thickness does not scale with the voxel size")


# --------------------------------------------------------------------------------------
# the numba candidate kernel -> flat list -> one-to-one assignment
# --------------------------------------------------------------------------------------
def kernel_matches(kernel, pts, nrm, src, tgt, r_vox, max_deg, max_matches=25):
    n = len(pts)
    md = np.zeros((n, max_matches), dtype=np.float64)
    mi = np.zeros((n, max_matches), dtype=np.int64)
    mc = np.zeros(n, dtype=np.int64)
    tidx = np.flatnonzero(tgt)
    kernel(
        np.ascontiguousarray(pts, dtype=np.float64),
        np.ascontiguousarray(nrm, dtype=np.float64),
        np.ascontiguousarray(src),
        np.ascontiguousarray(tgt),
        tidx,
        float(r_vox),
        float(np.cos(np.radians(max_deg))),
        md,
        mi,
        mc,
    )
    return md, mi, mc


def kernel_flat(md, mi, mc):
    flat = []
    for i in range(len(mc)):
        for j in range(int(mc[i])):
            flat.append((md[i, j], i, mi[i, j]))
    return flat


def kernel_check(tag, case):
    pts, nrm, m1, m2, voxel, max_nm, max_deg = case
    r_vox = max_nm / voxel
    for direction in ("1to2", "2to1"):
        t = f"{tag}/kernel/{direction}"
        src, tgt = roles(m1, m2, direction)
        out = kernel_matches(M.find_matches_parallel, pts, nrm, src, tgt, r_vox, max_deg)
        ref = kernel_matches(orig_kernel, pts, nrm, src, tgt, r_vox, max_deg)
        for name, x, y in zip(("distances", "indices", "counts"), out, ref):
            check(np.array_equal(x, y), f"{t}: kernel {name} differ from the original kernel")
        # candidate set == brute force (the kernel's range test is strict)
        want = sorted(candidates(pts, nrm, src, tgt, r_vox, max_deg, inclusive=False))
        got = sorted((float(d), int(s), int(tt)) for d, s, tt in kernel_flat(*out))
        check(len(want) == len(got) and all(a[1:] == b[1:] and abs(a[0] - b[0]) <= 1e-9 for a, b in zip(want, got)), f"{t}: kernel candidates differ from brute force")
        check(bool(np.all(out[2][~src] == 0)), f"{t}: a non-source row has candidates")
        res = M.process_matches_cpu2cpu(kernel_flat(*out), len(pts), voxel)
        check_property(t, pts, nrm, m1, m2, voxel, max_nm, max_deg, direction, res, inclusive=False)
        same_result(t, res, orig_process(kernel_flat(*ref), len(pts), voxel))


# --------------------------------------------------------------------------------------
# hand-made boundary inputs (whole-number coordinates: every comparison is exact)
# --------------------------------------------------------------------------------------
def boundary_cases():
    cases = {}
    z = np.array([0.0, 0.0, 1.0])
    # empty point list, no sources, no targets, single points
    e3 = np.zeros((0, 3))
    eb = np.zeros(0, bool)
    cases["empty"] = (e3, e3.copy(), eb, eb.copy(), 1.0, 8.0, 5.0)
    p = np.array([[0.0, 0, 0], [0, 0, 4], [3, 0, 0], [3, 0, 4]])
    nn = np.array([z, -z, z, -z])
    s1 = np.array([True, False, True, False])
    cases["no-sources"] = (p, nn, np.zeros(4, bool), ~s1, 1.0, 8.0, 5.0)
    cases["no-targets"] = (p, nn, s1, np.zeros(4, bool), 1.0, 8.0, 5.0)
    cases["no-labels"] = (p, nn, np.zeros(4, bool), np.zeros(4, bool), 1.0, 8.0, 5.0)
    cases["all-both"] = (p, nn, np.ones(4, bool), np.ones(4, bool), 1.0, 8.0, 5.0)
    cases["two-pairs"] = (p, nn, s1, ~s1, 1.0, 8.0, 5.0)
    cases["one-pair"] = (p[:2], nn[:2], s1[:2], ~s1[:2], 1.0, 8.0, 5.0)
    cases["one-point"] = (p[:1], nn[:1], s1[:1], ~s1[:1], 1.0, 8.0, 5.0)
    # the only target is row 0 / tree position 0, the only source is the last row
    cases["target-row0"] = (p[[1, 0]], nn[[1, 0]], np.array([False, True]), np.array([True, False]), 1.0, 8.0, 5.0)
    # distance exactly the maximum (4 voxels of 2 nm = 8 nm), just inside, just outside
    cases["range-exact"] = (p, nn, s1, ~s1, 2.0, 8.0, 5.0)
    cases["range-inside"] = (p, nn, s1, ~s1, 2.0, 8.5, 5.0)
    cases["range-outside"] = (p, nn, s1, ~s1, 2.0, 7.5, 5.0)
    # coincident source and target (distance 0), target behind, target exactly sideways
    pc = np.array([[0.0, 0, 0], [0, 0, 0], [0, 0, -3], [5, 0, 0], [0, 0, 3]])
    nc = np.array([z, -z, z, z, -z])
    cases["coincident-behind-sideways"] = (pc, nc, np.array([True, False, False, False, False]), np.array([False, True, True, True, True]), 1.0, 8.0, 30.0)
    # ties: two sources at the same distance from one target, and one source with two equidistant targets
    pt = np.array([[0.0, 0, 0], [2, 0, 0], [1, 0, 4], [10, 0, 0], [9, 0, 4], [11, 0, 4]])
    nt = np.array([z, z, -z, z, -z, -z])
    st = np.array([True, True, False, True, False, False])
    cases["ties"] = (pt, nt, st, ~st, 1.0, 8.0, 30.0)
    # competition: the nearest target of both sources is the same point
    pk = np.array([[0.0, 0, 0], [1, 0, 0], [1, 0, 4], [0, 0, 6], [-4, 0, 5]])
    nk = np.array([z, z, -z, -z, -z])
    sk = np.array([True, True, False, False, False])
    cases["competition"] = (pk, nk, sk, ~sk, 1.0, 8.0, 30.0)
    # normals at the poles and along the axes, targets straight ahead (angle 0)
    axes = np.array([[0, 0, 1.0], [0, 0, -1], [1, 0, 0], [-1, 0, 0], [0, 1, 0], [0, -1, 0]])
    pa = np.vstack([axes * 0 + np.arange(6)[:, None] * np.array([20.0, 0, 0]), np.arange(6)[:, None] * np.array([20.0, 0, 0]) + axes * 5])
    na = np.vstack([axes, -axes])
    sa = np.arange(12) < 6
    cases["poles"] = (pa, na, sa, ~sa, 1.0, 8.0, 1.0)
    # negative coordinates, whole-number (integer dtype) coordinates
    cases["negative"] = (p - 100.0, nn, s1, ~s1, 1.0, 8.0, 5.0)
    cases["int-coordinates"] = (p.astype(np.int64), nn, s1, ~s1, 1.0, 8.0, 5.0)
    return cases


# --------------------------------------------------------------------------------------
# specific to this change: the scan stops when the output row is full; no candidates -> early return
# --------------------------------------------------------------------------------------
def kernel_prefilled(kernel, pts, nrm, src, tgt, r_vox, max_deg, width, fill):
    """run the kernel on output arrays that already hold values: what it leaves untouched must stay"""
    n = len(pts)
    md = np.full((n, width), float(fill), dtype=np.float64)
    mi = np.full((n, width), int(fill), dtype=np.int64)
    mc = np.full(n, int(fill), dtype=np.int64)
    kernel(
        np.ascontiguousarray(pts, dtype=np.float64),
        np.ascontiguousarray(nrm, dtype=np.float64),
        np.ascontiguousarray(src),
        np.ascontiguousarray(tgt),
        np.flatnonzero(tgt),
        float(r_vox),
        float(np.cos(np.radians(max_deg))),
        md,
        mi,
        mc,
    )
    return md, mi, mc


def specific(rng):
    count = 0
    cases = dict(boundary_cases())
    cases["random-a"] = random_case(rng, 120)
    cases["random-b"] = random_case(rng, 333)
    # a dense input where many sources have more candidates than the row is wide (beyond the quantifier's budget
    # for width 25, but the two kernels must still agree entry by entry)
    pts, nrm, m1, m2 = make_sheets(rng, 400, 0.5, 4.0, curved=True, jitter=0.05, noise_deg=1.0, labelling="plain")
    cases["dense"] = (pts, nrm, m1, m2, 1.0, 8.0, 30.0)
    for name, (pts, nrm, m1, m2, voxel, max_nm, max_deg) in cases.items():
        r_vox = max_nm / voxel
        for direction in ("1to2", "2to1"):
            src, tgt = roles(m1, m2, direction)
            # admissible targets of every source in scan order (ascending target row)
            want = {}
            for d, s, t in sorted(candidates(pts, nrm, src, tgt, r_vox, max_deg, inclusive=False), key=lambda c: (c[1], c[2])):
                want.setdefault(s, []).append(t)
            for width in (0, 1, 2, 3, 7, 25, 40):
                for fill in (0, -7):
                    a = kernel_prefilled(M.find_matches_parallel, pts, nrm, src, tgt, r_vox, max_deg, width, fill)
                    b = kernel_prefilled(orig_kernel, pts, nrm, src, tgt, r_vox, max_deg, width, fill)
                    for what, x, y in zip(("distances", "indices", "counts"), a, b):
                        check(np.array_equal(x, y), f"kernel/{name}/width{width}/{direction}/fill{fill}: {what} differ from the original kernel")
                    count += 1
                # counts = min(number of admissible candidates, width), candidates kept in scan order
                for s in np.flatnonzero(src):
                    exp = want.get(int(s), [])[:width]
                    if not (a[2][s] == len(exp) and a[1][s, : len(exp)].tolist() == exp):
                        check(False, f"kernel/{name}/width{width}/{direction}: row {s} is not the first {width} candidates in scan order")
                        break
                # non-source rows are skipped by the kernel: they keep the fill value (-7 in the last run)
                check(bool(np.all(a[2][~src] == -7)), f"kernel/{name}/width{width}/{direction}: a non-source row was written")
    check(max(kernel_prefilled(M.find_matches_parallel, *cases["dense"][:2], cases["dense"][2], cases["dense"][3], 8.0, 30.0, 60, 0)[2]) > 25, "the dense input must overflow a row of width 25")
    # the assignment step with no candidates at all: same arrays, same dtypes, for every type of voxel size
    with np.errstate(all="ignore"):
        for n_points in (0, 1, 5):
            for vox in (1.0, 0.784, np.float32(0.784), np.float64(1.35), np.float16(0.5), 2, np.int64(3), True, float("nan"), float("inf"), np.float64("inf")):
                for empty in ([], np.empty((0, 3))):
                    a = M.process_matches_cpu2cpu(empty, n_points, vox)
                    b = orig_process(empty, n_points, vox)
                    ok = all(x.dtype == y.dtype and x.shape == y.shape and np.array_equal(x, y, equal_nan=(x.dtype.kind == "f")) for x, y in zip(a, b))
                    check(ok, f"assign/empty/{n_points}/{type(vox).__name__}({vox}): differs from the original function")
                    count += 1
    # ... and the first non-empty lists (one candidate, row 0 on both sides) still go through the loop
    for flat in ([(2.0, 0, 0)], [(np.float64(1.5), np.int64(0), np.int64(3))], [(3.0, 2, 1), (1.0, 2, 0)]):
        for vox in (1.0, np.float32(0.784), np.float64(1.35), 2):
            a = M.process_matches_cpu2cpu(list(flat), 4, vox)
            same_result(f"assign/short/{flat}", a, orig_process(list(flat), 4, vox))
            check(int(a[1].sum()) == 1, f"assign/short/{flat}: exactly one pair expected")
            count += 1
    # whole function on inputs without any candidate: both sheets further apart than the maximum thickness
    pts, nrm, m1, m2, voxel, max_nm, max_deg = cases["random-a"]
    for vox in (voxel, np.float32(voxel), np.float64(voxel)):
        far = (pts, nrm, m1, m2, vox, 0.25 * float(voxel), max_deg)
        full_check(f"no-candidates/{type(vox).__name__}", far, rng, metamorphic=False)
        check(not run(M.measure_thickness_cpu, *far, "1to2")[1].any(), "no-candidates: nothing may be matched")
        count += 1
    return count


def main():
    rng = np.random.default_rng(int(os.environ.get("DEMO_SEED", "2020")))
    n_random = int(os.environ.get("DEMO_CASES", "36"))
    for name, case in boundary_cases().items():
        full_check("boundary/" + name, case, rng, metamorphic=False)
        kernel_check("boundary/" + name, case)
    sizes = [20, 21, 600, 333]
    for k in range(n_random):
        case = random_case(rng, sizes[k] if k < len(sizes) else None)
        full_check(f"random{k}(n={len(case[0])},angle={case[6]})", case, rng)
        if k % 2 == 0:
            kernel_check(f"random{k}", case)
    n_specific = specific(rng)
    if FAILS:
        print(f"FAIL ({len(FAILS)} checks failed)")
        sys.exit(1)
    print(f"PASS ({len(boundary_cases())} boundary inputs, {n_random} random inputs, {n_specific} change-specific comparisons)")


if __name__ == "__main__":
    main()
