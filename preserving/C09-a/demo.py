"""C09 demo: spatial filters keep exactly the particles that lie inside.

Run as:  cd /tmp/wt6/C09 && /venv/bin/python /tmp/seedsP/C09/<x>/demo.py

Checks, over many random and edge-case inputs,
  (1) the four filters against an independent brute-force oracle, and
  (2) the filters of the imported (possibly patched) cryocat against verbatim copies of the original
      function bodies (kept below), on the same inputs, including inputs outside the oracle's range.

Note on remove_out_of_bounds_particles: on the unmodified tree the lower-bound test is vacuous
(`all(c_min) >= 0`), a known defect pinned by an existing test.  The oracle part therefore only uses
particles whose lower side is inside (c - boundary >= 0); the original-vs-current comparison uses all
positions, negative ones included.
"""
import os
import sys

sys.path.insert(0, os.getcwd())

import contextlib
import copy
import io
import tempfile
from math import ceil

import numpy as np
import pandas as pd
from scipy.spatial import KDTree

import cryocat
from cryocat import cryomap, ioutils
from cryocat.cryomotl import Motl
from cryocat.exceptions import UserInputError

FOCUS = "remove_out_of_bounds_particles"
assert os.path.abspath(cryocat.__file__).startswith(os.getcwd()), cryocat.__file__

COLS = list(Motl.motl_columns)
rng = np.random.default_rng(9009)
failures = []
counts = {}


def check(cond, msg):
    if not cond:
        failures.append(msg)
        if len(failures) <= 25:
            print("FAIL:", msg)


def quiet(fn, *a, **k):
    with contextlib.redirect_stdout(io.StringIO()):
        return fn(*a, **k)


def outcome(fn, *a, **k):
    """Return ('ok', value) or ('exc', exception type name)."""
    try:
        return "ok", quiet(fn, *a, **k)
    except Exception as e:  # noqa: BLE001
        return "exc", type(e).__name__


# --------------------------------------------------------------------------------------------------
# verbatim copies of the ORIGINAL function bodies (unmodified tree)
# --------------------------------------------------------------------------------------------------
def orig_adapt_to_trimming(self, trim_coord_start, trim_coord_end):
    trimvol_coord = np.asarray(trim_coord_start) - 1
    tdim = np.asarray(trim_coord_end) - trimvol_coord
    self.df.loc[:, ["x", "y", "z"]] = self.df.loc[:, ["x", "y", "z"]] - np.tile(
        trimvol_coord, (self.df.shape[0], 1)
    )
    self.df = self.df.loc[~((self.df["x"] < 1.0) | (self.df["y"] < 1.0) | (self.df["z"] < 1.0)), :]
    self.df = self.df.loc[
        ~((self.df["x"] > tdim[0]) | (self.df["y"] > tdim[1]) | (self.df["z"] > tdim[2])),
        :,
    ]


def orig_clean_by_distance_to_points(self, points, radius_in_voxels, feature_id="tomo_id", inplace=True, output_file=None):
    features = self.get_unique_values(feature_id)
    cleaned_df = pd.DataFrame()
    for f in features:
        feature_m = self.get_motl_subset(f, feature_id=feature_id, reset_index=True)
        coord1 = feature_m.get_coordinates()
        coord2 = points.loc[points[feature_id] == f, ["x", "y", "z"]].values
        tree = KDTree(coord1)
        indices_to_remove = set()
        for point in coord2:
            indices = tree.query_ball_point(point, r=radius_in_voxels)
            indices_to_remove.update(indices)
        indices_to_remove = sorted(indices_to_remove)
        cfm = feature_m.df.drop(index=indices_to_remove)
        cleaned_df = pd.concat([cleaned_df, cfm], ignore_index=True)
    cleaned_df.reset_index(drop=True, inplace=True)
    cleaned_motl = Motl(cleaned_df)
    if output_file:
        cleaned_motl.write_out(output_file)
    print(f"{self.df.shape[0]-cleaned_motl.df.shape[0]} particles were removed.")
    if inplace:
        self.df = cleaned_df
    else:
        return cleaned_motl


def orig_clean_by_tomo_mask(self, tomo_list, tomo_masks, inplace=True, output_file=None):
    tomos = ioutils.tlt_load(tomo_list)
    requries_loading = True
    if isinstance(tomo_masks, list):
        if len(tomos) != len(tomo_masks):
            raise ValueError(f"The list of tomograms has different length than lists of tomogram masks")
    else:
        tomo_mask = cryomap.binarize(tomo_masks)
        requries_loading = False
    cleaned_motl = Motl.load(self)
    for i, t in enumerate(tomos):
        tm = self.get_motl_subset(t, reset_index=True)
        coords = np.floor(tm.get_coordinates()).astype(int)
        if requries_loading:
            tomo_mask = cryomap.binarize(tomo_masks[i])
        within_bounds = (
            (coords[:, 0] >= 0)
            & (coords[:, 1] >= 0)
            & (coords[:, 2] >= 0)
            & (coords[:, 0] < tomo_mask.shape[0])
            & (coords[:, 1] < tomo_mask.shape[1])
            & (coords[:, 2] < tomo_mask.shape[2])
        )
        within_idx = np.where(within_bounds)[0]
        coords = coords[within_bounds]
        mask_values = tomo_mask[coords[:, 0], coords[:, 1], coords[:, 2]]
        idx_to_remove = within_idx[mask_values == 0]
        subtomo_idx = tm.df.loc[idx_to_remove, "subtomo_id"].values
        # only rows of this tomogram: subtomogram numbers may repeat in other tomograms
        hits = (cleaned_motl.df["tomo_id"] == t) & cleaned_motl.df["subtomo_id"].isin(subtomo_idx)
        cleaned_motl.df = cleaned_motl.df[~hits]
        print(f"Removed {str(idx_to_remove.shape[0])} particles from tomogram #{str(t)}")
    cleaned_motl.df.reset_index(inplace=True, drop=True)
    if output_file is not None:
        cleaned_motl.write_out(output_file)
    if inplace:
        self.df = cleaned_motl.df
    else:
        return cleaned_motl


def orig_remove_out_of_bounds_particles(self, dimensions, boundary_type="center", box_size=None):
    dim = ioutils.dimensions_load(dimensions)
    original_size = len(self.df)
    if boundary_type == "whole":
        if box_size:
            boundary = ceil(box_size / 2)
        else:
            raise UserInputError("You need to specify box_size when boundary_type is set to 'whole'.")
    elif boundary_type == "center":
        boundary = 0
    else:
        raise UserInputError(f"Unknown type of boundaries: {boundary_type}")
    recentered = self.get_coordinates()
    recentered_df = pd.DataFrame({
        "x": recentered[:, 0],
        "y": recentered[:, 1],
        "z": recentered[:, 2],
        "tomo_id": self.df["tomo_id"].values
    })
    idx_list = []
    for i, row in recentered_df.iterrows():
        tn = row["tomo_id"]
        tomo_dim = dim.loc[dim["tomo_id"] == tn, "x":"z"].reset_index(drop=True)
        c_min = [c - boundary for c in row["x":"z"]]
        c_max = [c + boundary for c in row["x":"z"]]
        if (
            (all(c_min) >= 0)
            and (c_max[0] < tomo_dim["x"][0])
            and (c_max[1] < tomo_dim["y"][0])
            and (c_max[2] < tomo_dim["z"][0])
        ):
            idx_list.append(i)
    self.df = self.df.iloc[idx_list].reset_index(drop=True)
    print(f"Removed {original_size - len(self.df)} particles.")
    print(f"Original size {original_size}, new_size {len(self.df)}")


# --------------------------------------------------------------------------------------------------
# generators
# --------------------------------------------------------------------------------------------------
TOMO_POOL = [1, 2, 3, 5, 7, 12, 40, 113]


def random_dims(tomos):
    """Different, non-cubic dimensions per tomogram."""
    return {t: rng.integers(12, 60, size=3).astype(float) for t in tomos}


def axis_values(n, d, lo_ok, kind):
    """Positions along one axis of extent d: inside, on the faces of, and beyond the volume."""
    pool = []
    pool.append(rng.uniform(0, d, size=n))  # inside, float
    pool.append(rng.integers(0, int(d) + 1, size=n).astype(float))  # integer grid
    faces = np.array([0.0, 0.5, 1.0, d - 2, d - 1.5, d - 1, d - 0.5, d, d + 0.5, d + 1, d + 7])
    pool.append(rng.choice(faces, size=n))
    if not lo_ok:
        pool.append(rng.choice(np.array([-9.0, -2.0, -1.0, -1.5, -0.5, -1e-9, 0.0]), size=n))
        pool.append(rng.uniform(-d, 2 * d, size=n))
    else:
        pool.append(rng.uniform(0, 2 * d, size=n))
    pool = np.stack(pool)
    if kind == "int":
        pool = np.round(pool)
    sel = rng.integers(0, pool.shape[0], size=n)
    return pool[sel, np.arange(n)]


def make_motl(n, tomos, dims, with_negative=True, shift_kind="float", index_kind="default", grid=False):
    df = pd.DataFrame(0.0, index=np.arange(n), columns=COLS)
    tid = rng.choice(np.asarray(tomos), size=n)
    if n >= len(tomos):
        tid[rng.permutation(n)[: len(tomos)]] = tomos  # every tomogram present
    df["tomo_id"] = tid.astype(float)
    pos = np.zeros((n, 3))
    inside_all = rng.random(n) < 0.5  # half of the particles completely inside, the rest anywhere
    for t in tomos:
        m = tid == t
        for a in range(3):
            k = int(m.sum())
            v = axis_values(k, dims[t][a], not with_negative, "int" if grid else "float")
            d = dims[t][a]
            inner = np.where(rng.random(k) < 0.3, rng.choice(np.array([0.0, 0.5, 1.0, d - 2, d - 1.5, d - 1]), size=k),
                             rng.uniform(0, d - 1, size=k))
            if grid:
                inner = np.floor(inner)
            pos[m, a] = np.where(inside_all[m], inner, v)
    if shift_kind == "zero":
        sh = np.zeros((n, 3))
    elif shift_kind == "half":
        sh = rng.choice(np.array([-1.5, -1.0, -0.5, 0.0, 0.5, 1.0, 2.5]), size=(n, 3))
    else:
        sh = rng.uniform(-3, 3, size=(n, 3))
    if grid and shift_kind == "float":
        sh = np.round(sh * 2) / 2
    base = pos - sh  # so that x + shift_x == pos (up to rounding for float shifts)
    df[["x", "y", "z"]] = base
    df[["shift_x", "shift_y", "shift_z"]] = sh
    df["subtomo_id"] = (rng.permutation(n) + 1).astype(float) * 3.0
    df["object_id"] = rng.integers(1, 4, size=n).astype(float)
    df["class"] = rng.integers(1, 4, size=n).astype(float)
    df["geom1"] = rng.integers(0, 5, size=n).astype(float)
    df["geom2"] = rng.uniform(-5, 5, size=n)
    df["score"] = rng.uniform(0, 1, size=n)
    df[["phi", "psi", "theta"]] = rng.uniform(-180, 180, size=(n, 3))
    if index_kind == "shuffled":
        df.index = rng.permutation(n) * 2 + 100
    elif index_kind == "offset":
        df.index = np.arange(n)[::-1] + 17
    return df


def total_coords(df):
    return np.column_stack(
        [df["x"].to_numpy() + df["shift_x"].to_numpy(),
         df["y"].to_numpy() + df["shift_y"].to_numpy(),
         df["z"].to_numpy() + df["shift_z"].to_numpy()]
    )


def same_frame(a, b, what, check_index=True):
    """Exact equality of two motl frames (values, order, dtypes and optionally index labels)."""
    ok = list(a.columns) == list(b.columns) and a.shape == b.shape
    if ok:
        ok = np.array_equal(a.to_numpy(dtype=float), b.to_numpy(dtype=float), equal_nan=True)
    if ok:
        ok = list(a.dtypes) == list(b.dtypes)
    if ok and check_index:
        ok = list(a.index) == list(b.index)
    check(ok, what)
    return ok


def survivors_unaltered(result_df, source_df, keep_mask, what, offset=None, reset=True):
    """result_df must be exactly the rows of source_df selected by keep_mask, in order, unaltered
    (apart from the documented offset on x,y,z) and, if reset, renumbered 0..k-1."""
    exp = source_df.loc[keep_mask].copy()
    if offset is not None:
        exp[["x", "y", "z"]] = exp[["x", "y", "z"]].to_numpy() - np.asarray(offset, dtype=float)
    if reset:
        exp = exp.reset_index(drop=True)
    ok = result_df.shape == exp.shape and list(result_df.columns) == list(exp.columns)
    if ok:
        ok = np.array_equal(result_df.to_numpy(dtype=float), exp.to_numpy(dtype=float))
    if ok:
        ok = list(result_df.index) == list(exp.index)
    check(ok, what)
    return ok


def dims_input(dims, form, extra=True):
    """Nx4 table (tomo_id x y z) in various accepted forms; rows shuffled, extra tomogram rows added."""
    rows = [[t, *dims[t]] for t in dims]
    if extra:
        rows.append([991.0, 5.0, 6.0, 7.0])
        rows.insert(0, [990.0, 500.0, 600.0, 700.0])
    arr = np.asarray(rows, dtype=float)
    arr = arr[rng.permutation(arr.shape[0])]
    if form == "ndarray":
        return arr, None
    if form == "intarray":
        return arr.astype(int), None
    if form == "df":
        return pd.DataFrame(arr, columns=["a", "b", "c", "d"], index=np.arange(arr.shape[0]) + 5), None
    if form == "df_named":
        return pd.DataFrame(arr, columns=["tomo_id", "x", "y", "z"]), None
    fd, path = tempfile.mkstemp(suffix=".txt")
    os.close(fd)
    np.savetxt(path, arr, fmt="%d")
    return path, path


# --------------------------------------------------------------------------------------------------
# 1. remove_out_of_bounds_particles
# --------------------------------------------------------------------------------------------------
def test_out_of_bounds(n_iter):
    forms = ["ndarray", "intarray", "df", "df_named", "file"]
    for it in range(n_iter):
        nt = int(rng.integers(1, 5))
        tomos = list(rng.choice(TOMO_POOL, size=nt, replace=False))
        dims = random_dims(tomos)
        n = int(rng.integers(1, 60)) if it % 9 else nt
        grid = bool(it % 2)
        shift_kind = ["float", "half", "zero"][it % 3]
        index_kind = ["default", "shuffled", "offset"][(it // 2) % 3]
        btype = ["center", "whole"][it % 2] if it % 7 else "center"
        box = [None, 1, 2, 3, 4, 5, 7, 8, 10, 11, 3.0, 6.5][int(rng.integers(0, 12))]
        if btype == "whole" and box is None:
            box = 6
        b = 0 if btype == "center" else int(np.ceil(box / 2))
        form = forms[it % len(forms)]

        # (a) oracle part: lower side always inside (c - b >= 0), upper side anywhere
        src = make_motl(n, tomos, dims, with_negative=False, shift_kind=shift_kind, index_kind=index_kind, grid=grid)
        # lift the particles so that c - b >= 0 holds for the total position (keeps away from lower faces),
        # and re-spread the upper side around dim - b to produce ties
        tot = total_coords(src)
        dmat = np.array([dims[t] for t in src["tomo_id"]])
        lift = rng.random(tot.shape) < 0.5
        tot = np.where(lift, tot + b, np.maximum(tot, b))
        tie = rng.random(tot.shape) < 0.15
        tot = np.where(tie & (dmat - b >= b), dmat - b + rng.choice([-1.0, -0.5, 0.0, 0.5, 1.0], size=tot.shape), tot)
        src[["x", "y", "z"]] = tot - src[["shift_x", "shift_y", "shift_z"]].to_numpy()
        tot = total_coords(src)
        ok_lower = np.all(tot - b >= 0, axis=1)
        src = src.loc[ok_lower]
        tot = tot[ok_lower]
        dmat = dmat[ok_lower]
        if len(src) == 0:
            continue
        expected_keep = np.all(tot + b < dmat, axis=1) & np.all(tot - b >= 0, axis=1)

        d_in, tmp = dims_input(dims, form)
        m = Motl(src.copy())
        kwargs = dict(boundary_type=btype)
        if btype == "whole" or it % 4 == 0:
            kwargs["box_size"] = box
        quiet(m.remove_out_of_bounds_particles, d_in, **kwargs)
        survivors_unaltered(m.df, src, expected_keep, f"oob oracle it={it} {btype} box={box} form={form}")
        counts["oob_oracle"] = counts.get("oob_oracle", 0) + 1
        counts["oob_removed"] = counts.get("oob_removed", 0) + int((~expected_keep).sum())
        counts["oob_kept"] = counts.get("oob_kept", 0) + int(expected_keep.sum())
        # repeated call on the same object: idempotent
        before = m.df.copy()
        quiet(m.remove_out_of_bounds_particles, d_in, **kwargs)
        same_frame(m.df, before, f"oob idempotent it={it}")

        # (b) original-vs-current on unrestricted positions (negative ones included)
        src2 = make_motl(n, tomos, dims, with_negative=True, shift_kind=shift_kind, index_kind=index_kind, grid=grid)
        d_cur = copy.deepcopy(d_in)
        d_org = copy.deepcopy(d_in)
        m_cur, m_org = Motl(src2.copy()), Motl(src2.copy())
        r_cur = outcome(m_cur.remove_out_of_bounds_particles, d_cur, **kwargs)
        r_org = outcome(orig_remove_out_of_bounds_particles, m_org, d_org, **kwargs)
        check(r_cur[0] == r_org[0] and (r_cur[0] == "ok" or r_cur[1] == r_org[1]), f"oob orig-vs-cur outcome it={it}: {r_cur} {r_org}")
        same_frame(m_cur.df, m_org.df, f"oob orig-vs-cur it={it} {btype} box={box} form={form}")
        if isinstance(d_in, pd.DataFrame):
            check(d_cur.equals(d_org) and list(d_cur.columns) == list(d_org.columns), f"oob dims frame side effect differs it={it}")
        counts["oob_cmp"] = counts.get("oob_cmp", 0) + 1
        if tmp:
            os.unlink(tmp)

    # error paths and empty motl
    dims = {1: np.array([20.0, 30.0, 40.0])}
    src = make_motl(5, [1], dims)
    for kw in (dict(boundary_type="whole"), dict(boundary_type="whole", box_size=0), dict(boundary_type="both"), dict(boundary_type="Center")):
        a = outcome(Motl(src.copy()).remove_out_of_bounds_particles, np.array([[1, 20, 30, 40]]), **kw)
        o = outcome(orig_remove_out_of_bounds_particles, Motl(src.copy()), np.array([[1, 20, 30, 40]]), **kw)
        check(a == o == ("exc", "UserInputError"), f"oob error path {kw}: {a} {o}")
    e_cur, e_org = Motl(), Motl()
    quiet(e_cur.remove_out_of_bounds_particles, np.array([[1, 20, 30, 40]]))
    quiet(orig_remove_out_of_bounds_particles, e_org, np.array([[1, 20, 30, 40]]))
    same_frame(e_cur.df, e_org.df, "oob empty motl")
    # integer-typed motl
    isrc = make_motl(30, [1], dims, with_negative=True, shift_kind="zero", grid=True).astype(int)
    m_cur, m_org = Motl(isrc.copy()), Motl(isrc.copy())
    quiet(m_cur.remove_out_of_bounds_particles, np.array([[1, 20, 30, 40]]), boundary_type="whole", box_size=5)
    quiet(orig_remove_out_of_bounds_particles, m_org, np.array([[1, 20, 30, 40]]), boundary_type="whole", box_size=5)
    same_frame(m_cur.df, m_org.df, "oob int motl")


# --------------------------------------------------------------------------------------------------
# 2. adapt_to_trimming
# --------------------------------------------------------------------------------------------------
def test_trimming(n_iter):
    for it in range(n_iter):
        nt = int(rng.integers(1, 5))
        tomos = list(rng.choice(TOMO_POOL, size=nt, replace=False))
        d = rng.integers(12, 60, size=3).astype(float)
        dims = {t: d for t in tomos}
        n = int(rng.integers(1, 60))
        grid = bool(it % 2)
        index_kind = ["default", "shuffled", "offset"][it % 3]
        src = make_motl(n, tomos, dims, with_negative=True, shift_kind=["float", "half", "zero"][it % 3], index_kind=index_kind, grid=grid)
        # x,y,z themselves (not x+shift) matter here: put them on the grid / spread directly
        some = rng.random(n) < 0.4
        for a, c in enumerate("xyz"):
            src[c] = np.where(some, axis_values(n, d[a], False, "int" if grid else "float"), np.round(src[c]) if grid else src[c])
        if it % 3 == 0:
            start = np.array([rng.integers(-3, int(d[a] // 2) + 1) for a in range(3)])
            end = np.array([rng.integers(start[a], int(d[a]) + 4) for a in range(3)])
        else:
            start = np.array([rng.integers(-3, int(d[a] // 4) + 1) for a in range(3)])
            end = np.array([rng.integers(int(3 * d[a] // 4), int(d[a]) + 4) for a in range(3)])
        if it % 5 == 0:
            start = start + 0.5
        as_form = [np.asarray, list, tuple, lambda v: np.asarray(v, dtype=float)][it % 4]
        off = np.asarray(start, dtype=float) - 1.0
        new = src[["x", "y", "z"]].to_numpy() - off
        tdim = np.asarray(end, dtype=float) - off
        expected_keep = np.all(new >= 1.0, axis=1) & np.all(new <= tdim, axis=1)

        m = Motl(src.copy())
        m.adapt_to_trimming(as_form(start), as_form(end))
        survivors_unaltered(m.df, src, expected_keep, f"trim oracle it={it}", offset=off, reset=False)
        counts["trim_oracle"] = counts.get("trim_oracle", 0) + 1
        counts["trim_removed"] = counts.get("trim_removed", 0) + int((~expected_keep).sum())
        counts["trim_kept"] = counts.get("trim_kept", 0) + int(expected_keep.sum())

        m_org = Motl(src.copy())
        orig_adapt_to_trimming(m_org, as_form(start), as_form(end))
        same_frame(m.df, m_org.df, f"trim orig-vs-cur it={it}")
        # repeated call with the identity trimming of the trimmed volume keeps everything unchanged
        before = m.df.copy()
        m.adapt_to_trimming(np.array([1, 1, 1]), np.ceil(tdim) + 1)
        same_frame(m.df, before, f"trim identity second call it={it}")


# --------------------------------------------------------------------------------------------------
# 3. clean_by_distance_to_points
# --------------------------------------------------------------------------------------------------
def test_distance(n_iter):
    for it in range(n_iter):
        nt = int(rng.integers(1, 5))
        tomos = list(rng.choice(TOMO_POOL, size=nt, replace=False))
        dims = random_dims(tomos)
        n = int(rng.integers(2, 70))
        grid = bool(it % 2)
        shift_kind = ["float", "half", "zero"][it % 3]
        if grid and shift_kind == "float":
            shift_kind = "half"
        index_kind = ["default", "shuffled", "offset"][(it // 2) % 3]
        src = make_motl(n, tomos, dims, with_negative=True, shift_kind=shift_kind, index_kind=index_kind, grid=grid)
        feature_id = ["tomo_id", "tomo_id", "object_id", "class"][it % 4]
        fvals = list(pd.unique(src[feature_id]))
        tot = total_coords(src)

        # reference points: some random, some coincident with particles, some at exact axis distance,
        # some for feature values that are not in the motl; some feature values get no point at all
        prow = []
        npnt = int(rng.integers(0, 12))
        dd = np.mean([dims[t] for t in tomos], axis=0)
        for _ in range(npnt):
            f = fvals[int(rng.integers(0, len(fvals)))] if rng.random() < 0.85 else 777.0
            mode = rng.integers(0, 4)
            if mode == 0 or f == 777.0:
                p = rng.uniform(-5, dd + 5)
                if grid:
                    p = np.round(p * 2) / 2
            else:
                cand = np.flatnonzero(src[feature_id].to_numpy() == f)
                p = tot[rng.choice(cand)].copy()
                if mode == 2:
                    p[int(rng.integers(0, 3))] += float(rng.choice([-3.0, -2.0, 2.0, 3.0, 2.5]))
                elif mode == 3:
                    p += np.array([2.0, -1.0, 2.0]) * float(rng.choice([1.0, -1.0]))  # distance exactly 3 on the grid
            prow.append([f, *p])
        points = pd.DataFrame(prow, columns=[feature_id, "x", "y", "z"], dtype=float)
        points["junk"] = 1.0
        points = points[["x", feature_id, "junk", "z", "y"]]
        if len(points):
            points.index = rng.permutation(len(points)) + 50
        radius = [0, 0.0, 1, 2, 2.5, 3, 3.0, 4.75, float(rng.uniform(0.5, 12)), 1000.0][int(rng.integers(0, 10))]

        # brute-force oracle
        remove = np.zeros(len(src), dtype=bool)
        ambiguous = np.zeros(len(src), dtype=bool)
        fcol = src[feature_id].to_numpy()
        for i in range(len(src)):
            for _, pr in points.iterrows():
                if pr[feature_id] != fcol[i]:
                    continue
                diff = tot[i] - np.array([pr["x"], pr["y"], pr["z"]])
                d2 = float(diff[0] * diff[0] + diff[1] * diff[1] + diff[2] * diff[2])
                r2 = float(radius) * float(radius)
                if d2 <= r2:
                    remove[i] = True
                if not grid and abs(d2 - r2) <= 1e-9 * max(1.0, r2) and d2 != 0.0:
                    ambiguous[i] = True  # rounding-level tie on non-representable data: not decidable independently
        if ambiguous.any():
            continue
        expected_keep = ~remove
        # expected order: grouped by feature value in order of first appearance, original order inside
        order = np.concatenate([np.flatnonzero(fcol == f) for f in fvals])
        exp_src = src.iloc[order]
        exp_keep = expected_keep[order]

        for inplace in (True, False):
            m = Motl(src.copy())
            res = outcome(m.clean_by_distance_to_points, points, radius, feature_id=feature_id, inplace=inplace)
            m_org = Motl(src.copy())
            res_o = outcome(orig_clean_by_distance_to_points, m_org, points.copy(), radius, feature_id=feature_id, inplace=inplace)
            check(res[0] == res_o[0], f"dist outcome differs it={it}: {res} {res_o}")
            if res[0] == "exc":
                # everything removed -> both raise (empty frame is not a motl); nothing more to compare
                check(res[1] == res_o[1] and not exp_keep.any(), f"dist unexpected exception it={it}: {res} {res_o}")
                continue
            out = m.df if inplace else res[1].df
            out_o = m_org.df if inplace else res_o[1].df
            survivors_unaltered(out, exp_src, exp_keep, f"dist oracle it={it} r={radius} f={feature_id} inplace={inplace}")
            same_frame(out, out_o, f"dist orig-vs-cur it={it} inplace={inplace}")
            if not inplace:
                same_frame(m.df, src, f"dist inplace=False altered the motl it={it}")
        counts["dist_oracle"] = counts.get("dist_oracle", 0) + 1
        counts["dist_removed"] = counts.get("dist_removed", 0) + int(remove.sum())
        counts["dist_kept"] = counts.get("dist_kept", 0) + int((~remove).sum())

    # output_file is written with the cleaned list
    dims = {1: np.array([20.0, 30.0, 40.0]), 2: np.array([25.0, 15.0, 35.0])}
    src = make_motl(20, [1, 2], dims, grid=True, shift_kind="zero")
    pts = pd.DataFrame({"tomo_id": [1.0, 2.0], "x": [5.0, 7.0], "y": [5.0, 7.0], "z": [5.0, 7.0]})
    fd, path = tempfile.mkstemp(suffix=".em")
    os.close(fd)
    m = Motl(src.copy())
    res = quiet(m.clean_by_distance_to_points, pts, 6, inplace=False, output_file=path)
    back = Motl.load(path)
    check(np.allclose(back.df[COLS].to_numpy(dtype=float), res.df[COLS].to_numpy(dtype=float), atol=1e-3), "dist output_file content")
    os.unlink(path)


# --------------------------------------------------------------------------------------------------
# 4. clean_by_tomo_mask
# --------------------------------------------------------------------------------------------------
def test_mask(n_iter):
    for it in range(n_iter):
        nt = int(rng.integers(1, 5))
        tomos = list(rng.choice(TOMO_POOL, size=nt, replace=False))
        dims = {t: rng.integers(6, 24, size=3).astype(float) for t in tomos}
        n = int(rng.integers(1, 70))
        grid = bool(it % 2)
        shift_kind = ["float", "half", "zero"][it % 3]
        index_kind = ["default", "shuffled", "offset"][(it // 2) % 3]
        src = make_motl(n, tomos, dims, with_negative=True, shift_kind=shift_kind, index_kind=index_kind, grid=grid)
        # keep total positions out of the open interval (-1, 0), where "inside" depends on the rounding rule
        tot = total_coords(src)
        bad = (tot > -1.0) & (tot < 0.0)
        src[["x", "y", "z"]] = src[["x", "y", "z"]].to_numpy() - np.where(bad, 1.0, 0.0)
        tot = total_coords(src)
        bad = (tot > -1.0 - 1e-9) & (tot < 0.0)
        if bad.any():
            src = src.loc[~bad.any(axis=1)]
            tot = total_coords(src)
        if len(src) == 0:
            continue

        listed = [t for t in tomos if rng.random() < 0.8] or [tomos[0]]
        if it % 4 == 0:
            listed.append(555)  # a tomogram without particles
        listed = list(rng.permutation(listed))
        single = it % 3 == 0

        def rnd_mask(shape):
            k = rng.integers(0, 3)
            if k == 0:
                return (rng.random(shape) < 0.5).astype(np.int8)
            if k == 1:
                mm = rng.random(shape).astype(np.float32)
                mm[rng.random(shape) < 0.1] = 0.5  # exactly the threshold -> zero voxel
                return mm
            mm = np.ones(shape)
            mm[tuple(slice(int(s // 4), int(s // 2) + 1) for s in shape)] = 0
            return mm

        if single:
            shape = tuple(int(v) for v in rng.integers(5, 26, size=3))
            masks = rnd_mask(shape)
            mask_of = {t: masks for t in listed}
        else:
            mlist = []
            for t in listed:
                base = dims[t] if t in dims else np.array([6.0, 7.0, 8.0])
                # mask volume smaller / equal / larger than the spread of the particles
                shape = tuple(int(max(2, v + rng.integers(-4, 3))) for v in base)
                mlist.append(rnd_mask(shape))
            masks = mlist
            mask_of = dict(zip(listed, mlist))

        remove = np.zeros(len(src), dtype=bool)
        tid = src["tomo_id"].to_numpy()
        for i in range(len(src)):
            if tid[i] not in mask_of:
                continue
            mk = mask_of[tid[i]]
            vox = [int(np.floor(v)) for v in tot[i]]
            if all(0 <= vox[a] < mk.shape[a] for a in range(3)):
                if not (mk[vox[0], vox[1], vox[2]] > 0.5):
                    remove[i] = True
        expected_keep = ~remove

        tl = [listed, np.asarray(listed)][it % 2]
        for inplace in (True, False):
            m = Motl(src.copy())
            masks_in = copy.deepcopy(masks)
            res = quiet(m.clean_by_tomo_mask, tl, masks_in, inplace=inplace)
            m_org = Motl(src.copy())
            res_o = quiet(orig_clean_by_tomo_mask, m_org, tl, copy.deepcopy(masks), inplace=inplace)
            out = m.df if inplace else res.df
            out_o = m_org.df if inplace else res_o.df
            survivors_unaltered(out, src, expected_keep, f"mask oracle it={it} single={single} inplace={inplace}")
            same_frame(out, out_o, f"mask orig-vs-cur it={it} inplace={inplace}")
            if not inplace:
                same_frame(m.df, src, f"mask inplace=False altered the motl it={it}")
            # masks not modified
            if single:
                check(np.array_equal(masks_in, masks), f"mask array modified it={it}")
            else:
                check(all(np.array_equal(p, q) for p, q in zip(masks_in, masks)), f"mask arrays modified it={it}")
        # repeated call on the cleaned object removes nothing more
        m = Motl(src.copy())
        quiet(m.clean_by_tomo_mask, tl, masks)
        before = m.df.copy()
        quiet(m.clean_by_tomo_mask, tl, masks)
        same_frame(m.df, before, f"mask idempotent it={it}")
        counts["mask_oracle"] = counts.get("mask_oracle", 0) + 1
        counts["mask_removed"] = counts.get("mask_removed", 0) + int(remove.sum())
        counts["mask_kept"] = counts.get("mask_kept", 0) + int((~remove).sum())
        counts["mask_outside"] = counts.get("mask_outside", 0) + int(
            sum(1 for i in range(len(src)) if tid[i] in mask_of and not all(0 <= np.floor(tot[i][a]) < mask_of[tid[i]].shape[a] for a in range(3)))
        )

    # original-vs-current also where truncation toward zero matters (positions in (-1, 0)) and error path
    dims = {1: np.array([10.0, 12.0, 14.0]), 2: np.array([9.0, 9.0, 20.0])}
    for k in range(20):
        src = make_motl(40, [1, 2], dims, with_negative=True, shift_kind="float")
        mk = [(rng.random((10, 12, 14)) < 0.5).astype(int), (rng.random((9, 9, 20)) < 0.5).astype(float)]
        a, b = Motl(src.copy()), Motl(src.copy())
        quiet(a.clean_by_tomo_mask, [1, 2], mk)
        quiet(orig_clean_by_tomo_mask, b, [1, 2], mk)
        same_frame(a.df, b.df, f"mask orig-vs-cur unrestricted k={k}")
    a = outcome(Motl(src.copy()).clean_by_tomo_mask, [1, 2], [mk[0]])
    b = outcome(orig_clean_by_tomo_mask, Motl(src.copy()), [1, 2], [mk[0]])
    check(a == b == ("exc", "ValueError"), f"mask length mismatch: {a} {b}")


# --------------------------------------------------------------------------------------------------
# 5. ioutils.dimensions_load (used by the out-of-bounds filter)
# --------------------------------------------------------------------------------------------------
def test_dimensions_load():
    arr = np.array([[3, 10, 20, 30], [1, 40, 50, 60]], dtype=float)
    for inp in (arr, arr.astype(int), pd.DataFrame(arr)):
        out = ioutils.dimensions_load(inp)
        check(list(out.columns) == ["tomo_id", "x", "y", "z"] and np.array_equal(out.to_numpy(dtype=float), arr), "dimensions_load Nx4")
    for inp in ([10, 20, 30], np.array([10, 20, 30]), np.array([[10, 20, 30]])):
        out = ioutils.dimensions_load(inp)
        check(list(out.columns) == ["x", "y", "z"] and out.to_numpy().tolist() == [[10, 20, 30]], "dimensions_load 1x3")
    out = ioutils.dimensions_load([10, 20, 30], tomo_idx=np.array([4, 2, 9]))
    check(out["tomo_id"].tolist() == [4, 2, 9] and out[["x", "y", "z"]].to_numpy().tolist() == [[10, 20, 30]] * 3, "dimensions_load tomo_idx")
    for bad in (np.zeros((2, 3)), np.zeros((2, 5)), [1, 2]):
        check(outcome(ioutils.dimensions_load, bad) == ("exc", "ValueError"), "dimensions_load bad shape")


if __name__ == "__main__":
    base = 120
    mult = {"remove_out_of_bounds_particles": 1, "adapt_to_trimming": 1, "clean_by_distance_to_points": 1, "clean_by_tomo_mask": 1}
    mult[FOCUS] = 3
    test_out_of_bounds(base * mult["remove_out_of_bounds_particles"])
    test_trimming(base * mult["adapt_to_trimming"])
    test_distance(base * mult["clean_by_distance_to_points"])
    test_mask(base * mult["clean_by_tomo_mask"])
    test_dimensions_load()
    print("cases:", counts)
    for k in ("oob", "trim", "dist", "mask"):
        assert counts.get(k + "_removed", 0) > 50 and counts.get(k + "_kept", 0) > 50, (k, counts)
    assert counts.get("mask_outside", 0) > 50, counts
    if failures:
        print(f"{len(failures)} check(s) failed")
        sys.exit(1)
    print("PASS")
