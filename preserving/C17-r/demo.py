"""Property C17 -- tilt-series metadata: mdoc round trip, loaders and wedge lists are consistent.

Run as:  cd /tmp/wt11/C17 && /venv/bin/python /tmp/seedsU/C17/b/demo.py

Part 1 checks the property against independent computations (the expected values are produced by the generators of
this file, never by cryoCAT). Part 2 compares the functions of the checked-out tree with the ORIGINAL function texts
kept in this file (executed in a copy of the module namespace), on the same inputs. Prints PASS and exits 0 when both
parts hold; the file passes on the unmodified tree and with change "b" applied.
"""
import sys, os

sys.path.insert(0, os.getcwd())
import warnings

warnings.filterwarnings("ignore")
import io, copy, shutil, tempfile, logging, types
import numpy as np
import pandas as pd
from cryocat import mdoc, ioutils, wedgeutils, starfileio

CHANGE = "b"
TMP = tempfile.mkdtemp(prefix="c17_demo_")
N_CHECKS = [0]


def check(cond, msg):
    N_CHECKS[0] += 1
    if not cond:
        print("FAIL:", msg)
        shutil.rmtree(TMP, ignore_errors=True)
        sys.exit(1)


# ------------------------------------------------------------------------------------------------- generators
def fmt_float(rng, lo, hi):
    """A non-negative decimal text (1..6 decimals) that Python prints back in positional notation, and its value."""
    nd = int(rng.integers(1, 7))
    x = float(rng.uniform(lo, hi))
    txt = "{:.{}f}".format(x, nd)
    if float(txt) != 0.0 and float(txt) < 1e-3:
        txt = "0.0"
    return txt


def expected_value(txt):
    """Independent statement of the mdoc value grammar: unsigned integers -> int, unsigned decimals -> float, else text."""
    t = txt.strip()
    if t and all(c in "0123456789" for c in t):
        return int(t)
    if t.count(".") == 1 and all(c in "0123456789." for c in t) and len(t) > 1:
        return float(t)
    return t


TEXTS = ["06-Jun-23  23:19:46", "137.175 367.199", "X:\\frames\\Pos_18_01.mrc", "0 1948 630.934", "-3", "-2.5",
         "0.023687 3  0.035531 7", "abc", "4096 4096", "-0.0733564 0.646703", "nan"]


def gen_mdoc(rng, n, with_prior=True, unique_tilts=True, ascending=False):
    """Returns (text, titles, info, rows) with rows = list of dicts {key: text}; keys identical in every section."""
    info = {"PixelSpacing": fmt_float(rng, 0.5, 5), "Voltage": str(int(rng.choice([200, 300]))),
            "Version": "SerialEM Version 4.0.20 64-bit,  built Feb 17 2023  20:15:15",
            "ImageFile": "TS_%03d.mrc" % rng.integers(0, 999), "ImageSize": "4096 4096", "DataMode": "1"}
    if rng.random() < 0.5:
        info["TiltAxisOffset"] = "-%s" % fmt_float(rng, 0.1, 5)  # negative -> stays text
    if rng.random() < 0.3:
        del info["Version"]
    titles = []
    for k in range(int(rng.integers(0, 4))):
        titles.append(["T = SerialEM: Titan Krios G4 D3946 at MPI BP                06-Jun-23  23:19:47",
                       "T =     Tilt axis angle = 82.9, binning = 1  spot = 5  camera = 1 dosym = 8.0",
                       "T = free text %d" % k][int(rng.integers(0, 3))])
    extra_keys = [k for k in ["StagePosition", "Magnification", "Intensity", "Defocus", "TargetDefocus", "SubFramePath",
                              "DateTime", "MinMaxMean", "NumSubFrames", "Note"] if rng.random() < 0.6]
    tilts = set()
    rows = []
    base = float(rng.uniform(-70, -10))
    for i in range(n):
        while True:
            if ascending:
                t = base + 3.0 * i + float(rng.uniform(0, 2.5))
            else:
                t = float(rng.uniform(-70, 70))
            ttxt = "{:.{}f}".format(t, int(rng.integers(1, 5)))
            if rng.random() < 0.05 and not ascending:
                ttxt = rng.choice(["0", "0.0", "-0.0", "60", "-60"])
            if not unique_tilts or float(ttxt) not in tilts:
                tilts.add(float(ttxt))
                break
        row = {"TiltAngle": ttxt, "ExposureDose": fmt_float(rng, 0.5, 5)}
        if with_prior:
            row["PriorRecordDose"] = fmt_float(rng, 0, 150) if rng.random() < 0.8 else str(int(rng.integers(0, 150)))
        for k in extra_keys:
            if k in ("Magnification", "NumSubFrames"):
                row[k] = str(int(rng.integers(0, 100000)))
            elif k in ("Intensity", "Defocus"):
                row[k] = fmt_float(rng, 0, 10)
            elif k == "TargetDefocus":
                row[k] = "-%d" % rng.integers(1, 6)
            elif k == "Note":  # a column mixing int, float, negative and text values
                row[k] = [str(int(rng.integers(0, 50))), fmt_float(rng, 0, 9), "-7", "text here"][int(rng.integers(0, 4))]
            else:
                row[k] = TEXTS[int(rng.integers(0, len(TEXTS)))]
        rows.append(row)
    zvalues = list(range(n))
    if rng.random() < 0.3:
        zvalues = [int(z) for z in rng.permutation(n)]
    for r, z in zip(rows, zvalues):
        r["ZValue"] = str(z)
    out = io.StringIO()
    for k, v in info.items():
        out.write("%s = %s\n" % (k, v))
    out.write("\n")
    for t in titles:
        out.write("[%s]\n\n" % t)
    for r in rows:
        out.write("[ZValue = %s]\n" % r["ZValue"])
        for k, v in r.items():
            if k != "ZValue":
                out.write("%s = %s\n" % (k, v))
        out.write("\n")
    return out.getvalue(), titles, info, rows


def same_scalar(got, exp):
    if isinstance(exp, bool):
        return isinstance(got, (bool, np.bool_)) and bool(got) == exp
    if isinstance(exp, int):
        return isinstance(got, (int, np.integer)) and not isinstance(got, (bool, np.bool_)) and int(got) == exp
    if isinstance(exp, float):
        return isinstance(got, (float, np.floating)) and float(got) == exp
    return isinstance(got, str) and got == exp


def check_imgs(imgs, rows, removed_flags, what):
    """imgs (table of an Mdoc) against the expected rows (dicts of texts) in the given order."""
    check(imgs.shape[0] == len(rows), what + ": number of rows")
    keys = ["ZValue"] + [k for k in rows[0] if k != "ZValue"]
    check(list(imgs.columns) == keys + ["Removed"], what + ": columns %s" % list(imgs.columns))
    for pos, (r, flag) in enumerate(zip(rows, removed_flags)):
        got = imgs.iloc[pos]
        for k in keys:
            if k == "ZValue":
                exp = int(r[k])
            elif k == "TiltAngle":
                exp = float(r[k])
            else:
                exp = expected_value(r[k])
            check(same_scalar(got[k], exp), what + ": row %d key %s got %r expected %r" % (pos, k, got[k], exp))
        check(same_scalar(got["Removed"], bool(flag)), what + ": Removed flag of row %d" % pos)


def frames_identical(a, b, what):
    check(list(a.columns) == list(b.columns), what + ": columns")
    check(list(a.index) == list(b.index), what + ": index")
    check(list(a.dtypes.astype(str)) == list(b.dtypes.astype(str)), what + ": dtypes %s / %s" % (list(a.dtypes), list(b.dtypes)))
    for c in a.columns:
        for x, y in zip(a[c].tolist(), b[c].tolist()):
            same = (x == y) or (isinstance(x, float) and isinstance(y, float) and np.isnan(x) and np.isnan(y))
            check(same and type(x) is type(y), what + ": column %s %r / %r" % (c, x, y))


def write_lines(path, values, fmt="%s"):
    with open(path, "w") as f:
        for v in values:
            f.write((fmt % v) + "\n")


def gen_tilts(rng, n):
    start = float(rng.uniform(-70, -20))
    steps = rng.uniform(0.5, 3.0, size=n)
    t = np.round(start + np.concatenate([[0.0], np.cumsum(steps[1:])]), 2)
    if rng.random() < 0.2:
        t = np.round(t)  # integer-looking values
    return [float(x) for x in t]  # ascending, unique


def write_gctf(path, U, V, A, P=None):
    with open(path, "w") as f:
        f.write("\ndata_\n\nloop_\n_rlnMicrographName #1\n_rlnCtfImage #2\n_rlnDefocusU #3\n_rlnDefocusV #4\n_rlnDefocusAngle #5\n")
        f.write("_rlnVoltage #6\n")
        if P is not None:
            f.write("_rlnPhaseShift #7\n")
        for i in range(len(U)):
            line = "split.mrc.%02d split.mrc.%02d.ctf:mrc %.6f %.6f %12.6f %.6f" % (i + 1, i + 1, U[i], V[i], A[i], 300.0)
            if P is not None:
                line += " %.6f" % P[i]
            f.write(line + "\n")
        f.write("\n")


def write_ctffind4(path, U, V, A, P):
    with open(path, "w") as f:
        f.write("# Output from CTFFind version 4.1.8, run on 2019-02-25 11:33:34\n# Input file: 031.mrc ; Number of micrographs: %d\n" % len(U))
        f.write("# Pixel size: 1.327 Angstroms\n# Box size: 512 pixels\n# Columns: #1 - micrograph number; #2 - defocus 1 ...\n")
        for i in range(len(U)):
            f.write("%.6f %.6f %.6f %.6f %.6f %.6f %.6f\n" % (i + 1, U[i], V[i], A[i], P[i], 0.001 * i, 12.5))


def gen_defocus(rng, n):
    U = np.round(rng.uniform(5000, 60000, n), 6)
    V = np.round(U + rng.uniform(-2000, 2000, n), 6)
    if rng.random() < 0.3:
        U = np.round(U)
        V = np.round(V)  # integer-looking
    if rng.random() < 0.2:
        V = U.copy()  # no astigmatism: mean == U
    if rng.random() < 0.2:
        U[0] = 0.0
        V[-1] = -V[-1]  # zeros and negative values (overfocus)
    A = np.round(rng.uniform(-90, 90, n), 6)
    P = np.round(rng.uniform(0, 3.14, n), 6)
    return U, V, A, P


# ------------------------------------------------------------------------------------------------- part 1: property
def part1_mdoc(rng, n_cases):
    for case in range(n_cases):
        n = [1, 2, 3, 80][case] if case < 4 else int(rng.integers(1, 81))
        text, titles, info, rows = gen_mdoc(rng, n, with_prior=rng.random() < 0.8)
        p_in = os.path.join(TMP, "in_%d.mdoc" % case)
        open(p_in, "w").write(text)
        m = mdoc.Mdoc(p_in)
        # reading: header entries and table as generated
        check(m.section_id == "ZValue", "section id")
        check(m.titles == [t.strip() for t in titles], "titles %r" % (m.titles,))
        check(list(m.project_info.keys()) == list(info.keys()), "header keys")
        for k, v in info.items():
            check(same_scalar(m.project_info[k], expected_value(v)), "header entry %s" % k)
        check_imgs(m.imgs, rows, [False] * n, "read")
        # round trip of the untouched object
        p_out = os.path.join(TMP, "out_%d.mdoc" % case)
        m.write(p_out)
        m2 = mdoc.Mdoc(p_out)
        check(m2.titles == m.titles and m2.section_id == m.section_id, "round trip titles")
        check(list(m2.project_info.items()) == list(m.project_info.items()), "round trip header")
        check(all(type(a) is type(b) for a, b in zip(m2.project_info.values(), m.project_info.values())), "header types")
        frames_identical(m2.imgs, m.imgs, "round trip table")
        check_imgs(m2.imgs, rows, [False] * n, "round trip vs generator")
        try:
            m.write(p_out)
            check(False, "write without overwrite onto an existing file must raise")
        except FileExistsError:
            pass
        # sorting by tilt changes only the order (tilts unique -> order determined)
        reset = bool(rng.random() < 0.3)
        order = sorted(range(n), key=lambda i: float(rows[i]["TiltAngle"]))
        srows = [dict(rows[i]) for i in order]
        if reset:
            for z, r in enumerate(srows):
                r["ZValue"] = str(z)
        before = m.imgs.copy()
        m.sort_by_tilt(reset_z_value=reset)
        check_imgs(m.imgs, srows, [False] * n, "sorted")
        check(list(m.imgs.index) == order, "sorting keeps the row labels with their rows")
        if not reset:
            frames_identical(m.imgs.sort_index(), before, "sorted table is a permutation of the table")
        # removing: any index subset of the kept images, in two rounds (second round counts among the still kept)
        flags = [False] * n
        for rnd in range(2):
            kept_pos = [i for i in range(n) if not flags[i]]
            if not kept_pos:
                break
            k = int(rng.integers(0, len(kept_pos) + 1))
            if case % 7 == 0 and rnd == 0:
                k = len(kept_pos)  # remove everything
            sub = [int(x) for x in rng.permutation(len(kept_pos))[:k]]
            if case % 5 == 1 and kept_pos and rnd == 0:
                sub = [0, len(kept_pos) - 1]  # first and last (the same image when one is left)
            arg = sub if rng.random() < 0.5 else np.asarray(sub, dtype=int)
            snapshot = m.imgs.drop(columns="Removed").copy()
            m.remove_images(arg)
            for s in sub:
                flags[kept_pos[s]] = True
            check_imgs(m.imgs, srows, flags, "after remove round %d" % rnd)
            frames_identical(m.imgs.drop(columns="Removed"), snapshot, "removal changes only the flag")
            check(list(m.removed_images().index) == [order[i] for i in range(n) if flags[i]], "removed_images")
            check(list(m.kept_images().index) == [order[i] for i in range(n) if not flags[i]], "kept_images")
        # kept_only=False counts among all images
        if case % 3 == 0:
            j = int(rng.integers(0, n))
            m.remove_images([j], kept_only=False)
            flags[j] = True
            check_imgs(m.imgs, srows, flags, "after remove kept_only=False")
        p_rm = os.path.join(TMP, "rm_%d.mdoc" % case)
        m.write(p_rm, overwrite=True)
        kept_rows = [r for r, f in zip(srows, flags) if not f]
        if kept_rows:
            m3 = mdoc.Mdoc(p_rm)
            check_imgs(m3.imgs, kept_rows, [False] * len(kept_rows), "written file omits exactly the removed images")
            check(m3.titles == m.titles and list(m3.project_info.items()) == list(m.project_info.items()), "header kept")
            frames_identical(m3.imgs, m.kept_images().reset_index(drop=True), "re-read == kept table")
        else:
            check("[ZValue" not in open(p_rm).read(), "all images removed -> no section written")
        # removed=True writes everything
        p_all = os.path.join(TMP, "all_%d.mdoc" % case)
        m.write(p_all, removed=True)
        check_imgs(mdoc.Mdoc(p_all).imgs, srows, [False] * n, "removed=True writes all images")
        # writing twice gives the same bytes; the object is not changed by writing
        snap = m.imgs.copy()
        m.write(p_all, overwrite=True, removed=True)
        b1 = open(p_all, "rb").read()
        m.write(p_all, overwrite=True, removed=True)
        check(b1 == open(p_all, "rb").read(), "repeated write")
        frames_identical(m.imgs, snap, "write leaves the table alone")
        # module-level helpers on files
        if case % 4 == 0 and n >= 2:
            idx1 = sorted(set(int(x) for x in rng.integers(1, n + 1, size=2)))
            p_h = os.path.join(TMP, "h_%d.mdoc" % case)
            mh = mdoc.remove_images(p_in, idx1, numbered_from_1=True, output_file=p_h)
            fl = [(i + 1) in idx1 for i in range(n)]
            check_imgs(mh.imgs, rows, fl, "mdoc.remove_images")
            kr = [r for r, f in zip(rows, fl) if not f]
            if kr:
                check_imgs(mdoc.Mdoc(p_h).imgs, kr, [False] * len(kr), "mdoc.remove_images file")
            ms = mdoc.sort_mdoc_by_tilt_angles(p_in, output_file=p_h)
            check_imgs(mdoc.Mdoc(p_h).imgs, [rows[i] for i in order], [False] * n, "sort_mdoc_by_tilt_angles file")
            check(list(mdoc.get_tilt_angles(p_in)) == [float(r["TiltAngle"]) for r in rows], "get_tilt_angles")


def part1_loaders(rng, n_cases):
    for case in range(n_cases):
        n = [1, 2, 80][case] if case < 3 else int(rng.integers(1, 81))
        tilts = gen_tilts(rng, n)
        p_tlt = os.path.join(TMP, "l_%d.tlt" % case)
        write_lines(p_tlt, tilts, "%.2f" if case % 2 else "%s")
        got = ioutils.tlt_load(p_tlt)
        exp = np.asarray(tilts, dtype=np.float32)
        check(got.dtype == np.float32 and got.shape == (n,) and np.array_equal(got, exp), "tlt_load file")
        check(np.all(np.diff(got) >= 0), "tilts ascending")
        check(np.array_equal(ioutils.tlt_load(p_tlt, sort_angles=False), exp), "tlt_load unsorted")
        arr = np.asarray(tilts)
        check(ioutils.tlt_load(arr) is arr, "tlt_load array identity")
        check(np.array_equal(ioutils.tlt_load(list(tilts)), arr), "tlt_load list")
        check(np.array_equal(ioutils.one_value_per_line_read(p_tlt), exp), "one_value_per_line_read")
        check(np.array_equal(ioutils.one_value_per_line_read(p_tlt, data_type=np.float64), arr), "one_value float64")
        # dose file
        dose = [float(x) for x in np.round(rng.uniform(0, 150, n), 3)]
        if case % 3 == 0:
            dose[0] = 0.0
        p_dose = os.path.join(TMP, "l_%d_dose.txt" % case)
        write_lines(p_dose, dose)
        got = ioutils.total_dose_load(p_dose)
        check(got.dtype == np.float32 and np.array_equal(got, np.asarray(dose, dtype=np.float32)), "total_dose_load file")
        darr = np.asarray(dose)
        check(ioutils.total_dose_load(darr) is darr, "total_dose_load array identity")
        check(np.array_equal(ioutils.total_dose_load(list(dose)), darr), "total_dose_load list")
        # mdoc: tilts and dose = prior + exposure, in tilt order
        text, _, _, rows = gen_mdoc(rng, n, with_prior=True)
        p_md = os.path.join(TMP, "l_%d.mdoc" % case)
        open(p_md, "w").write(text)
        order = sorted(range(n), key=lambda i: float(rows[i]["TiltAngle"]))
        got = ioutils.tlt_load(p_md)
        check([float(x) for x in got] == [float(rows[i]["TiltAngle"]) for i in order], "tlt_load mdoc")
        got = ioutils.total_dose_load(p_md)
        exp = [expected_value(rows[i]["ExposureDose"]) + expected_value(rows[i]["PriorRecordDose"]) for i in order]
        check(len(got) == n and all(float(a) == float(b) for a, b in zip(got, exp)), "mdoc dose = prior + exposure (sorted)")
        got = ioutils.total_dose_load(p_md, sort_mdoc=False)
        exp = [expected_value(r["ExposureDose"]) + expected_value(r["PriorRecordDose"]) for r in rows]
        check(all(float(a) == float(b) for a, b in zip(got, exp)), "mdoc dose = prior + exposure (file order)")
        # defocus: gctf with / without phase shift, ctffind4
        U, V, A, P = gen_defocus(rng, n)
        with_phase = bool(case % 2)
        p_g = os.path.join(TMP, "l_%d_gctf.star" % case)
        write_gctf(p_g, U, V, A, P if with_phase else None)
        for g in (ioutils.gctf_read(p_g), ioutils.defocus_load(p_g, "gctf"), ioutils.defocus_load(p_g, "GCTF"), ioutils.gctf_read(p_g)):
            check(list(g.columns) == ["defocus1", "defocus2", "astigmatism", "phase_shift", "defocus_mean"], "gctf columns")
            check(g.shape[0] == n and list(g.index) == list(range(n)), "gctf rows")
            check(all(str(d) == "float64" for d in g.dtypes), "gctf dtypes")
            check(np.allclose(g["defocus1"], U * 1e-4, rtol=1e-12, atol=0) and np.allclose(g["defocus2"], V * 1e-4, rtol=1e-12, atol=0), "gctf A -> um")
            check(np.array_equal(g["astigmatism"], A), "gctf astigmatism")
            check(np.array_equal(g["phase_shift"], P if with_phase else np.zeros(n)), "gctf phase shift")
            check(np.allclose(g["defocus_mean"], (U + V) / 2 * 1e-4, rtol=1e-12, atol=1e-18), "gctf mean = (U+V)/2")
            check(np.array_equal(g["defocus_mean"].to_numpy(), (g["defocus1"].to_numpy() + g["defocus2"].to_numpy()) / 2.0), "gctf mean exact")
        p_c = os.path.join(TMP, "l_%d_ctffind4.txt" % case)
        write_ctffind4(p_c, U, V, A, P)
        for c in (ioutils.ctffind4_read(p_c), ioutils.defocus_load(p_c, "ctffind4"), ioutils.ctffind4_read(p_c)):
            check(list(c.columns) == ["defocus1", "defocus2", "astigmatism", "phase_shift", "defocus_mean"], "ctffind4 columns")
            check(c.shape[0] == n and list(c.index) == list(range(n)), "ctffind4 rows")
            check(all(str(d) == "float32" for d in c.dtypes), "ctffind4 dtypes %s" % list(c.dtypes))
            check(np.allclose(c["defocus1"], U * 1e-4, rtol=1e-6, atol=0) and np.allclose(c["defocus2"], V * 1e-4, rtol=1e-6, atol=0), "ctffind4 A -> um")
            check(np.array_equal(c["astigmatism"], A.astype(np.float32)) and np.array_equal(c["phase_shift"], P.astype(np.float32)), "ctffind4 angle/phase")
            check(np.allclose(c["defocus_mean"], (U + V) / 2 * 1e-4, rtol=1e-6, atol=2e-6), "ctffind4 mean = (U+V)/2")
        # array / table inputs pass through
        arr5 = np.column_stack([U * 1e-4, V * 1e-4, A, P, (U + V) / 2 * 1e-4])
        d = ioutils.defocus_load(arr5)
        check(np.array_equal(d.to_numpy(), arr5) and list(d.columns)[-1] == "defocus_mean", "defocus_load array")
        check(ioutils.defocus_load(d) is d, "defocus_load table identity")
        try:
            ioutils.defocus_load(p_g, "nonsense")
            check(False, "unknown defocus file type must raise")
        except ValueError:
            pass


def expected_wedge_rows(tomos, pix, dims, zs, tilts, defoc, dose, volt, amp, cs):
    rows = []
    for t in tomos:
        for i in range(len(tilts[t])):
            rows.append((t, pix, dims[t][0], dims[t][1], dims[t][2], zs[t], tilts[t][i],
                         None if defoc is None else defoc[t][i], None if dose is None else dose[t][i], volt, amp, cs))
    return rows


WL_COLS = ["tomo_num", "pixelsize", "tomo_x", "tomo_y", "tomo_z", "z_shift", "tilt_angle", "defocus", "exposure",
           "voltage", "amp_contrast", "cs"]


def check_wedge(df, rows, what, rtol=1e-6):
    cols = [c for k, c in enumerate(WL_COLS) if rows[0][k] is not None]
    check(list(df.columns) == cols, what + ": columns %s" % list(df.columns))
    check(df.shape[0] == len(rows) and list(df.index) == list(range(len(rows))), what + ": one row per tilt per tomogram")
    for k, c in enumerate(WL_COLS):
        if rows[0][k] is None:
            continue
        exp = np.asarray([r[k] for r in rows], dtype=float)
        got = df[c].to_numpy().astype(float)
        check(np.allclose(got, exp, rtol=rtol, atol=2e-6), what + ": column %s" % c)


def make_wedge_case(rng, case):
    """Files and arrays of one batch case. Returns a dict with everything, expected values included."""
    d = os.path.join(TMP, "w_%d" % case)
    os.makedirs(d)
    nt = [1, 5][case % 60] if case % 60 < 2 else int(rng.integers(1, 6))
    tomos = sorted(int(x) for x in rng.choice(np.arange(1, 400), size=nt, replace=False))
    if case % 4 == 3:
        tomos = tomos[::-1]  # list inputs keep their order
    C = {"dir": d, "tomos": tomos, "pix": float(np.round(rng.uniform(0.8, 12), 3)), "tilts": {}, "defocus": {}, "dose": {},
         "dims": {}, "zs": {}, "ctf_type": "gctf" if case % 2 == 0 else "ctffind4", "dose_kind": ["txt", "mdoc", None][case % 3],
         "with_ctf": case % 5 != 4}
    for t in tomos:
        n = int(rng.integers(1, 81)) if case % 6 else 1
        tilts = gen_tilts(rng, n)
        C["tilts"][t] = [float(np.float32(x)) for x in tilts]
        write_lines(os.path.join(d, "%03d.tlt" % t), tilts)
        U, V, A, P = gen_defocus(rng, n)
        if C["ctf_type"] == "gctf":
            write_gctf(os.path.join(d, "%04d_ctf.star" % t), U, V, A, None if t % 2 else P)
            C["defocus"][t] = list((U + V) / 2 * 1e-4)
        else:
            write_ctffind4(os.path.join(d, "%04d_ctf.txt" % t), U, V, A, P)
            C["defocus"][t] = list(((U.astype(np.float32) + V.astype(np.float32)) / 2).astype(float) * 1e-4)
        if C["dose_kind"] == "txt":
            dose = [float(x) for x in np.round(rng.uniform(0, 150, n), 3)]
            write_lines(os.path.join(d, "%03d_dose.txt" % t), dose)
            C["dose"][t] = dose
        elif C["dose_kind"] == "mdoc":
            text, _, _, rows = gen_mdoc(rng, n, with_prior=True, ascending=True)
            open(os.path.join(d, "%03d_dose.mdoc" % t), "w").write(text)
            C["dose"][t] = [expected_value(r["ExposureDose"]) + expected_value(r["PriorRecordDose"]) for r in rows]
        if case % 2:
            C["dims"][t] = [int(x) for x in rng.integers(10, 5000, size=3)]
        else:
            C["dims"][t] = [float(x) for x in np.round(rng.uniform(10, 5000, size=3), 1)]
        C["zs"][t] = [0.0, -12.5, 30.0, float(np.round(rng.uniform(-200, 200), 2))][int(rng.integers(0, 4))]
        write_lines(os.path.join(d, "%03d_dim.txt" % t), ["%s %s %s" % tuple(C["dims"][t])])
        write_lines(os.path.join(d, "%03d_zshift.txt" % t), [C["zs"][t]])
    write_lines(os.path.join(d, "tomo_list.txt"), sorted(tomos))
    return C


def batch_kwargs(C, mode, rng):
    """mode: 'arrays' (Nx4 dims, Nx2 z-shifts), 'files' (per-tomogram files), 'shared' (one 1x3 dims, scalar z-shift)."""
    d, tomos = C["dir"], C["tomos"]
    kw = dict(pixel_size=C["pix"], tlt_file_format=os.path.join(d, "$xxx.tlt"), voltage=200.0, amp_contrast=0.1, cs=2.2)
    dims, zs = dict(C["dims"]), dict(C["zs"])
    if mode == "arrays":
        perm = [int(x) for x in rng.permutation(len(tomos))]  # table order differs from list order
        kw["tomo_dim"] = np.asarray([[tomos[i]] + list(C["dims"][tomos[i]]) for i in perm])
        kw["z_shift"] = np.asarray([[tomos[i], C["zs"][tomos[i]]] for i in perm])
    elif mode == "files":
        kw["tomo_dim_file_format"] = os.path.join(d, "$xxx_dim.txt")
        kw["z_shift_file_format"] = os.path.join(d, "$xxx_zshift.txt")
    else:
        one = C["dims"][tomos[0]]
        kw["tomo_dim"] = list(one) if rng.random() < 0.5 else np.asarray(one)
        z = [0.0, 7.0, -3.25][int(rng.integers(0, 3))]  # floats: an int z-shift is refused by the unmodified batch function
        kw["z_shift"] = z
        dims = {t: one for t in tomos}
        zs = {t: z for t in tomos}
    defoc = dose = None
    if C["with_ctf"]:
        kw["ctf_file_format"] = os.path.join(d, "$xxxx_ctf.star" if C["ctf_type"] == "gctf" else "$xxxx_ctf.txt")
        kw["ctf_file_type"] = C["ctf_type"]
        defoc = C["defocus"]
    if C["dose_kind"] is not None:
        kw["dose_file_format"] = os.path.join(d, "$xxx_dose." + C["dose_kind"])
        dose = C["dose"]
    volt, amp, cs = kw["voltage"], kw["amp_contrast"], kw["cs"]
    if rng.random() < 0.3:  # defaults of the microscope constants
        del kw["voltage"], kw["amp_contrast"], kw["cs"]
        volt, amp, cs = 300.0, 0.07, 2.7
    return kw, (dims, zs, defoc, dose, volt, amp, cs)


def part1_wedge(rng, n_cases, batch_fn=None, first_case=0):
    batch_fn = batch_fn or wedgeutils.create_wedge_list_sg_batch
    for case in range(first_case, first_case + n_cases):
        C = make_wedge_case(rng, case)
        d, tomos = C["dir"], C["tomos"]
        for mode in ("arrays", "files", "shared"):
            kw, (dims, zs, defoc, dose, volt, amp, cs) = batch_kwargs(C, mode, rng)
            as_file = mode == "files"
            tl = os.path.join(d, "tomo_list.txt") if as_file else (list(tomos) if case % 2 else np.asarray(tomos))
            order = sorted(tomos) if as_file else tomos
            out = os.path.join(d, "wl_%s.star" % mode)
            snap = copy.deepcopy(kw)
            df = batch_fn(tl, output_file=out, **kw)
            rows = expected_wedge_rows(order, C["pix"], dims, zs, C["tilts"], defoc, dose, volt, amp, cs)
            check_wedge(df, rows, "sg batch %s case %d" % (mode, case))
            for k in ("tomo_dim", "z_shift"):
                if isinstance(snap.get(k), np.ndarray):
                    check(np.array_equal(snap[k], kw[k]), "input array %s left alone" % k)
            back = starfileio.Starfile.read(out)[0][0]
            check_wedge(back, rows, "sg batch file %s case %d" % (mode, case), rtol=1e-5)
            # EM list from the written STOPGAP list
            em2 = wedgeutils.wedge_list_sg_to_em(out, os.path.join(d, "wl2.em"))
            check(list(em2.columns) == ["tomo_id", "min_tilt_angle", "max_tilt_angle"], "sg_to_em columns")
            so = sorted(tomos)
            check([int(x) for x in em2["tomo_id"]] == so, "sg_to_em tomograms")
            check(np.allclose(em2["min_tilt_angle"], [C["tilts"][t][0] for t in so], atol=2e-6)
                  and np.allclose(em2["max_tilt_angle"], [C["tilts"][t][-1] for t in so], atol=2e-6), "sg_to_em min / max")
        # EM wedge list: minimum and maximum tilt per tomogram
        em = wedgeutils.create_wedge_list_em_batch(list(tomos), os.path.join(d, "$xxx.tlt"), output_file=os.path.join(d, "wl.em"))
        check(list(em.columns) == ["tomo_num", "min_angle", "max_angle"] and [int(x) for x in em["tomo_num"]] == tomos, "em list")
        check(np.array_equal(em["min_angle"], np.asarray([min(C["tilts"][t]) for t in tomos], dtype=np.float32)), "em min")
        check(np.array_equal(em["max_angle"], np.asarray([max(C["tilts"][t]) for t in tomos], dtype=np.float32)), "em max")
        import emfile
        lem = np.asarray(emfile.read(os.path.join(d, "wl.em"))[1]).reshape(len(tomos), 3)
        check(lem.dtype == np.float32 and np.array_equal(lem, em.to_numpy().astype(np.float32)), "em file")
        # single-tomogram function with array inputs (tilts, Nx5 defocus, dose arrays)
        t = tomos[-1]
        n = len(C["tilts"][t])
        tl_arr = np.asarray(C["tilts"][t])
        arr5 = np.column_stack([np.zeros(n), np.zeros(n), np.zeros(n), np.zeros(n), np.asarray(C["defocus"][t])])
        dose_arr = np.linspace(0.0, 3.0 * n, n)
        df = wedgeutils.create_wedge_list_sg(t, C["dims"][t], C["pix"], tl_arr, z_shift=C["zs"][t], ctf_file=arr5, dose_file=dose_arr)
        rows = expected_wedge_rows([t], C["pix"], C["dims"], C["zs"], C["tilts"], C["defocus"], {t: list(dose_arr)}, 300.0, 0.07, 2.7)
        check_wedge(df, rows, "sg single arrays")
        df = wedgeutils.create_wedge_list_sg(t, C["dims"][t], C["pix"], os.path.join(d, "%03d.tlt" % t))
        rows = expected_wedge_rows([t], C["pix"], C["dims"], {t: 0.0}, C["tilts"], None, None, 300.0, 0.07, 2.7)
        check_wedge(df, rows, "sg single minimal")
        try:
            wedgeutils.create_wedge_list_sg(t, C["dims"][t], C["pix"], tl_arr, dose_file=np.zeros(n + 1))
            check(False, "dose of another length must raise")
        except ValueError:
            pass


# ------------------------------------------------------------------------------------------------- part 2: original texts
# Original text of the batch function touched by change b (cryocat/wedgeutils.py at HEAD, docstring left out).
ORIG_TEXT = '''
def create_wedge_list_sg_batch(
    tomo_list,
    pixel_size,
    tlt_file_format,
    tomo_dim=None,
    tomo_dim_file_format=None,
    z_shift=0.0,
    z_shift_file_format=None,
    ctf_file_format=None,
    ctf_file_type="gctf",
    dose_file_format=None,
    voltage=300.0,
    amp_contrast=0.07,
    cs=2.7000,
    output_file=None,
):
    wedge_list_df = pd.DataFrame()
    ctf_file = None
    dose_file = None

    tomograms = ioutils.tlt_load(tomo_list).astype(int)

    if tomo_dim_file_format is None:
        if tomo_dim is not None:
            tomo_dimensions = ioutils.dimensions_load(tomo_dim)
            if "tomo_id" not in tomo_dimensions.columns:
                repeated_values = np.repeat(tomo_dimensions[["x", "y", "z"]].values, len(tomograms), axis=0)
                tomo_dimensions = pd.DataFrame(repeated_values, columns=["x", "y", "z"])
                tomo_dimensions["tomo_id"] = tomograms
        else:
            raise ValueError("Either tomo_dim or tomo_dim_file_format has to be specified!")

    if z_shift_file_format is None:
        z_shift_df = ioutils.z_shift_load(z_shift)
        if "tomo_id" not in z_shift_df.columns:
            repeated_values = np.repeat(z_shift_df["z_shift"].values, len(tomograms), axis=0)
            z_shift_df = pd.DataFrame(repeated_values, columns=["z_shift"])
            z_shift_df["tomo_id"] = tomograms

    for t in tomograms:
        tlt_file = ioutils.fileformat_replace_pattern(tlt_file_format, t, "x", raise_error=False)

        if ctf_file_format is not None:
            ctf_file = ioutils.fileformat_replace_pattern(ctf_file_format, t, "x", raise_error=False)

        if dose_file_format is not None:
            dose_file = ioutils.fileformat_replace_pattern(dose_file_format, t, "x", raise_error=False)

        if tomo_dim_file_format is not None:
            t_dim = ioutils.fileformat_replace_pattern(tomo_dim_file_format, t, "x", raise_error=False)
        else:
            t_dim = tomo_dimensions.loc[tomo_dimensions["tomo_id"] == t, ["x", "y", "z"]].values[0]

        if z_shift_file_format is not None:
            z_shift_input = ioutils.fileformat_replace_pattern(z_shift_file_format, t, "x", raise_error=False)
        else:
            z_shift_input = z_shift_df.loc[z_shift_df["tomo_id"] == t, "z_shift"].values[0]

        wl_single_df = create_wedge_list_sg(
            t,
            tomo_dim=t_dim,
            pixel_size=pixel_size,
            tlt_file=tlt_file,
            z_shift=z_shift_input,
            ctf_file=ctf_file,
            ctf_file_type=ctf_file_type,
            dose_file=dose_file,
            voltage=voltage,
            amp_contrast=amp_contrast,
            cs=cs,
            output_file=None,
            drop_nan_columns=False,
        )

        wedge_list_df = pd.concat([wedge_list_df, wl_single_df])

    wedge_list_df = wedge_list_df.dropna(axis=1, how="all")
    wedge_list_df.reset_index(drop=True, inplace=True)
    if output_file is not None:
        starfileio.Starfile.write(
            [wedge_list_df], output_file, specifiers=["data_stopgap_wedgelist"], number_columns=False
        )
    return wedge_list_df
'''


def raises(fn, *a, **k):
    try:
        fn(*a, **k)
    except Exception as e:  # the kind of exception is the one thing change b alters
        return type(e).__name__
    return None


def part2():
    ns = dict(wedgeutils.__dict__)
    exec(ORIG_TEXT, ns)
    orig, tree = ns["create_wedge_list_sg_batch"], wedgeutils.create_wedge_list_sg_batch
    # the property with the ORIGINAL text as well (same generator, same expectations)
    part1_wedge(np.random.default_rng(1704), 6, batch_fn=orig, first_case=60)
    rng = np.random.default_rng(1721)
    for case in range(100, 124):
        C = make_wedge_case(rng, case)
        d, tomos = C["dir"], C["tomos"]
        for mode in ("arrays", "files", "shared"):
            kw, _ = batch_kwargs(C, mode, rng)
            tl = os.path.join(d, "tomo_list.txt") if mode == "files" else (list(tomos) if case % 2 else np.asarray(tomos))
            if mode == "arrays" and case % 3 == 0:
                # table is a superset of the list (extra tomograms, a repeated tomogram: the first row counts), as DataFrame
                # (the foreign tomograms come first, so the rows of the listed ones lie beyond the first len(list) rows)
                extra = np.asarray([[999] + [1.0, 2.0, 3.0], [1000] + [4.0, 5.0, 6.0]])
                kw["tomo_dim"] = np.vstack([extra, kw["tomo_dim"].astype(float), [[tomos[0]] + [7.0, 8.0, 9.0]]])
                kw["z_shift"] = pd.DataFrame(np.vstack([[[998, 1.0], [997, 2.0]], kw["z_shift"], [[tomos[-1], 55.0]]]))
            out_o, out_t = os.path.join(d, "o_%s.star" % mode), os.path.join(d, "t_%s.star" % mode)
            kw_o, kw_t = copy.deepcopy(kw), copy.deepcopy(kw)
            a = orig(copy.deepcopy(tl), output_file=out_o, **kw_o)
            b = tree(copy.deepcopy(tl), output_file=out_t, **kw_t)
            frames_identical(a, b, "batch original / tree, %s case %d" % (mode, case))
            for c in a.columns:
                if a[c].dtype != object:
                    check(a[c].to_numpy().tobytes() == b[c].to_numpy().tobytes(), "column %s bit for bit" % c)
            check(open(out_o, "rb").read() == open(out_t, "rb").read(), "written STOPGAP lists identical")
            for k in kw:
                if isinstance(kw[k], np.ndarray):
                    check(np.array_equal(kw_o[k], kw_t[k]) and np.array_equal(kw[k], kw_t[k]), "input %s untouched" % k)
                elif isinstance(kw[k], pd.DataFrame):
                    check(kw_o[k].equals(kw_t[k]) and list(kw_o[k].columns) == list(kw_t[k].columns), "input table %s same after call" % k)
            b2 = tree(copy.deepcopy(tl), **copy.deepcopy(kw))  # repeated call, no output file
            frames_identical(b, b2, "repeated call")
        # outside the quantifier: both raise (original: IndexError from .values[0]; with change b: ValueError up front)
        kw, _ = batch_kwargs(C, "arrays", rng)
        bad = dict(kw)
        bad["tomo_dim"] = kw["tomo_dim"][kw["tomo_dim"][:, 0] != tomos[-1]]
        if bad["tomo_dim"].shape[0] == 0:
            bad["tomo_dim"] = np.asarray([[1000, 1, 2, 3]])
        out_bad = os.path.join(d, "bad.star")
        ro, rt = raises(orig, list(tomos), output_file=out_bad, **bad), raises(tree, list(tomos), output_file=out_bad, **bad)
        check(ro is not None and rt is not None and not os.path.exists(out_bad), "missing dimensions row raises in both (%s / %s)" % (ro, rt))
        bad = dict(kw)
        bad["z_shift"] = np.asarray([[1000, 0.5]])
        ro, rt = raises(orig, list(tomos), output_file=out_bad, **bad), raises(tree, list(tomos), output_file=out_bad, **bad)
        check(ro is not None and rt is not None and not os.path.exists(out_bad), "missing z-shift row raises in both (%s / %s)" % (ro, rt))
        bad = {k: v for k, v in kw.items() if k != "tomo_dim"}
        ro, rt = raises(orig, list(tomos), **bad), raises(tree, list(tomos), **bad)
        check(ro == "ValueError" and rt == "ValueError", "neither tomo_dim nor tomo_dim_file_format raises ValueError in both")
        ro, rt = raises(orig, [], **kw), raises(tree, [], **kw)
        check(ro == "ValueError" and rt == "ValueError", "empty tomogram list raises ValueError in both")


def main():
    part1_mdoc(np.random.default_rng(1701), 40)
    part1_loaders(np.random.default_rng(1702), 30)
    part1_wedge(np.random.default_rng(1703), 14)
    part2()
    shutil.rmtree(TMP, ignore_errors=True)
    print("checks:", N_CHECKS[0])
    print("PASS")


if __name__ == "__main__":
    main()
