"""C18 -- nearest-neighbour analysis equals brute force and is invariant under rigid motion.

Run as:  cd /tmp/wt13/C18 && /venv/bin/python /tmp/seedsW/C18/<a|b>/demo.py

Three groups of checks, all on the functions of the tree in the current directory:
  1. property: table of get_nn_stats == independent brute-force computation (numpy only, hand-written
     rotation matrices), and unchanged under a rigid motion of every tomogram;
  2. current get_nn_distances / get_nn_rotations / get_nn_stats == pinned copy of the original text
     (bit for bit, including dtypes, row order and the error raised for disjoint tomogram sets);
  3. the caller's particle lists are left untouched, repeated calls give the same answer.
Prints PASS and exits 0 when everything holds.
"""
import os
import sys

sys.path.insert(0, os.getcwd())

import warnings

warnings.filterwarnings("ignore")

import numpy as np
import pandas as pd
from scipy.spatial.transform import Rotation as srot

from cryocat import cryomotl, nnana

# ----------------------------------------------------------------------------------------------------------------
# pinned copy of the original functions (text as in HEAD b1093bd), executed in a namespace of its own
# ----------------------------------------------------------------------------------------------------------------
ORIG_SRC = '''
import numpy as np
import pandas as pd
from cryocat import cryomotl
from scipy.spatial.transform import Rotation as srot
from cryocat import geom
import sklearn.neighbors as sn


def get_feature_nn_indices(fm_a, fm_nn, nn_number=1):
    coord_a = fm_a.get_coordinates()
    coord_nn = fm_nn.get_coordinates()

    nn_count = min(nn_number, coord_nn.shape[0])
    kdt_nn = sn.KDTree(coord_nn)
    nn_dist, nn_idx = kdt_nn.query(coord_a, k=nn_count)
    ordered_idx = np.arange(0, nn_idx.shape[0], 1)

    return (
        ordered_idx,
        nn_idx.reshape((nn_idx.shape[0], nn_count)),
        nn_dist.reshape((nn_idx.shape[0], nn_count)),
        nn_count,
    )


def get_nn_stats(motl_a, motl_nn, pixel_size=1.0, feature_id="tomo_id", nn_number=1, rotation_type="angular_distance"):
    (
        centered_coord,
        rotated_coord,
        nn_dist,
        ang_dst,
        subtomo_idx,
        subtomo_idx_nn,
    ) = get_nn_distances(
        motl_a, motl_nn, nn_number=nn_number, pixel_size=pixel_size, feature=feature_id, rotation_type=rotation_type
    )

    coord_rot, angles = get_nn_rotations(motl_a, motl_nn, feature=feature_id, nn_number=nn_number)

    nn_stats = pd.DataFrame(
        np.hstack(
            (
                nn_dist.reshape((nn_dist.shape[0], 1)),
                centered_coord,
                rotated_coord,
                ang_dst.reshape((nn_dist.shape[0], 1)),
                coord_rot,
                angles,
                subtomo_idx.reshape((nn_dist.shape[0], 1)),
                subtomo_idx_nn.reshape((nn_dist.shape[0], 1)),
            )
        ),
        columns=[
            "distance",
            "coord_x",
            "coord_y",
            "coord_z",
            "coord_rx",
            "coord_ry",
            "coord_rz",
            "angular_distance",
            "rot_x",
            "rot_y",
            "rot_z",
            "phi",
            "theta",
            "psi",
            "subtomo_idx",
            "subtomo_nn_idx",
        ],
    )

    nn_stats["type"] = "nn"

    return nn_stats


def get_nn_distances(motl_a, motl_nn, pixel_size=1.0, nn_number=1, feature="tomo_id", rotation_type="angular_distance"):
    if isinstance(motl_a, str):
        motl_a = cryomotl.Motl(motl_path=motl_a)

    if isinstance(motl_nn, str):
        motl_nn = cryomotl.Motl(motl_path=motl_nn)

    # Get unique feature idx
    features_a = np.unique(motl_a.df.loc[:, feature].values)
    features_nn = np.unique(motl_nn.df.loc[:, feature].values)

    # Work only with intersection
    features = np.intersect1d(features_a, features_nn, assume_unique=True)

    centered_coord = []
    nn_dist = []
    angular_distances = []
    rotated_coord = []
    subtomo_idx = []
    subtomo_idx_nn = []

    for f in features:
        fm_a = motl_a.get_motl_subset(f, feature_id=feature)
        fm_nn = motl_nn.get_motl_subset(f, feature_id=feature)

        idx, nn_idx, dist, nn_count = get_feature_nn_indices(fm_a, fm_nn, nn_number)

        if len(idx) == 0:
            continue

        coord_nn = fm_nn.get_coordinates() * pixel_size
        coord_a = fm_a.get_coordinates() * pixel_size

        # get angles
        angles_a = fm_a.get_angles()
        angles_a = angles_a[idx, :]
        angles_nn = fm_nn.get_angles()
        rotations = srot.from_euler("zxz", angles=angles_a, degrees=True)

        angles = -fm_a.df[["psi", "theta", "phi"]].values
        angles = angles[idx, :]
        rot = srot.from_euler("zxz", angles=angles, degrees=True)

        subtomos_nn = fm_nn.df["subtomo_id"].to_numpy()
        subtomos_a = fm_a.df["subtomo_id"].to_numpy()

        for i in range(nn_count):
            c_coord = coord_nn[nn_idx[:, i], :] - coord_a[idx, :]
            centered_coord.append(c_coord)
            nn_dist.append(dist[:, i] * pixel_size)

            angles_nn_sel = angles_nn[nn_idx[:, i], :]

            rotations_nn = srot.from_euler("zxz", angles=angles_nn_sel, degrees=True)
            angular_distances.append(geom.compare_rotations(rotations, rotations_nn, rotation_type=rotation_type))

            rotated_coord.append(rot.apply(c_coord))

            subtomo_idx_nn.append(subtomos_nn[nn_idx[:, i]])
            subtomo_idx.append(subtomos_a[idx])

    return (
        np.vstack(centered_coord),
        np.vstack(rotated_coord),
        np.concatenate(nn_dist),
        np.concatenate(angular_distances),
        np.concatenate(subtomo_idx),
        np.concatenate(subtomo_idx_nn),
    )


def get_nn_rotations(motl_a, motl_nn, nn_number=1, feature="tomo_id", type_id="geom1"):
    if isinstance(motl_a, str):
        motl_a = cryomotl.Motl(motl_path=motl_a)

    if isinstance(motl_nn, str):
        motl_nn = cryomotl.Motl(motl_path=motl_nn)

    # Get unique feature idx
    features_a = np.unique(motl_a.df.loc[:, feature].values)
    features_nn = np.unique(motl_nn.df.loc[:, feature].values)

    # Work only with intersection
    features = np.intersect1d(features_a, features_nn, assume_unique=True)

    nn_rotations = []

    for f in features:
        fm_a = motl_a.get_motl_subset(f, feature_id=feature)
        fm_nn = motl_nn.get_motl_subset(f, feature_id=feature)

        idx, idx_nn, _, nn_count = get_feature_nn_indices(fm_a, fm_nn, nn_number)

        angles_nn = fm_nn.get_angles()
        angles_ref_to_zero = -fm_a.get_feature(["psi", "theta", "phi"])
        rot_to_zero = srot.from_euler("zxz", angles=angles_ref_to_zero[idx, :], degrees=True)

        for i in range(nn_count):
            rot_nn = srot.from_euler("zxz", angles=angles_nn[idx_nn[:, i], :], degrees=True)
            nn_rotations.append(rot_to_zero * rot_nn)

    nn_rotations = srot.concatenate(nn_rotations)
    points_on_sphere = geom.visualize_rotations(nn_rotations, plot_rotations=False)
    angles = nn_rotations.as_euler("zxz", degrees=True)

    return points_on_sphere, angles
'''
ORIG = {"__name__": "nnana_orig"}
exec(compile(ORIG_SRC, "nnana_orig", "exec"), ORIG)


# ----------------------------------------------------------------------------------------------------------------
# helpers: particle lists, hand-written rotations, brute force
# ----------------------------------------------------------------------------------------------------------------
def make_motl(rng, tomo_sizes, id_start=1, shifts=True, shuffle=True, spread=60.0):
    """tomo_sizes: dict tomo_id -> number of particles.  Unique subtomogram numbers, non-zero shifts, random angles."""
    tomo = np.concatenate([np.full(n, t, dtype=float) for t, n in tomo_sizes.items()])
    n = tomo.size
    if shuffle:
        tomo = tomo[rng.permutation(n)]  # rows of the tomograms interleaved
    df = pd.DataFrame(0.0, index=np.arange(n), columns=cryomotl.Motl.motl_columns)
    df["tomo_id"] = tomo
    df["subtomo_id"] = (id_start + rng.permutation(n) * 3).astype(float)
    df["object_id"] = rng.integers(1, 4, n).astype(float)
    df[["x", "y", "z"]] = np.round(rng.uniform(0, spread, (n, 3)))
    if shifts:
        df[["shift_x", "shift_y", "shift_z"]] = rng.uniform(-1.5, 1.5, (n, 3))
    df["phi"] = rng.uniform(-180, 180, n)
    df["theta"] = rng.uniform(5, 175, n)
    df["psi"] = rng.uniform(-180, 180, n)
    df["score"] = rng.uniform(0, 1, n)
    df["class"] = 1.0
    return cryomotl.Motl(motl_df=df)


def rz(a):
    c, s = np.cos(np.radians(a)), np.sin(np.radians(a))
    m = np.zeros(a.shape + (3, 3))
    m[..., 0, 0], m[..., 0, 1], m[..., 1, 0], m[..., 1, 1], m[..., 2, 2] = c, -s, s, c, 1.0
    return m


def rx(a):
    c, s = np.cos(np.radians(a)), np.sin(np.radians(a))
    m = np.zeros(a.shape + (3, 3))
    m[..., 1, 1], m[..., 1, 2], m[..., 2, 1], m[..., 2, 2], m[..., 0, 0] = c, -s, s, c, 1.0
    return m


def orientation(df):
    """R = Rz(psi) Rx(theta) Rz(phi): extrinsic zxz(phi, theta, psi)."""
    return rz(df["psi"].to_numpy()) @ rx(df["theta"].to_numpy()) @ rz(df["phi"].to_numpy())


def rot_angle_deg(m):
    """Rotation angle of (n,3,3) matrices, robust near 0 and 180 degrees."""
    s = 0.5 * np.sqrt(
        (m[:, 2, 1] - m[:, 1, 2]) ** 2 + (m[:, 0, 2] - m[:, 2, 0]) ** 2 + (m[:, 1, 0] - m[:, 0, 1]) ** 2
    )
    c = 0.5 * (np.trace(m, axis1=1, axis2=2) - 1.0)
    return np.degrees(np.arctan2(s, c))


def brute_force(motl_a, motl_nn, k, pixel_size):
    """Expected rows: tomograms ascending, then neighbour rank, then query particles in row order."""
    da, dn = motl_a.df, motl_nn.df
    rows = []
    for t in sorted(set(da["tomo_id"]) & set(dn["tomo_id"])):
        a = da[da["tomo_id"] == t]
        b = dn[dn["tomo_id"] == t]
        pa = a[["x", "y", "z"]].to_numpy() + a[["shift_x", "shift_y", "shift_z"]].to_numpy()
        pb = b[["x", "y", "z"]].to_numpy() + b[["shift_x", "shift_y", "shift_z"]].to_numpy()
        d = np.sqrt(((pa[:, None, :] - pb[None, :, :]) ** 2).sum(axis=2))
        order = np.argsort(d, axis=1, kind="stable")
        ra, rb = orientation(a), orientation(b)
        ida, idb = a["subtomo_id"].to_numpy(), b["subtomo_id"].to_numpy()
        for rank in range(min(k, len(b))):
            j = order[:, rank]
            off = (pb[j] - pa) * pixel_size
            rel = np.transpose(ra, (0, 2, 1)) @ rb[j]  # R_a^-1 R_nn
            rows.append(
                dict(
                    distance=d[np.arange(len(a)), j] * pixel_size,
                    offset=off,
                    offset_own=np.einsum("nji,nj->ni", ra, off),  # R_a^T off
                    angle=rot_angle_deg(rel),
                    rel=rel,
                    ida=ida,
                    idb=idb[j],
                )
            )
    if not rows:
        return None
    return {key: np.concatenate([r[key] for r in rows]) for key in rows[0]}


def table_rel(tab):
    return srot.from_euler("zxz", tab[["phi", "theta", "psi"]].to_numpy(), degrees=True).as_matrix()


def check_against_brute_force(tab, ref, what):
    assert len(tab) == len(ref["distance"]), (what, "rows", len(tab), len(ref["distance"]))
    assert np.array_equal(tab["subtomo_idx"].to_numpy(), ref["ida"]), (what, "query ids / row order")
    assert np.array_equal(tab["subtomo_nn_idx"].to_numpy(), ref["idb"]), (what, "neighbour ids")
    assert np.allclose(tab["distance"], ref["distance"], rtol=1e-9, atol=1e-9), (what, "distance")
    assert np.allclose(tab[["coord_x", "coord_y", "coord_z"]], ref["offset"], rtol=1e-9, atol=1e-9), (what, "offset")
    assert np.allclose(tab[["coord_rx", "coord_ry", "coord_rz"]], ref["offset_own"], rtol=1e-8, atol=1e-8), (
        what,
        "offset in the query frame",
    )
    assert np.allclose(tab["angular_distance"], ref["angle"], rtol=0, atol=1e-4), (what, "angular distance")
    assert np.allclose(table_rel(tab), ref["rel"], rtol=0, atol=1e-7), (what, "relative orientation")
    assert np.allclose(tab[["rot_x", "rot_y", "rot_z"]], ref["rel"][:, :, 2], rtol=0, atol=1e-7), (what, "rot_xyz")
    assert (tab["type"] == "nn").all()


def ascending_per_particle(tab, what):
    """Within one query particle the reported neighbours come in ascending distance."""
    for _, g in tab.groupby("subtomo_idx", sort=False):
        d = g["distance"].to_numpy()
        assert np.all(np.diff(d) >= 0), (what, "not ascending")


def move_rigidly(rng, motl):
    """Every tomogram gets its own rigid motion (Q, t): positions -> Q p + t, orientations -> Q R."""
    df = motl.df.copy()
    for t in np.unique(df["tomo_id"]):
        sel = (df["tomo_id"] == t).to_numpy()
        q = srot.random(random_state=int(rng.integers(1 << 30)))
        shift = rng.uniform(-40, 40, 3)
        p = df.loc[sel, ["x", "y", "z"]].to_numpy() + df.loc[sel, ["shift_x", "shift_y", "shift_z"]].to_numpy()
        p = q.apply(p) + shift
        new_shift = rng.uniform(-1, 1, p.shape)
        df.loc[sel, ["x", "y", "z"]] = p - new_shift
        df.loc[sel, ["shift_x", "shift_y", "shift_z"]] = new_shift
        r = srot.from_euler("zxz", df.loc[sel, ["phi", "theta", "psi"]].to_numpy(), degrees=True)
        ang = np.atleast_2d((q * r).as_euler("zxz", degrees=True))
        df.loc[sel, ["phi", "theta", "psi"]] = ang
    return cryomotl.Motl(motl_df=df)


def same_arrays(x, y, what):
    assert type(x) is type(y), (what, type(x), type(y))
    if isinstance(x, tuple):
        assert len(x) == len(y), what
        for n, (p, q) in enumerate(zip(x, y)):
            same_arrays(p, q, (what, n))
        return
    assert x.dtype == y.dtype, (what, x.dtype, y.dtype)
    assert x.shape == y.shape, (what, x.shape, y.shape)
    assert np.array_equal(x, y), (what, "values differ", np.abs(x - y).max())


def outcome(fn, *args, **kwargs):
    try:
        return ("ok", fn(*args, **kwargs))
    except Exception as e:  # noqa: BLE001 -- the kind of failure is part of the comparison
        return ("raised", type(e), str(e))


def compare_with_original(motl_a, motl_nn, k, pixel_size, what):
    """Current functions against the pinned original text, bit for bit."""
    for feature in ("tomo_id", "object_id"):
        for rtype in ("angular_distance", "cone_distance", "in_plane_distance", "all"):
            new = outcome(nnana.get_nn_distances, motl_a, motl_nn, pixel_size, k, feature, rtype)
            old = outcome(ORIG["get_nn_distances"], motl_a, motl_nn, pixel_size, k, feature, rtype)
            assert new[0] == old[0], (what, feature, rtype, new[0], old[0])
            if new[0] == "ok":
                same_arrays(new[1], old[1], (what, "get_nn_distances", feature, rtype))
            else:
                assert new[1:] == old[1:], (what, "error differs", new[1:], old[1:])
        new = outcome(nnana.get_nn_rotations, motl_a, motl_nn, k, feature)
        old = outcome(ORIG["get_nn_rotations"], motl_a, motl_nn, k, feature)
        assert new[0] == old[0], (what, feature, new[0], old[0])
        if new[0] == "ok":
            same_arrays(new[1], old[1], (what, "get_nn_rotations", feature))
        else:
            assert new[1:] == old[1:], (what, "error differs", new[1:], old[1:])
        for rtype in ("angular_distance", "cone_distance", "in_plane_distance"):
            new = outcome(nnana.get_nn_stats, motl_a, motl_nn, pixel_size, feature, k, rtype)
            old = outcome(ORIG["get_nn_stats"], motl_a, motl_nn, pixel_size, feature, k, rtype)
            assert new[0] == old[0], (what, feature, rtype, new[0], old[0])
            if new[0] == "ok":
                pd.testing.assert_frame_equal(new[1], old[1], check_exact=True)
            else:
                assert new[1:] == old[1:], (what, "error differs", new[1:], old[1:])


def run_case(rng, motl_a, motl_nn, k, pixel_size, what, rigid=True):
    keep_a, keep_nn = motl_a.df.copy(deep=True), motl_nn.df.copy(deep=True)
    obj_a, obj_nn = motl_a.df, motl_nn.df

    ref = brute_force(motl_a, motl_nn, k, pixel_size)
    if ref is None:  # no tomogram in common: nothing to report, the original raises from np.vstack([])
        res = outcome(nnana.get_nn_stats, motl_a, motl_nn, pixel_size=pixel_size, nn_number=k)
        assert res[0] == "raised" and res[1] is ValueError, (what, res)
    else:
        tab = nnana.get_nn_stats(motl_a, motl_nn, pixel_size=pixel_size, nn_number=k)
        check_against_brute_force(tab, ref, what)
        ascending_per_particle(tab, what)
        # repeated call on the same objects
        again = nnana.get_nn_stats(motl_a, motl_nn, pixel_size=pixel_size, nn_number=k)
        pd.testing.assert_frame_equal(tab, again, check_exact=True)

        if rigid:
            if motl_a is motl_nn:
                moved_a = moved_nn = move_rigidly(rng, motl_a)
            else:
                # the same motion for both lists: move them as one table, then split again
                both = cryomotl.Motl(motl_df=pd.concat([motl_a.df, motl_nn.df], ignore_index=True))
                moved = move_rigidly(rng, both)
                na = len(motl_a.df)
                moved_a = cryomotl.Motl(motl_df=moved.df.iloc[:na].reset_index(drop=True))
                moved_nn = cryomotl.Motl(motl_df=moved.df.iloc[na:].reset_index(drop=True))
            mtab = nnana.get_nn_stats(moved_a, moved_nn, pixel_size=pixel_size, nn_number=k)
            assert np.array_equal(mtab["subtomo_idx"], tab["subtomo_idx"]), (what, "moved: query ids")
            assert np.array_equal(mtab["subtomo_nn_idx"], tab["subtomo_nn_idx"]), (what, "moved: neighbour ids")
            scale = max(1.0, float(np.abs(tab["distance"]).max()))
            assert np.allclose(mtab["distance"], tab["distance"], rtol=0, atol=1e-8 * scale * 100), (what, "moved: dist")
            assert np.allclose(
                mtab[["coord_rx", "coord_ry", "coord_rz"]], tab[["coord_rx", "coord_ry", "coord_rz"]], rtol=0,
                atol=1e-6 * scale,
            ), (what, "moved: offset in the query frame")
            assert np.allclose(mtab["angular_distance"], tab["angular_distance"], rtol=0, atol=1e-4), (what, "moved: ang")
            assert np.allclose(table_rel(mtab), table_rel(tab), rtol=0, atol=1e-6), (what, "moved: relative orientation")
            assert np.allclose(mtab[["rot_x", "rot_y", "rot_z"]], tab[["rot_x", "rot_y", "rot_z"]], rtol=0, atol=1e-6)

    compare_with_original(motl_a, motl_nn, k, pixel_size, what)

    # the caller's lists are the same objects with the same content
    assert motl_a.df is obj_a and motl_nn.df is obj_nn, (what, "df replaced")
    pd.testing.assert_frame_equal(motl_a.df, keep_a, check_exact=True)
    pd.testing.assert_frame_equal(motl_nn.df, keep_nn, check_exact=True)


def main():
    rng = np.random.default_rng(1808)
    cases = 0

    # hand-made edge cases -------------------------------------------------------------------------------------
    edge = [
        # (sizes of a, sizes of nn)
        ({1: 1}, {1: 1}),  # one particle each
        ({1: 5}, {1: 1}),  # fewer candidates than k
        ({1: 1}, {1: 7}),
        ({2: 6, 5: 1, 9: 12}, {2: 2, 5: 9, 9: 1}),  # number of available neighbours changes from tomogram to tomogram
        ({1: 8, 2: 5, 3: 9}, {1: 6, 3: 4}),  # tomogram 2 has no partner, between two that have one
        ({1: 8, 3: 9}, {1: 6, 2: 7, 3: 4}),  # the other way round
        ({1: 4, 2: 4}, {3: 4, 4: 4}),  # no tomogram in common
        ({1: 4, 2: 30}, {2: 3, 7: 11}),  # partner only for the last one
        ({4: 30, 7: 2}, {4: 3, 1: 11}),  # partner only for the first one (after an unmatched smaller id in nn)
        ({10: 3, 20: 40, 30: 1, 40: 17}, {10: 1, 20: 2, 30: 3, 40: 50}),
    ]
    for sizes_a, sizes_nn in edge:
        for k in (1, 2, 3, 5):
            a = make_motl(rng, sizes_a, id_start=1)
            b = make_motl(rng, sizes_nn, id_start=1000)
            run_case(rng, a, b, k, float(rng.choice([1.0, 0.5, 2.7, 13.48])), ("edge", sizes_a, sizes_nn, k))
            cases += 1

    # coincident lists: the same object, and an equal copy ----------------------------------------------------------
    for sizes in ({1: 1}, {1: 2}, {1: 6, 2: 1, 3: 25}, {3: 50, 8: 50, 9: 50, 11: 50}):
        for k in (1, 2, 4, 5):
            a = make_motl(rng, sizes)
            run_case(rng, a, a, k, 1.5, ("same object", sizes, k))
            twin = cryomotl.Motl(motl_df=a.df.copy())
            run_case(rng, a, twin, k, 0.8, ("equal copy", sizes, k))
            cases += 2

    # no shifts, rows not shuffled -----------------------------------------------------------------------------------
    a = make_motl(rng, {1: 20, 2: 30}, shifts=False, shuffle=False)
    b = make_motl(rng, {1: 25, 2: 10}, id_start=500, shifts=False, shuffle=False)
    run_case(rng, a, b, 3, 1.0, "plain")
    cases += 1

    # random cases ---------------------------------------------------------------------------------------------------
    for trial in range(60):
        n_tomo = int(rng.integers(1, 5))
        tomo_ids = rng.choice(np.arange(1, 12), size=n_tomo, replace=False)

        def sizes(total):
            total = max(total, 1)
            present = [t for t in tomo_ids if rng.random() < 0.8] or [tomo_ids[0]]
            if rng.random() < 0.3:
                present = present + [int(rng.integers(20, 25))]  # a tomogram the other list may not have
            cut = rng.multinomial(total, rng.dirichlet(np.ones(len(present))))
            out = {int(t): int(c) for t, c in zip(present, cut) if c > 0}
            return out or {int(present[0]): 1}

        a = make_motl(rng, sizes(int(rng.integers(1, 201))), id_start=1)
        b = make_motl(rng, sizes(int(rng.integers(1, 201))), id_start=5000)
        k = int(rng.integers(1, 6))
        px = float(rng.choice([1.0, 0.25, 1.7, 3.42, 10.0]))
        run_case(rng, a, b, k, px, ("random", trial))
        cases += 1

    print(f"{cases} cases: brute force, rigid motion, original text, inputs untouched")
    print("PASS")


if __name__ == "__main__":
    main()
