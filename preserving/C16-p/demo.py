"""C16 / c -- ioutils.total_dose_load: tuple, pandas Series and os.PathLike doses accepted after the old kinds.

Checks (1) the property itself against an independent computation (np.fft.fftfreq based, no fftshift, no centred grid),
(2) that the functions in the worktree return bit-identical results to the original texts kept below for every old
kind of dose argument (ndarray returned as the same object, list, str paths to txt / csv / mdoc / xml), (3) that the new
kinds either still raise ValueError (unmodified tree) or give what the equivalent ndarray gives (patched tree).
Run: cd /tmp/wt7/C16 && /venv/bin/python /tmp/seedsT/C16/c/demo.py
"""
import os, sys, io, contextlib, warnings, tempfile

sys.path.insert(0, os.getcwd())
import numpy as np

warnings.filterwarnings("ignore")
np.seterr(all="ignore")

from cryocat import tiltstack, ioutils

# ----------------------------------------------------------------------------------------------------------------------
# original text of the two functions (HEAD 917e6f2), executed in a namespace that shares the module's helpers
ORIG = '''
def dose_filter(tilt_stack, pixel_size, total_dose, output_file=None, input_order="xyz", output_order="xyz"):
    print(f"Dose-filtering started...")

    ts = TiltStack(tilt_stack=tilt_stack, input_order=input_order, output_order=output_order)
    pixel_size = float(pixel_size)
    total_dose = ioutils.total_dose_load(total_dose)

    # Precalculate frequency array
    frequency_array = np.zeros((ts.height, ts.width))
    cen_x = ts.width // 2  # Center for array is half the image size
    cen_y = ts.height // 2  # Center for array is half the image size

    rstep_x = 1 / (ts.width * pixel_size)  # reciprocal pixel size
    rstep_y = 1 / (ts.height * pixel_size)

    # Loop to fill array with frequency values
    for x in range(ts.width):
        for y in range(ts.height):
            d = np.sqrt(((x - cen_x) ** 2 * rstep_x**2) + ((y - cen_y) ** 2 * rstep_y**2))
            frequency_array[y, x] = d

    # Generate filtered stack
    ts.data = np.array(ts.data, copy=True)  # Make ts.data writeable
    for z in range(ts.n_tilts):
        image = ts.data[z, :, :]
        ts.data[z, :, :] = dose_filter_single_image(image, total_dose[z], frequency_array)

    ts.write_out(output_file)

    print(f"...dose-filtering finished.")

    return ts.correct_order()


def dose_filter_single_image(image, dose, freq_array):
    a = 0.245
    b = -1.665
    c = 2.81

    # Calculate Fourier transform
    ft = np.fft.fftshift(np.fft.fft2(image))

    # Calculate exposure-dependent amplitude attenuator
    q = np.exp((-dose) / (2 * ((a * (freq_array**b)) + c)))

    # Attenuate and inverse transform
    filtered_image = np.fft.ifft2(np.fft.ifftshift(ft * q))

    return filtered_image.real
'''
# ----------------------------------------------------------------------------------------------------------------------
# total_dose_load: original text (HEAD 917e6f2) executed with the module's own globals (pd, np, mdoc, helpers)
ORIG_TDL = """
def total_dose_load(input_dose, sort_mdoc=True):
    if isinstance(input_dose, np.ndarray):
        return input_dose
    elif isinstance(input_dose, list):
        return np.asarray(input_dose)
    elif isinstance(input_dose, str):
        if input_dose.endswith(".csv"):
            # load as panda frames
            df = pd.read_csv(input_dose, index_col=0)
            if "CorrectedDose" in df.columns:
                if "Removed" in df.columns:
                    return df.loc[df["Removed"] == False, "CorrectedDose"].astype(np.single).to_numpy()
                else:
                    return df["CorrectedDose"].astype(np.single).to_numpy()
            else:
                raise ValueError(f"The file {input_dose} does not contain column with name CorrectedDose")
        elif input_dose.endswith(".mdoc"):
            # load as mdoc
            mdoc_file = mdoc.Mdoc(input_dose)

            # sort mdoc
            if sort_mdoc:
                mdoc_file.sort_by_tilt(reset_z_value=False)

            # should always exist
            image_dose = mdoc_file.get_image_feature("ExposureDose").values

            # if PriorDose exists - it should be used
            if "PriorRecordDose" in mdoc_file.imgs:
                prior_dose = mdoc_file.get_image_feature("PriorRecordDose").values
                total_dose = image_dose + prior_dose
                return total_dose
            else:
                mdoc_file.imgs["original_order"] = range(len(mdoc_file.imgs))
                mdoc_file.imgs["DateTime"] = pd.to_datetime(mdoc_file.imgs["DateTime"])  # Convert to datetime
                sorted_df = mdoc_file.imgs.sort_values("DateTime")
                sorted_df.reset_index(drop=True, inplace=True)
                sorted_df["total_dose"] = sorted_df["ExposureDose"] * (sorted_df.index + 1)
                result_df = sorted_df.sort_values("original_order").drop(columns=["original_order"])
                return result_df["total_dose"].values

        elif input_dose.endswith(".xml"):
            total_dose = get_data_from_warp_xml(input_dose, "Dose", node_level=1)
            return total_dose
        else:
            total_dose = one_value_per_line_read(input_dose)
            return total_dose
    else:
        raise ValueError("Error: the dose has to be either ndarray or str with valid path!")
"""
import pathlib
import pandas as pd

ns_io = dict(vars(ioutils))
exec(ORIG_TDL, ns_io)
orig_tdl = ns_io["total_dose_load"]


class _OrigIoutils:  # what the original dose_filter sees as `ioutils`: the original loader
    total_dose_load = staticmethod(orig_tdl)


ns = {"np": np, "ioutils": _OrigIoutils, "TiltStack": tiltstack.TiltStack}
exec(ORIG, ns)
orig_dose_filter = ns["dose_filter"]
orig_single = ns["dose_filter_single_image"]


def quiet(f, *a, **k):
    with contextlib.redirect_stdout(io.StringIO()):
        return f(*a, **k)


# ----------------------------------------------------------------------------------------------------------------------
# independent reference: frequencies from fftfreq (cycles / Angstrom), zero frequency untouched
def ref_attenuation(h, w, pixel_size, dose):
    fy = np.fft.fftfreq(h, d=pixel_size)[:, None]
    fx = np.fft.fftfreq(w, d=pixel_size)[None, :]
    f = np.sqrt(fx * fx + fy * fy)
    q = np.ones((h, w))
    nz = f > 0
    q[nz] = np.exp(-float(dose) / (2.0 * (0.245 * f[nz] ** (-1.665) + 2.81)))
    return q


def ref_filter(stack_zyx, pixel_size, doses):
    out = np.empty(stack_zyx.shape, dtype=float)
    for i in range(stack_zyx.shape[0]):
        q = ref_attenuation(stack_zyx.shape[1], stack_zyx.shape[2], pixel_size, doses[i])
        out[i] = np.fft.ifft2(np.fft.fft2(stack_zyx[i].astype(float)) * q).real
    return out


fails = []


def check(cond, msg):
    if not cond:
        fails.append(msg)
        if len(fails) < 20:
            print("FAIL:", msg)


def plane_wave(h, w, ky, kx, phase=0.3):
    yy, xx = np.mgrid[0:h, 0:w]
    return np.cos(2 * np.pi * (ky * yy / h + kx * xx / w) + phase)


rng = np.random.default_rng(160016)
sizes = [(4, 4), (4, 5), (5, 4), (5, 5), (7, 64), (64, 7), (64, 64), (63, 63), (32, 17), (9, 16), (1 + 3, 64)]
for _ in range(25):
    sizes.append((int(rng.integers(4, 65)), int(rng.integers(4, 65))))

n_cases = 0
for case, (h, w) in enumerate(sizes):
    n = int(rng.integers(1, 11)) if case % 5 else (1 if case % 10 else 10)
    ps = float(rng.uniform(0.5, 10.0)) if case % 4 else [0.5, 10.0, 1.0, 1.327][(case // 4) % 4]
    doses = rng.uniform(0.0, 300.0, n)
    rng.shuffle(doses)
    if case % 3 == 0:
        doses[0] = 0.0
    if case % 6 == 1:
        doses[-1] = 300.0
    if case % 7 == 2:
        doses = np.round(doses).astype(int)  # integer doses
    if case % 7 == 3:
        doses = doses.astype(np.float32)
    stack = rng.normal(3.0, 2.0, (n, h, w))  # z, y, x
    if case % 4 == 1:  # pure plane waves
        for i in range(n):
            stack[i] = plane_wave(h, w, int(rng.integers(0, h)), int(rng.integers(0, w)))
    if case % 9 == 4:
        stack[0] = 0.0
    if case % 9 == 5:
        stack[-1] = -7.25  # constant negative image

    dose_arg = doses if case % 2 else list(doses)

    # zyx in / zyx out
    out = quiet(tiltstack.dose_filter, stack, ps, dose_arg, input_order="zyx", output_order="zyx")
    old = quiet(orig_dose_filter, stack, ps, dose_arg, input_order="zyx", output_order="zyx")
    check(out.shape == old.shape and out.dtype == old.dtype, f"case {case}: shape/dtype differ from original")
    check(np.array_equal(out, old), f"case {case}: not bit-identical to original, max {np.abs(out - old).max()}")
    ref = ref_filter(stack, ps, doses)
    scale = max(1.0, np.abs(stack).max())
    check(np.allclose(out, ref, rtol=0, atol=1e-10 * scale), f"case {case}: formula violated {np.abs(out - ref).max()}")

    # DFT against the input's, every frequency of every image
    for i in range(n):
        F_in = np.fft.fft2(stack[i])
        F_out = np.fft.fft2(out[i])
        q = ref_attenuation(h, w, ps, doses[i])
        check(np.allclose(F_out, F_in * q, rtol=0, atol=1e-9 * scale * h * w), f"case {case} img {i}: DFT ratio")
        check(abs(F_out[0, 0] - F_in[0, 0]) <= 1e-9 * scale * h * w, f"case {case} img {i}: DC changed")
        check(abs(out[i].mean() - stack[i].mean()) <= 1e-10 * scale, f"case {case} img {i}: mean changed")
        check(np.all(np.abs(F_out) <= np.abs(F_in) + 1e-9 * scale * h * w), f"case {case} img {i}: power increased")
        if float(doses[i]) == 0.0:
            check(np.allclose(out[i], stack[i], rtol=0, atol=1e-12 * scale), f"case {case} img {i}: zero dose")

    # xyz in / xyz out (default orders): same thing seen through the transposition
    sx = np.ascontiguousarray(stack.transpose(2, 1, 0))
    out_x = quiet(tiltstack.dose_filter, sx, ps, dose_arg)
    old_x = quiet(orig_dose_filter, sx, ps, dose_arg)
    check(out_x.shape == (w, h, n), f"case {case}: xyz shape {out_x.shape}")
    check(np.array_equal(out_x, old_x), f"case {case}: xyz not identical to original")
    check(np.array_equal(out_x.transpose(2, 1, 0), out), f"case {case}: xyz != zyx result")

    # mixed orders
    out_m = quiet(tiltstack.dose_filter, sx, ps, dose_arg, input_order="xyz", output_order="zyx")
    check(np.array_equal(out_m, out), f"case {case}: xyz->zyx")

    # linearity, composition, monotonicity (first three cases of each parity are enough for speed)
    if case < 20:
        other = rng.normal(0, 1, stack.shape)
        lin = quiet(tiltstack.dose_filter, 2.5 * stack - 0.75 * other, ps, doses, input_order="zyx", output_order="zyx")
        o2 = quiet(tiltstack.dose_filter, other, ps, doses, input_order="zyx", output_order="zyx")
        check(np.allclose(lin, 2.5 * out - 0.75 * o2, rtol=0, atol=1e-9 * scale), f"case {case}: linearity")
        d2 = rng.uniform(0, 150, n)
        d1 = np.asarray(doses, dtype=float) / 2
        once = quiet(tiltstack.dose_filter, stack, ps, d1 + d2, input_order="zyx", output_order="zyx")
        first = quiet(tiltstack.dose_filter, stack, ps, d1, input_order="zyx", output_order="zyx")
        twice = quiet(tiltstack.dose_filter, first, ps, d2, input_order="zyx", output_order="zyx")
        check(np.allclose(once, twice, rtol=0, atol=1e-9 * scale), f"case {case}: composition")
        more = quiet(tiltstack.dose_filter, stack, ps, d1 + d2 + 5.0, input_order="zyx", output_order="zyx")
        for i in range(n):
            A1 = np.abs(np.fft.fft2(once[i]))
            A2 = np.abs(np.fft.fft2(more[i]))
            check(np.all(A2 <= A1 + 1e-9 * scale * h * w), f"case {case} img {i}: more dose attenuates more")

    # input not modified, repeated call gives the same
    again = quiet(tiltstack.dose_filter, stack, ps, dose_arg, input_order="zyx", output_order="zyx")
    check(np.array_equal(again, out), f"case {case}: repeated call differs")

    # other element types: only the comparison with the original (the cast back to the input type is the original's)
    for dt in (np.float32, np.int16):
        st = (stack * 10).astype(dt)
        o_new = quiet(tiltstack.dose_filter, st, ps, dose_arg, input_order="zyx", output_order="zyx")
        o_old = quiet(orig_dose_filter, st, ps, dose_arg, input_order="zyx", output_order="zyx")
        check(o_new.dtype == o_old.dtype and np.array_equal(o_new, o_old), f"case {case}: dtype {dt} differs")
        if dt is np.float32:
            r = ref_filter(st, ps, doses)
            check(np.allclose(o_new, r, rtol=0, atol=2e-5 * max(1.0, np.abs(st).max())), f"case {case}: float32 formula")
    n_cases += 1

# pure plane waves: amplitude ratio at exactly one frequency, all (ky, kx) of a small odd x even image
h, w, ps = 7, 6, 2.0
for ky in range(h):
    for kx in range(w):
        img = plane_wave(h, w, ky, kx)[None]
        for dose in (0.0, 1.0, 37.5, 300.0):
            out = quiet(tiltstack.dose_filter, img, ps, np.array([dose]), input_order="zyx", output_order="zyx")
            q = ref_attenuation(h, w, ps, dose)[ky, kx]
            check(np.allclose(out[0], q * img[0], rtol=0, atol=1e-12), f"plane wave ({ky},{kx}) dose {dose}")
            check(np.array_equal(out, quiet(orig_dose_filter, img, ps, np.array([dose]), input_order="zyx", output_order="zyx")), "pw orig")

# doses from a text file and through an .mrc file on disk (reader / writer route), compared with the original
with tempfile.TemporaryDirectory() as td:
    stack = rng.normal(0, 1, (5, 12, 9)).astype(np.float32)
    doses = np.array([30.0, 10.0, 0.0, 20.0, 40.0])
    fn = os.path.join(td, "dose.txt")
    np.savetxt(fn, doses, fmt="%.6f")
    o1 = quiet(tiltstack.dose_filter, stack, 1.7, fn, input_order="zyx", output_order="zyx")
    o2 = quiet(orig_dose_filter, stack, 1.7, fn, input_order="zyx", output_order="zyx")
    check(np.array_equal(o1, o2), "dose from txt file differs from original")
    check(np.allclose(o1, ref_filter(stack, 1.7, doses), rtol=0, atol=2e-5), "dose from txt file: formula")
    mrc_out = os.path.join(td, "out.mrc")
    o3 = quiet(tiltstack.dose_filter, stack, 1.7, doses, output_file=mrc_out, input_order="zyx", output_order="zyx")
    o4 = quiet(tiltstack.dose_filter, mrc_out, 1.7, np.zeros(5), output_order="zyx")
    check(np.allclose(o4, o3, rtol=0, atol=1e-5), "written stack read back and filtered with zero dose")
    o5 = quiet(orig_dose_filter, mrc_out, 1.7, doses, output_order="zyx")
    o6 = quiet(tiltstack.dose_filter, mrc_out, 1.7, doses, output_order="zyx")
    check(np.array_equal(o5, o6), "file input differs from original")

# single image function on its own (centred grid as dose_filter builds it, and the un-centred one the test-suite uses)
for (h, w) in [(4, 4), (5, 8), (8, 5), (33, 33), (64, 10)]:
    img = rng.normal(0, 1, (h, w))
    yy, xx = np.mgrid[0:h, 0:w]
    fc = np.sqrt(((xx - w // 2) / (w * 1.3)) ** 2 + ((yy - h // 2) / (h * 1.3)) ** 2)
    fu = np.sqrt(np.fft.fftfreq(w, 1.3)[None, :] ** 2 + np.fft.fftfreq(h, 1.3)[:, None] ** 2)
    for fa in (fc, fu, rng.uniform(0.01, 1, (h, w))):
        for dose in (0.0, 12.5, np.float32(80.0), 300):
            r1 = tiltstack.dose_filter_single_image(img, dose, fa)
            r2 = orig_single(img, dose, fa)
            check(r1.dtype == r2.dtype and np.array_equal(r1, r2), f"single image {h}x{w} dose {dose}")
    check(np.allclose(tiltstack.dose_filter_single_image(img, 20.0, fc),
                      np.fft.ifft2(np.fft.fft2(img) * ref_attenuation(h, w, 1.3, 20.0)).real, rtol=0, atol=1e-12),
          f"single image formula {h}x{w}")



def same_result(a, b):
    if not (type(a) is type(b) and a.dtype == b.dtype and a.shape == b.shape):
        return False
    if a.dtype.kind == "f":
        return np.array_equal(a, b, equal_nan=True)
    return all(type(x) is type(y) and x == y for x, y in zip(a.ravel().tolist(), b.ravel().tolist()))  # object / int


def outcome(f, *a, **k):
    try:
        return ("ok", f(*a, **k))
    except Exception as e:  # noqa
        return ("err", type(e))


# old kinds: ndarray (same object back, any dtype / shape / emptiness), list
for arr in (np.array([3.0, 1.0, 2.0]), np.array([5, 0, 300]), np.array([], dtype=float), np.array([7.5], dtype=np.float32),
            np.array([[1.0, 2.0]]), np.array([np.nan, 1.0]), np.array([2, 1], dtype=np.uint8)):
    check(ioutils.total_dose_load(arr) is arr, f"ndarray not returned as is: {arr!r}")
    check(orig_tdl(arr) is arr, "orig ndarray")
for lst in ([3.0, 1.0, 2.0], [5, 0, 300], [], [7.5], [1, 2.5], [np.float32(1.5), np.float32(0.0)], [2.0, 2.0, 1.0, 2.0]):
    check(same_result(ioutils.total_dose_load(lst), orig_tdl(lst)), f"list {lst}")

# old kinds: files
td_root = os.path.join(os.getcwd(), "tests", "test_data", "TS_018")
with tempfile.TemporaryDirectory() as td:
    files = []
    vals = np.array([30.25, 10.5, 0.0, 20.125, 40.0, 10.5])
    fn = os.path.join(td, "dose.txt"); np.savetxt(fn, vals, fmt="%.6f"); files.append(fn)
    fn = os.path.join(td, "dose_noext"); np.savetxt(fn, vals[::-1], fmt="%.3f"); files.append(fn)
    fn = os.path.join(td, "one.txt"); np.savetxt(fn, vals[:1], fmt="%.3f"); files.append(fn)
    fn = os.path.join(td, "d1.csv")
    pd.DataFrame({"CorrectedDose": vals, "Removed": [False, True, False, False, True, False]}, index=[5, 4, 3, 2, 1, 0]).to_csv(fn)
    files.append(fn)
    fn = os.path.join(td, "d2.csv"); pd.DataFrame({"CorrectedDose": vals, "Other": vals * 2}).to_csv(fn); files.append(fn)
    fn = os.path.join(td, "d3.csv"); pd.DataFrame({"Dose": vals}).to_csv(fn); files.append(fn)  # no CorrectedDose: error
    files.append(os.path.join(td, "missing.txt"))  # error
    fn = os.path.join(td, "empty.txt"); open(fn, "w").close(); files.append(fn)  # error
    for name in ("018.mdoc", "018.xml", "018_corrected_dose.txt"):
        p = os.path.join(td_root, name)
        if os.path.isfile(p):
            files.append(p)
    n_files = 0
    for fn in files:
        for kw in ({}, {"sort_mdoc": False}, {"sort_mdoc": True}):
            r_new = outcome(quiet, ioutils.total_dose_load, fn, **kw)
            r_old = outcome(quiet, orig_tdl, fn, **kw)
            if r_old[0] == "err":
                check(r_new == r_old, f"{fn}: error kind changed {r_new} vs {r_old}")
            else:
                check(r_new[0] == "ok" and same_result(r_new[1], r_old[1]), f"{fn} {kw}: result differs from original")
        # positional second argument as well
        r_new = outcome(quiet, ioutils.total_dose_load, fn, False)
        r_old = outcome(quiet, orig_tdl, fn, False)
        check(r_new[0] == r_old[0] and (r_new[0] == "err" or same_result(r_new[1], r_old[1])), f"{fn}: positional")
        n_files += 1

        # new kind: the same file given as pathlib.Path -- ValueError as before, or the result of the str path
        r_path = outcome(quiet, ioutils.total_dose_load, pathlib.Path(fn))
        r_str = outcome(quiet, ioutils.total_dose_load, fn)
        if not (r_path[0] == "err" and r_path[1] is ValueError):
            check(r_path[0] == r_str[0] and (r_str[0] == "err" and r_path == r_str or same_result(r_path[1], r_str[1])),
                  f"{fn}: Path result differs from str result")
    print(f"{n_files} dose files compared with the original reader")

    # an mdoc through dose_filter (old str route): identical to the original functions
    p = os.path.join(td_root, "018.mdoc")
    if os.path.isfile(p):
        d = quiet(orig_tdl, p)
        st = rng.normal(0, 1, (len(d), 10, 13))
        o_new = quiet(tiltstack.dose_filter, st, 2.1, p, input_order="zyx", output_order="zyx")
        check(np.allclose(o_new, ref_filter(st, 2.1, d), rtol=0, atol=1e-9), "mdoc doses: formula")
        check(np.array_equal(o_new, quiet(orig_dose_filter, st, 2.1, p, input_order="zyx", output_order="zyx")), "mdoc doses: orig")

# new kinds through dose_filter: still ValueError (unmodified tree) or the property with the doses paired by position
new_kinds_accepted = 0
for trial in range(12):
    n = [1, 2, 3, 10][trial % 4]
    h, w = int(rng.integers(4, 20)), int(rng.integers(4, 20))
    st = rng.normal(1.0, 1.0, (n, h, w))
    doses = rng.uniform(0, 300, n)
    if trial % 3 == 0:
        doses[0] = 0.0
    if trial % 5 == 1:
        doses[:] = doses[0]  # repeated values must stay repeated
    label_sets = [None, list(range(n))[::-1], [10 * i + 3 for i in range(n)], ["t%d" % i for i in range(n)], [0] * n]
    variants = [("tuple", tuple(doses)), ("tuple-of-python-floats", tuple(float(x) for x in doses)),
                ("tuple-int", tuple(int(x) for x in doses))]
    for lab in label_sets:
        variants.append((f"Series index={lab}", pd.Series(doses, index=lab)))
    variants.append(("Series float32", pd.Series(doses.astype(np.float32))))
    variants.append(("Series from a frame column", pd.DataFrame({"d": doses, "k": -doses}, index=label_sets[2])["d"]))
    for name, arg in variants:
        exp_doses = np.asarray([int(x) for x in doses]) if name == "tuple-int" else (
            doses.astype(np.float32) if name == "Series float32" else doses)
        r = outcome(quiet, tiltstack.dose_filter, st, 1.9, arg, input_order="zyx", output_order="zyx")
        if r[0] == "err":
            check(r[1] is ValueError, f"{name}: unexpected error {r[1]}")
            continue
        new_kinds_accepted += 1
        as_array = quiet(tiltstack.dose_filter, st, 1.9, exp_doses, input_order="zyx", output_order="zyx")
        check(np.array_equal(r[1], as_array), f"{name}: differs from the ndarray route")
        check(np.allclose(r[1], ref_filter(st, 1.9, exp_doses), rtol=0, atol=1e-9 * np.abs(st).max()), f"{name}: formula")
        loaded = ioutils.total_dose_load(arg)
        check(isinstance(loaded, np.ndarray) and loaded.shape == (n,) and np.array_equal(loaded, exp_doses), f"{name}: loaded values / order")
        if isinstance(arg, pd.Series):
            check(loaded.dtype == arg.dtype, f"{name}: dtype changed")
print(f"new dose kinds accepted in {new_kinds_accepted} calls" + (" (unmodified tree: all raise ValueError)" if not new_kinds_accepted else ""))

# still rejected: anything that is none of the kinds
for bad in (None, 5.0, 7, {"a": 1.0}, b"dose.txt", {1.0, 2.0}, np.float64(3.0)):
    r = outcome(ioutils.total_dose_load, bad)
    check(r == ("err", ValueError), f"{bad!r}: expected ValueError, got {r}")
    check(outcome(orig_tdl, bad) == ("err", ValueError), "orig rejects")

print(f"{n_cases} stacks checked")
if fails:
    print(f"FAILED ({len(fails)} checks)")
    sys.exit(1)
print("PASS")
