import sys, os

sys.path.insert(0, os.getcwd())

import inspect
import struct
import tempfile
import warnings
from pathlib import Path

import emfile
import numpy as np
import pandas as pd

warnings.filterwarnings("ignore")

from cryocat import cryomotl
from cryocat.cryomotl import Motl, EmMotl
from cryocat.exceptions import UserInputError

# canonical field order, written down independently of the library
FIELDS = ["score", "geom1", "geom2", "subtomo_id", "tomo_id", "object_id", "subtomo_mean", "x", "y", "z",
          "shift_x", "shift_y", "shift_z", "geom3", "geom4", "geom5", "phi", "psi", "theta", "class"]
assert len(FIELDS) == 20 and list(Motl.motl_columns) == FIELDS

F32MAX = float(np.finfo(np.float32).max)
failures = []


def check(cond, msg):
    if not cond:
        failures.append(msg)
        if len(failures) < 15:
            print("FAIL:", msg)


# ---------------------------------------------------------------- independent EM parser
def parse_em(path):
    raw = Path(path).read_bytes()
    machine, version, unused, dtype = struct.unpack("<4b", raw[:4])
    xdim, ydim, zdim = struct.unpack("<3i", raw[4:16])
    body = raw[512:]
    return dict(machine=machine, dtype=dtype, dims=(xdim, ydim, zdim), size=len(raw)), body


def expected_body(values):
    """values: dict field -> list of float64 (NaN = hole).  Bytes of the float32 table in canonical field order."""
    n = len(values[FIELDS[0]])
    out = bytearray()
    for i in range(n):
        for f in FIELDS:
            v = values[f][i]
            if v != v:
                v = 0.0
            out += np.float32(v).tobytes()
    return bytes(out), n


def expected_df(values):
    n = len(values[FIELDS[0]])
    data = {}
    for f in FIELDS:
        col = []
        for i in range(n):
            v = values[f][i]
            col.append(0.0 if v != v else float(np.float32(v)))
        data[f] = col
    return pd.DataFrame(data, columns=FIELDS, dtype=float)


# ---------------------------------------------------------------- original function texts (reference copies)
def orig_check_df_correct_format(input_df):
    if sorted(Motl.motl_columns) == sorted(input_df.columns):
        return True
    else:
        return False


def orig_read_in(emfile_path):
    if not os.path.isfile(emfile_path):
        raise UserInputError(f"Provided file {emfile_path} does not exist.")

    header, parsed_emfile = emfile.read(emfile_path)
    if not len(parsed_emfile[0][0]) == 20:
        raise UserInputError(
            f"Provided file contains {len(parsed_emfile[0][0])} columns, while 20 columns are expected."
        )

    motl_df = pd.DataFrame(data=parsed_emfile[0], dtype=float, columns=Motl.motl_columns)

    return motl_df, header


def orig_write_out(self_df, output_path):
    filled_df = self_df[Motl.motl_columns].fillna(0.0)
    motl_array = filled_df.to_numpy()
    motl_array = motl_array.reshape((1, motl_array.shape[0], motl_array.shape[1])).astype(np.single)
    emfile.write(output_path, motl_array, {}, overwrite=True)


# ---------------------------------------------------------------- input generation
rng = np.random.default_rng(20260928)


def random_values(n, holes=True):
    values = {}
    for f in FIELDS:
        kind = rng.integers(0, 6)
        if kind == 0:
            col = rng.integers(-1000, 1000, n).astype(float)
        elif kind == 1:
            col = rng.normal(0, 1, n) * 10.0 ** rng.integers(-30, 30, n)
        elif kind == 2:
            col = rng.uniform(-360, 360, n)
        elif kind == 3:
            col = rng.choice([0.0, -0.0, F32MAX, -F32MAX, 1e-45, 1e-40, 16777217.0, 0.1, 1 / 3, 2.0 ** 24 + 1], n)
        elif kind == 4:
            col = rng.uniform(-1, 1, n) * F32MAX
        else:
            col = np.arange(1, n + 1, dtype=float) * (1 + 1e-9)
        col = np.asarray(col, dtype=np.float64)
        if holes:
            mask = rng.random(n) < 0.15
            col = np.where(mask, np.nan, col)
        values[f] = [float(v) for v in col]
    return values


def permutations():
    yield list(FIELDS)
    yield list(reversed(FIELDS))
    yield sorted(FIELDS)
    yield FIELDS[1:] + FIELDS[:1]
    yield FIELDS[10:] + FIELDS[:10]
    for _ in range(6):
        yield [FIELDS[i] for i in rng.permutation(20)]


def build_df(values, order, index_kind):
    df = pd.DataFrame({f: np.array(values[f], dtype=np.float64) for f in order})
    assert list(df.columns) == order
    n = df.shape[0]
    if index_kind == 1:
        df.index = np.arange(n)[::-1] + 100
    elif index_kind == 2:
        df.index = [f"p{i}" for i in range(n)]
    return df


# ---------------------------------------------------------------- the property
def verify_file(path, values, tag):
    body_exp, n = expected_body(values)
    hdr, body = parse_em(path)
    check(hdr["machine"] == 6, f"{tag}: machine code {hdr['machine']}")
    check(hdr["dtype"] == 5, f"{tag}: dtype code {hdr['dtype']} (not float32)")
    check(hdr["dims"] == (20, n, 1), f"{tag}: dims {hdr['dims']} != (20,{n},1)")
    check(hdr["size"] == 512 + 80 * n, f"{tag}: file size {hdr['size']}")
    check(body == body_exp, f"{tag}: data bytes differ from independent float32 table")
    # reference copy of the original reader agrees with the library reader
    ref_df, _ = orig_read_in(path)
    exp_df = expected_df(values)
    for loader_name, loaded in (
        ("Motl.load", Motl.load(path).df),
        ("Motl.load(type)", Motl.load(str(path), "emmotl").df),
        ("EmMotl(path)", EmMotl(Path(path)).df),
        ("EmMotl.read_in", EmMotl.read_in(path)[0]),
    ):
        check(list(loaded.columns) == FIELDS, f"{tag}/{loader_name}: column order")
        check(loaded.shape == (n, 20), f"{tag}/{loader_name}: shape {loaded.shape}")
        check(list(loaded.index) == list(range(n)), f"{tag}/{loader_name}: index")
        check(all(str(t) == "float64" for t in loaded.dtypes), f"{tag}/{loader_name}: dtypes")
        check(np.array_equal(loaded.to_numpy(), exp_df.to_numpy()), f"{tag}/{loader_name}: values")
        check(np.array_equal(np.signbit(loaded.to_numpy()), np.signbit(exp_df.to_numpy())), f"{tag}/{loader_name}: signs")
        check(loaded.equals(ref_df), f"{tag}/{loader_name}: differs from original read_in")


def run_case(tmp, values, order, index_kind, case_id):
    n = len(values[FIELDS[0]])
    df = build_df(values, order, index_kind)
    df_before = df.copy(deep=True)
    check(Motl.check_df_correct_format(df) is True, f"{case_id}: check_df_correct_format not True")
    check(Motl.check_df_correct_format(df) == orig_check_df_correct_format(df), f"{case_id}: format check differs")

    p_ref = os.path.join(tmp, "ref.em")
    orig_write_out(df, p_ref)
    ref_bytes = Path(p_ref).read_bytes()

    # path 1: generic Motl built from the table, dispatching writer
    m = Motl(df)
    p1 = os.path.join(tmp, "m1.em")
    m.write_out(p1, "emmotl")
    verify_file(p1, values, f"{case_id}/Motl.write_out")
    check(Path(p1).read_bytes() == ref_bytes, f"{case_id}: Motl.write_out bytes differ from original writer")
    check(list(m.df.columns) == order, f"{case_id}: Motl.write_out reordered the caller's table")
    check(m.df.equals(df_before) and df.equals(df_before), f"{case_id}: Motl.write_out edited the table")
    # default type, upper case type, Path target, second call on the same object over the existing file
    m.write_out(Path(p1))
    check(Path(p1).read_bytes() == ref_bytes, f"{case_id}: second Motl.write_out differs")
    m.write_out(p1, motl_type="EMMOTL")
    check(Path(p1).read_bytes() == ref_bytes, f"{case_id}: third Motl.write_out differs")

    # path 2: EmMotl built from the table
    e = EmMotl(df)
    p2 = os.path.join(tmp, "e2.em")
    e.write_out(p2)
    verify_file(p2, values, f"{case_id}/EmMotl.write_out")
    check(Path(p2).read_bytes() == ref_bytes, f"{case_id}: EmMotl.write_out bytes differ from original writer")
    e.write_out(p2)
    check(Path(p2).read_bytes() == ref_bytes, f"{case_id}: second EmMotl.write_out differs")
    check(df.equals(df_before), f"{case_id}: EmMotl edited the caller's table")

    # path 3: Motl.load on the table / copy constructors
    p3 = os.path.join(tmp, "l3.em")
    Motl.load(df).write_out(p3)
    check(Path(p3).read_bytes() == ref_bytes, f"{case_id}: Motl.load(df).write_out differs")
    EmMotl(e).write_out(p3)
    check(Path(p3).read_bytes() == ref_bytes, f"{case_id}: EmMotl(EmMotl).write_out differs")
    Motl.load(m).write_out(p3, "emmotl")
    check(Path(p3).read_bytes() == ref_bytes, f"{case_id}: Motl.load(Motl).write_out differs")

    # path 4: round trip of a round trip (loaded -> write) is a fixed point
    p4 = os.path.join(tmp, "r4.em")
    Motl.load(p1).write_out(p4)
    check(Path(p4).read_bytes() == ref_bytes, f"{case_id}: second generation file differs")

    # in-place edits on the same objects, then write again (2nd / 3rd call on edited objects)
    values2 = {f: list(values[f]) for f in FIELDS}
    r = int(rng.integers(0, n))
    values2["x"][r] = 123.456789
    values2["class"][r] = float("nan")
    values2["score"][n - 1] = -F32MAX
    for obj in (m, e):
        obj.df.iloc[r, obj.df.columns.get_loc("x")] = 123.456789
        obj.df.iloc[r, obj.df.columns.get_loc("class")] = np.nan
        obj.df.iloc[n - 1, obj.df.columns.get_loc("score")] = -F32MAX
    m.write_out(p1, "emmotl")
    e.write_out(p2)
    verify_file(p1, values2, f"{case_id}/edited Motl")
    verify_file(p2, values2, f"{case_id}/edited EmMotl")
    # table replaced by another permutation of itself, and rows appended
    new_order = [order[i] for i in rng.permutation(20)]
    m.df = m.df[new_order]
    e.df = e.df[new_order]
    m.write_out(p1)
    e.write_out(p2)
    verify_file(p1, values2, f"{case_id}/repermuted Motl")
    verify_file(p2, values2, f"{case_id}/repermuted EmMotl")
    extra = random_values(2)
    values3 = {f: values2[f] + extra[f] for f in FIELDS}
    add = pd.DataFrame({f: np.array(extra[f], dtype=np.float64) for f in reversed(new_order)})
    m.df = pd.concat([m.df, add], ignore_index=True)
    e.df = pd.concat([e.df, add], ignore_index=True)
    e.write_out(p2)
    m.write_out(p1)
    verify_file(p1, values3, f"{case_id}/grown Motl")
    verify_file(p2, values3, f"{case_id}/grown EmMotl")
    orig_write_out(m.df, p_ref)
    check(Path(p1).read_bytes() == Path(p_ref).read_bytes(), f"{case_id}: grown table differs from original writer")


def change_specific(tmp):
    """Interface checks that hold on the unmodified tree and with the patch."""
    values = random_values(5)
    df = build_df(values, list(reversed(FIELDS)), 0)
    p = os.path.join(tmp, "kw.em")
    # keyword forms that exist on both trees
    Motl(motl_df=df).write_out(output_path=p, motl_type="emmotl")
    verify_file(p, values, "kw/Motl.write_out")
    EmMotl(input_motl=df).write_out(output_path=p)
    verify_file(p, values, "kw/EmMotl.write_out")
    loaded = Motl.load(input_motl=p, motl_type="emmotl")
    check(isinstance(loaded, EmMotl), "kw: Motl.load type")
    check(loaded.df.equals(expected_df(values)), "kw: Motl.load values")
    # the writer overwrites an existing file by default (second call above already did); explicit check
    Path(p).write_bytes(b"junk")
    EmMotl(df).write_out(p)
    verify_file(p, values, "kw/overwrite junk")
    # reader: the single parameter is positional on both trees; missing file and wrong width raise
    try:
        EmMotl.read_in(os.path.join(tmp, "nope.em"))
        check(False, "read_in: missing file did not raise")
    except UserInputError:
        pass
    p19 = os.path.join(tmp, "w19.em")
    emfile.write(p19, np.zeros((1, 3, 19), dtype=np.float32), {}, overwrite=True)
    try:
        EmMotl.read_in(p19)
        check(False, "read_in: 19 columns did not raise")
    except UserInputError:
        pass
    sig_r = inspect.signature(EmMotl.read_in)
    check(len(sig_r.parameters) == 1, "read_in: number of parameters")
    sig_w = inspect.signature(EmMotl.write_out)
    names = list(sig_w.parameters)
    check(names[:2] == ["self", "output_path"], "write_out: leading parameters")
    # any further parameter must be optional (keeps one-argument calls working)
    for nm in names[2:]:
        check(sig_w.parameters[nm].default is not inspect.Parameter.empty, f"write_out: {nm} has no default")
    if "overwrite" in sig_w.parameters:
        check(sig_w.parameters["overwrite"].default is True, "write_out: overwrite default")
        check(sig_w.parameters["overwrite"].kind is inspect.Parameter.KEYWORD_ONLY, "write_out: overwrite keyword-only")
        EmMotl(df).write_out(p, overwrite=True)
        verify_file(p, values, "kw/overwrite=True")
    # private conversion helpers, when the tree has them: pure, same block as the independent computation
    if hasattr(EmMotl, "_df_to_em_volume"):
        for n in (1, 2, 9):
            vals = random_values(n)
            for order in permutations():
                t = build_df(vals, order, 1)
                t0 = t.copy(deep=True)
                vol = EmMotl._df_to_em_volume(t)
                body_exp, _ = expected_body(vals)
                check(vol.shape == (1, n, 20) and vol.dtype == np.float32, "helper: block shape/dtype")
                check(np.asarray(vol).tobytes() == body_exp, "helper: block bytes")
                check(t.equals(t0) and list(t.columns) == order, "helper: edited its input")
                back = EmMotl._em_volume_to_df(vol)
                check(back.equals(expected_df(vals)), "helper: block -> table")
                vol2 = EmMotl._df_to_em_volume(t)
                check(vol2 is not vol and np.array_equal(vol2, vol, equal_nan=True), "helper: second call")
        try:
            EmMotl._em_volume_to_df(np.zeros((1, 2, 21), dtype=np.float32))
            check(False, "helper: 21 columns did not raise")
        except UserInputError:
            pass
    # wrong tables are still rejected
    bad = df.drop(columns=["x"])
    check(Motl.check_df_correct_format(bad) is False, "format: 19 columns accepted")
    bad2 = df.rename(columns={"x": "X"})
    check(Motl.check_df_correct_format(bad2) is False, "format: renamed column accepted")
    for b in (bad, bad2):
        try:
            EmMotl(b)
            check(False, "EmMotl accepted a wrong table")
        except ValueError:
            pass


def main():
    with tempfile.TemporaryDirectory() as tmp:
        case = 0
        sizes = [1, 1, 2, 3, 7, 31, 200]
        for order in permutations():
            for n in sizes:
                values = random_values(n, holes=(case % 5 != 0))
                run_case(tmp, values, order, case % 3, f"case{case}(n={n})")
                case += 1
        # all-hole table, single particle
        values = {f: [float("nan")] for f in FIELDS}
        run_case(tmp, values, sorted(FIELDS), 0, "all-nan")
        change_specific(tmp)
    if failures:
        print(f"FAIL ({len(failures)} failed checks)")
        sys.exit(1)
    print(f"PASS ({case + 1} tables x 3 writer paths x 4 reader paths, edited/re-permuted/grown objects)")


if __name__ == "__main__":
    main()
