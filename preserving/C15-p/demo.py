import os, sys

sys.path.insert(0, os.getcwd())

import contextlib, io, itertools, tempfile, textwrap, warnings

warnings.filterwarnings("ignore")
import numpy as np
import mrcfile

from cryocat import tiltstack, ioutils

# ----------------------------------------------------------------------------------------------------------------
# Property C15: tilt-stack operations are lossless selections / permutations of tilt images, independent of
# the axis order of input / output and of array-vs-file input; the written file holds the result.
# The reference below never touches cryocat: canonical layout is A[n, y, x]; an "xyz" array is A.transpose(2,1,0);
# files are written / read with mrcfile directly.
# ----------------------------------------------------------------------------------------------------------------

FAILS = []
N_CHECKS = [0]
TMP = tempfile.mkdtemp(prefix="c15demo_")


def quiet(fn, *args, **kwargs):
    with contextlib.redirect_stdout(io.StringIO()):
        return fn(*args, **kwargs)


def check(cond, msg):
    N_CHECKS[0] += 1
    if not cond:
        FAILS.append(msg)
        if len(FAILS) <= 15:
            print("FAIL:", msg)


def same(a, b, exact=True):
    a = np.asarray(a)
    b = np.asarray(b)
    if a.shape != b.shape or a.dtype != b.dtype:
        return False
    if exact:
        return np.array_equal(a, b)
    return np.allclose(a, b, rtol=1e-5, atol=1e-5)


def make_stack(rng, n, h, w, dtype):
    if dtype == np.int16:
        a = rng.integers(-3000, 3000, size=(n, h, w)).astype(np.int16)
    else:
        a = rng.normal(0, 50, size=(n, h, w)).astype(np.float32)
    # special values: zeros, negative, first / last element marks
    a[0, 0, 0] = 0
    a[-1, -1, -1] = -7
    a[0, -1, 0] = 11
    return a


def as_input(a, order, kind, tag):
    """canonical A[n,y,x] -> what is handed to cryocat."""
    if kind == "file":
        fn = os.path.join(TMP, f"in_{tag}.mrc")
        mrcfile.write(fn, data=np.ascontiguousarray(a), overwrite=True)
        return fn
    if order == "xyz":
        return np.ascontiguousarray(a.transpose(2, 1, 0))
    return a.copy()


def canon(res, out_order):
    """returned array -> canonical [n,y,x]."""
    return res.transpose(2, 1, 0) if out_order == "xyz" else res


def read_file(fn):
    with mrcfile.open(fn, permissive=True) as m:
        return np.array(m.data)


def ref_bin(a, f):
    n, h, w = a.shape
    H = -(-h // f) * f
    W = -(-w // f) * f
    p = np.zeros((n, H, W), dtype=np.float64)
    p[:, :h, :w] = a
    out = np.zeros((n, H // f, W // f), dtype=np.float64)
    for i in range(H // f):
        for j in range(W // f):
            out[:, i, j] = p[:, i * f : (i + 1) * f, j * f : (j + 1) * f].sum(axis=(1, 2)) / (f * f)
    return out.astype(a.dtype)


def configs(rng, light=False):
    sizes = [(2, 4, 7), (3, 5, 4), (25, 40, 33), (2, 40, 4), (7, 6, 9), (10, 13, 8)]
    for _ in range(2 if light else 5):
        n = int(rng.integers(2, 26))
        h = int(rng.integers(4, 41))
        w = int(rng.integers(4, 41))
        if h == w:
            w = w + 1 if w < 40 else w - 1
        sizes.append((n, h, w))
    k = 0
    for n, h, w in sizes:
        for dtype in (np.float32, np.int16):
            for io_, oo in itertools.product(("xyz", "zyx"), repeat=2):
                for kind in ("array", "file"):
                    if kind == "file" and io_ == "zyx" and (k % 2):
                        # input_order is irrelevant for files; still exercise both but thin out
                        pass
                    for out_on in (False, True):
                        k += 1
                        yield n, h, w, dtype, io_, oo, kind, out_on, k


def run_property(rng, light=False):
    for n, h, w, dtype, io_, oo, kind, out_on, k in configs(rng, light):
        a = make_stack(rng, n, h, w, dtype)
        tag = f"n{n}h{h}w{w}{np.dtype(dtype).name}{io_}{oo}{kind}{int(out_on)}"
        inp = as_input(a, io_, kind, "x")
        inp_backup = inp.copy() if isinstance(inp, np.ndarray) else None
        out = os.path.join(TMP, "out.mrc") if out_on else None

        def finish(res, expected, what, exact=True, outfile=out):
            c = canon(res, oo)
            check(same(c, expected, exact), f"{what} returned array wrong [{tag}]")
            if outfile:
                f = read_file(outfile)
                check(same(f, expected, exact), f"{what} written file wrong [{tag}]")
                os.remove(outfile)
            if inp_backup is not None:
                check(np.array_equal(inp, inp_backup), f"{what} modified its input [{tag}]")

        # --- sorting by angle (no ties, any order) ---
        angles = rng.permutation(np.linspace(-60, 60, n) + rng.uniform(-0.4, 0.4, n)).astype(np.float64)
        perm = sorted(range(n), key=lambda i: angles[i])
        if k % 3 == 0:
            tl = angles.tolist()
        elif k % 3 == 1:
            tl = angles
        else:
            tl = os.path.join(TMP, "a.tlt")
            with open(tl, "w") as fh:
                for v in angles:
                    fh.write(f"{v:.3f}\n")
            perm = sorted(range(n), key=lambda i: float(np.float32(float(f"{angles[i]:.3f}"))))
        res = quiet(tiltstack.sort_tilts_by_angle, inp, tl, output_file=out, input_order=io_, output_order=oo)
        finish(res, a[perm], "sort_tilts_by_angle")

        # --- removing tilts ---
        for from1 in (True, False):
            m = int(rng.integers(1, n))  # at least one stays
            sub0 = sorted(rng.choice(n, size=m, replace=False).tolist())
            if k % 4 == 0:
                sub0 = [0] if from1 else [n - 1]  # first / last element
            if k % 4 == 1:
                sub0 = list(rng.permutation(sub0))  # unordered subset
            keep = [i for i in range(n) if i not in set(int(s) for s in sub0)]
            given = [int(s) + (1 if from1 else 0) for s in sub0]
            form = k % 3
            if form == 1:
                given = np.array(given)
            elif form == 2 and len(given) >= 2:  # (a one-line index file is read as a 0-d array; not used here)
                fn = os.path.join(TMP, "idx.txt")
                with open(fn, "w") as fh:
                    fh.write("".join(f"{g}\n" for g in given))
                given = fn
            res = quiet(
                tiltstack.remove_tilts, inp, given, numbered_from_1=from1, output_file=out, input_order=io_,
                output_order=oo,
            )
            finish(res, a[keep], f"remove_tilts(from1={from1})")

        # --- even / odd split ---
        prefix = os.path.join(TMP, "eo") if out_on else None
        ev, od = quiet(tiltstack.split_stack_even_odd, inp, output_file_prefix=prefix, input_order=io_, output_order=oo)
        ev_c, od_c = canon(ev, oo), canon(od, oo)
        check(same(ev_c, a[[i for i in range(n) if i % 2 == 0]]), f"even stack wrong [{tag}]")
        check(same(od_c, a[[i for i in range(n) if i % 2 == 1]]), f"odd stack wrong [{tag}]")
        inter = np.empty_like(a)
        ok_shapes = ev_c.shape[0] == (n + 1) // 2 and od_c.shape[0] == n // 2
        check(ok_shapes, f"even/odd counts wrong [{tag}]")
        if ok_shapes:
            for i in range(n):
                inter[i] = (ev_c if i % 2 == 0 else od_c)[i // 2]
            check(same(inter, a), f"even/odd do not interleave back [{tag}]")
        if prefix:
            check(same(read_file(prefix + "_even.mrc"), a[0::2]), f"even file wrong [{tag}]")
            check(same(read_file(prefix + "_odd.mrc"), a[1::2]), f"odd file wrong [{tag}]")
            os.remove(prefix + "_even.mrc")
            os.remove(prefix + "_odd.mrc")
        if inp_backup is not None:
            check(np.array_equal(inp, inp_backup), f"split modified its input [{tag}]")

        # --- flips: single flips reverse one axis, twice is the identity ---
        for ax, sl in (("x", (slice(None), slice(None, None, -1), slice(None))),
                       ("y", (slice(None), slice(None), slice(None, None, -1))),
                       ("z", (slice(None, None, -1), slice(None), slice(None)))):
            res = quiet(tiltstack.flip_along_axes, inp, ax if k % 2 else [ax], output_file=out, input_order=io_,
                        output_order=oo)
            finish(res, a[sl], f"flip {ax}")
            # second flip on what the first one returned (fed back in its own output order)
            res2 = quiet(tiltstack.flip_along_axes, np.ascontiguousarray(res), [ax], output_file=out, input_order=oo,
                         output_order=oo)
            finish(res2, a, f"flip {ax} twice")
            res3 = quiet(tiltstack.flip_along_axes, inp, [ax, ax], output_file=out, input_order=io_, output_order=oo)
            finish(res3, a, f"flip [{ax},{ax}]")

        # --- centred crop ---
        nw = int(rng.integers(1, w + 1))
        nh = int(rng.integers(1, h + 1))
        if k % 5 == 0:
            nw, nh = w, h
        if k % 5 == 1:
            nw, nh = None, nh
        ew = w if nw is None else nw
        sw = w // 2 - ew // 2
        sh = h // 2 - nh // 2
        res = quiet(tiltstack.crop, inp, new_width=nw, new_height=nh, output_file=out, input_order=io_, output_order=oo)
        finish(res, a[:, sh : sh + nh, sw : sw + ew], "crop")

        # --- binning ---
        f = int(rng.integers(1, 5))
        res = quiet(tiltstack.bin, inp, f, output_file=out, input_order=io_, output_order=oo)
        finish(res, ref_bin(a, f), "bin", exact=(dtype == np.int16))

        # --- repeated call on the same object gives the same answer ---
        r1 = quiet(tiltstack.remove_tilts, inp, [1], input_order=io_, output_order=oo)
        r2 = quiet(tiltstack.remove_tilts, inp, [1], input_order=io_, output_order=oo)
        check(same(r1, r2) and same(canon(r1, oo), a[1:]), f"repeated remove_tilts differs [{tag}]")


# ----------------------------------------------------------------------------------------------------------------
# Change-specific part: the readers behind sort_tilts_by_angle / remove_tilts (ioutils.one_value_per_line_read,
# tlt_load, indices_load) and the two library calls in remove_tilts / bin. The original texts are kept here, executed
# in the namespaces of their modules and compared with what is in the worktree now (values, dtype, shape, type,
# writeability, errors).
# ----------------------------------------------------------------------------------------------------------------
import pandas as pd

ORIGINAL_IOUTILS = textwrap.dedent(
    """
    def one_value_per_line_read_ORIG(file_path, data_type=np.float32):
        if not os.path.isfile(file_path):
            raise ValueError("The input file does not exist")

        try:
            data_df = pd.read_csv(file_path, header=None, dtype=data_type, sep=r"\\s+")
            if data_df.empty:
                raise ValueError("The input file is empty or contains no valid data.")
        except pd.errors.EmptyDataError:
            raise ValueError("The input file is empty or contains no valid data.")

        return data_df.iloc[:, 0].values


    def tlt_load_ORIG(input_tlt, sort_angles=True):
        if isinstance(input_tlt, np.ndarray):
            if input_tlt.size == 0:
                raise ValueError(f"The input tilt data is empty!")
            else:
                return input_tlt
        elif isinstance(input_tlt, list):
            if len(input_tlt) == 0:
                raise ValueError(f"The input tilt data is empty")
            else:
                return np.asarray(input_tlt)
        elif isinstance(input_tlt, str):
            if input_tlt.endswith(".mdoc"):
                tilt_data = mdoc.Mdoc(input_tlt)
                tilts = tilt_data.get_image_feature("TiltAngle").values
            elif input_tlt.endswith(".xml"):
                tilts = get_data_from_warp_xml(input_tlt, "Angles", node_level=1)
            else:
                tilts = one_value_per_line_read_ORIG(input_tlt)

            if sort_angles:
                tilts = np.sort(tilts)

            return tilts
        else:
            raise ValueError("Error: the dose has to be either ndarray or path to csv, mdoc, or tlt file!")


    def indices_load_ORIG(input_data, numbered_from_1=True):
        if isinstance(input_data, str):
            if input_data.endswith(".csv"):
                df = pd.read_csv(input_data)
                if "Removed" in df.columns:
                    df = df[~df["Removed"]]
                # indices = df.index[df["ToBeRemoved"]].to_numpy(dtype=int)
                indices = df["ToBeRemoved"].to_numpy().nonzero()[0]
                numbered_from_1 = False  # Always from 0
            else:
                indices = np.loadtxt(input_data, dtype=int)

        elif isinstance(input_data, list) or isinstance(input_data, np.ndarray):
            indices = np.asarray(input_data)
            if len(indices) == 0:
                raise ValueError(f"Input indices can't be empty")
        else:
            raise ValueError(f"Input data must be either path to a valid file either list/array")

        if numbered_from_1:
            indices = indices - 1

        return indices
    """
)
ns_io = dict(vars(ioutils))
exec(ORIGINAL_IOUTILS, ns_io)


class _OrigIoutils:  # what the original tiltstack functions see as "ioutils"
    tlt_load = staticmethod(ns_io["tlt_load_ORIG"])
    indices_load = staticmethod(ns_io["indices_load_ORIG"])


ORIGINAL_TILTSTACK = textwrap.dedent(
    """
    def sort_tilts_by_angle_ORIG(tilt_stack, input_tilts, output_file=None, input_order="xyz", output_order="xyz"):
        ts = TiltStack(tilt_stack=tilt_stack, input_order=input_order, output_order=output_order)

        tilt_angles = ioutils.tlt_load(input_tilts, sort_angles=False)
        sorted_indices = np.argsort(tilt_angles)

        ts.data = ts.data[sorted_indices, :, :]
        ts.write_out(output_file)
        return ts.correct_order()


    def remove_tilts_ORIG(tilt_stack, idx_to_remove, numbered_from_1=True, output_file=None, input_order="xyz",
                          output_order="xyz"):
        ts = TiltStack(tilt_stack=tilt_stack, input_order=input_order, output_order=output_order)

        idx_to_remove_final = ioutils.indices_load(idx_to_remove, numbered_from_1=numbered_from_1)
        # Check bounds
        max_index = ts.data.shape[0]
        if any(idx < 0 or idx >= max_index for idx in idx_to_remove_final):
            raise IndexError(
                f"One or more indices in idx_to_remove exceed bounds. " f"Valid range: 0 to {max_index - 1} (0-based)."
            )
        ts.data = np.delete(ts.data, idx_to_remove_final, axis=0)
        ts.write_out(output_file)
        return ts.correct_order()


    def bin_ORIG(tilt_stack, binning_factor, output_file=None, input_order="xyz", output_order="xyz"):
        # cast in case of string
        binning_factor = int(binning_factor)

        ts = TiltStack(tilt_stack=tilt_stack, input_order=input_order, output_order=output_order)
        ts.data = downscale_local_mean(ts.data, (1, binning_factor, binning_factor))
        ts.write_out(output_file)
        return ts.correct_order()
    """
)
ns_ts = dict(vars(tiltstack))
ns_ts["ioutils"] = _OrigIoutils
exec(ORIGINAL_TILTSTACK, ns_ts)


def outcome(fn, *args, **kwargs):
    try:
        return ("ok", quiet(fn, *args, **kwargs))
    except Exception as e:  # noqa
        return ("err", type(e).__name__, str(e))


def same_outcome(o1, o0, layout=False):
    if o1[0] != o0[0]:
        return False
    if o1[0] == "err":
        return o1[1:] == o0[1:]
    a1, a0 = o1[1], o0[1]
    if type(a1) is not type(a0) or not same(a1, a0):
        return False
    if a1.flags.writeable != a0.flags.writeable:
        return False
    if layout and a1.strides != a0.strides:
        return False
    return True


def compare_with_original(rng):
    here = os.getcwd()
    # ---- readers ----
    for trial in range(200):
        n = int(rng.integers(1, 26))
        ang = rng.permutation(np.linspace(-60, 60, n) + rng.uniform(-0.4, 0.4, n))
        fn = os.path.join(TMP, ("t.tlt", "t.rawtlt", "t.txt", "t.csv")[trial % 4])
        with open(fn, "w") as fh:
            for v in ang:
                if trial % 5 == 0:
                    fh.write(f"  {v:.2f}  \n")  # leading / trailing blanks
                elif trial % 5 == 1:
                    fh.write(f"{int(round(v))}\n")  # integers in the file
                else:
                    fh.write(f"{v:.4f}\n")
        for dt in (np.float32, np.float64, float):
            o1 = outcome(ioutils.one_value_per_line_read, fn, data_type=dt)
            o0 = outcome(ns_io["one_value_per_line_read_ORIG"], fn, data_type=dt)
            check(same_outcome(o1, o0), f"one_value_per_line_read({dt}): {o1} != {o0}")
        o1 = outcome(ioutils.one_value_per_line_read, fn)
        check(o1[0] == "ok" and o1[1].dtype == np.float32 and o1[1].ndim == 1 and o1[1].shape[0] == n,
              "one_value_per_line_read: not a 1D float32 array of all lines")
        for srt in (True, False):
            for given in (fn, ang, ang.tolist()):
                o1 = outcome(ioutils.tlt_load, given, sort_angles=srt)
                o0 = outcome(ns_io["tlt_load_ORIG"], given, sort_angles=srt)
                check(same_outcome(o1, o0), f"tlt_load(sort={srt}): {o1} != {o0}")
    for bad in (os.path.join(TMP, "missing.tlt"),):
        check(same_outcome(outcome(ioutils.tlt_load, bad), outcome(ns_io["tlt_load_ORIG"], bad)), "missing file outcome")
    empty = os.path.join(TMP, "empty.tlt")
    open(empty, "w").close()
    check(same_outcome(outcome(ioutils.tlt_load, empty), outcome(ns_io["tlt_load_ORIG"], empty)), "empty file outcome")
    n_mdoc = 0
    for md in ("tests/test_data/TS_017/017.mdoc", "tests/test_data/TS_018/018.mdoc"):
        md = os.path.join(here, md)
        if os.path.isfile(md):
            n_mdoc += 1
            for srt in (True, False):
                o1 = outcome(ioutils.tlt_load, md, sort_angles=srt)
                o0 = outcome(ns_io["tlt_load_ORIG"], md, sort_angles=srt)
                check(o1[0] == "ok" and same_outcome(o1, o0), f"tlt_load(mdoc, sort={srt}) differs")
    print("mdoc files compared:", n_mdoc)

    for trial in range(200):
        n = int(rng.integers(2, 26))
        m = int(rng.integers(1, n + 1))
        idx = rng.choice(np.arange(1, n + 1), size=m, replace=False)
        fn = os.path.join(TMP, "idx_cmp.txt")
        with open(fn, "w") as fh:
            fh.write("".join(f"{g}\n" for g in idx))
        rem = rng.random(n) < 0.3
        tbr = rng.random(n) < 0.4
        if trial % 7 == 0:
            rem[:] = False
        if trial % 7 == 1:
            rem[:] = True
        c1 = os.path.join(TMP, "idx1.csv")
        pd.DataFrame({"ToBeRemoved": tbr, "Other": np.arange(n)}).to_csv(c1, index=False)
        c2 = os.path.join(TMP, "idx2.csv")
        pd.DataFrame({"Other": np.arange(n), "Removed": rem, "ToBeRemoved": tbr}).to_csv(c2, index=False)
        cases = [idx.tolist(), idx, idx.astype(np.int16), idx.astype(float), [idx.tolist()], fn, c1, c2,
                 [], np.array([], dtype=int), 123, None, (1, 2), "nofile.txt"]
        for given in cases:
            for from1 in (True, False):
                o1 = outcome(ioutils.indices_load, given, numbered_from_1=from1)
                o0 = outcome(ns_io["indices_load_ORIG"], given, numbered_from_1=from1)
                check(same_outcome(o1, o0), f"indices_load({given!r}, {from1}): {o1} != {o0}")
        check(np.array_equal(ioutils.indices_load(c2), np.flatnonzero(tbr[~rem])), "csv with Removed: wrong positions")
        check(np.array_equal(ioutils.indices_load(c1), np.flatnonzero(tbr)), "csv: wrong positions")

    # ---- the stack functions themselves, new vs. original text, all orders / kinds / dtypes ----
    for n, h, w, dtype, io_, oo, kind, out_on, k in configs(rng, light=True):
        a = make_stack(rng, n, h, w, dtype)
        tag = f"n{n}h{h}w{w}{np.dtype(dtype).name}{io_}{oo}{kind}{int(out_on)}"
        inp = as_input(a, io_, kind, "y")
        f_new = os.path.join(TMP, "new.mrc") if out_on else None
        f_old = os.path.join(TMP, "old.mrc") if out_on else None

        def both(name, *args, **kw):
            o1 = outcome(getattr(tiltstack, name), inp, *args, output_file=f_new, input_order=io_, output_order=oo, **kw)
            o0 = outcome(ns_ts[name + "_ORIG"], inp, *args, output_file=f_old, input_order=io_, output_order=oo, **kw)
            check(same_outcome(o1, o0, layout=True), f"{name}{args}: new != original [{tag}]")
            if out_on and o1[0] == "ok":
                check(same(read_file(f_new), read_file(f_old)), f"{name}: written files differ [{tag}]")
            for f in (f_new, f_old):
                if f and os.path.exists(f):
                    os.remove(f)

        angles = rng.permutation(np.linspace(-60, 60, n) + rng.uniform(-0.4, 0.4, n))
        tl = os.path.join(TMP, "cmp.tlt")
        with open(tl, "w") as fh:
            fh.write("".join(f"{v:.3f}\n" for v in angles))
        both("sort_tilts_by_angle", tl)
        both("sort_tilts_by_angle", angles)
        sub = sorted(rng.choice(n, size=int(rng.integers(1, n)), replace=False).tolist())
        both("remove_tilts", [s + 1 for s in sub], numbered_from_1=True)
        both("remove_tilts", np.array(sub), numbered_from_1=False)
        both("remove_tilts", [n], numbered_from_1=True)  # last tilt
        both("remove_tilts", [n], numbered_from_1=False)  # out of bounds -> same IndexError
        both("remove_tilts", [0], numbered_from_1=True)  # -1 -> same IndexError
        both("remove_tilts", [1, 1], numbered_from_1=True)  # a repeated index
        tbr = np.zeros(n, dtype=bool)
        tbr[sub] = True
        cs = os.path.join(TMP, "cmp.csv")
        pd.DataFrame({"Removed": np.zeros(n, dtype=bool), "ToBeRemoved": tbr}).to_csv(cs, index=False)
        both("remove_tilts", cs)
        for f in (1, 2, 3, 4, "2"):
            both("bin", f)


if __name__ == "__main__":
    rng = np.random.default_rng(int(os.environ.get("DEMO_SEED", "15")))
    run_property(rng)
    compare_with_original(rng)
    import shutil

    shutil.rmtree(TMP, ignore_errors=True)
    if FAILS:
        print(f"{len(FAILS)} of {N_CHECKS[0]} checks failed")
        print("FAIL")
        sys.exit(1)
    print(f"{N_CHECKS[0]} checks")
    print("PASS")
