#!/venv/bin/python
"""C09 -- spatial filters keep exactly the particles that lie inside.  Variant: a -- clean-up of the two clean_by_tomo_mask fixes (floor lookup / lower bounds): the expressions moved into named helpers, six comparisons merged into one

Run as:  cd /tmp/wt11/C09 && /venv/bin/python /tmp/seedsU/C09/a/demo.py

Part 1 (property): remove_out_of_bounds_particles, adapt_to_trimming, clean_by_distance_to_points and
clean_by_tomo_mask (and ioutils.dimensions_load, on which the first rests) are compared with an independent,
vectorised computation of "the set of particles inside" over many random and edge-case inputs.
Part 2 (equivalence): the functions of the tree (patched or not) are compared with verbatim copies of the original
function texts (ORIG_SRC below) on the same inputs: resulting table (values, dtypes, row index), return value, printed
text, exceptions, untouched arguments, untouched numpy random state.

Kept out on purpose (see the final report): particles whose position / box leaves the volume through a LOWER face in
remove_out_of_bounds_particles -- the unmodified tree keeps them (`all(c_min) >= 0` is always true), which already
contradicts the property; repeated subtomo_id values (clean_by_tomo_mask removes by subtomo_id over the whole list);
the empty list for clean_by_distance_to_points (raises ValueError in the unmodified tree).
"""
import sys, os

sys.path.insert(0, os.getcwd())
import warnings

warnings.filterwarnings("ignore")
import contextlib, copy, io, logging, tempfile
from math import ceil

import numpy as np
import pandas as pd

import cryocat.cryomotl as cm
from cryocat.cryomotl import Motl
from cryocat import ioutils, cryomap
from cryocat.exceptions import UserInputError

assert os.path.abspath(cm.__file__).startswith(os.getcwd()), cm.__file__

# ---------------------------------------------------------------------------------------------------------------
# verbatim copies of the original functions (docstrings dropped, name prefixed with orig_)
ORIG_SRC = r'''
def orig_adapt_to_trimming(self, trim_coord_start, trim_coord_end):

    trimvol_coord = np.asarray(trim_coord_start) - 1
    tdim = np.asarray(trim_coord_end) - trimvol_coord
    self.df.loc[:, ["x", "y", "z"]] = self.df.loc[:, ["x", "y", "z"]] - np.tile(
        trimvol_coord, (self.df.shape[0], 1)
    )
    self.df = self.df.loc[~((self.df["x"] < 1.0) | (self.df["y"] < 1.0) | (self.df["z"] < 1.0)), :]
    self.df = self.df.loc[
        ~((self.df["x"] > tdim[0]) | (self.df["y"] > tdim[1]) | (self.df["z"] > tdim[2])),
        :,
    ]

def orig_clean_by_distance_to_points(
    self, points, radius_in_voxels, feature_id="tomo_id", inplace=True, output_file=None
):

    # Parse tomograms
    features = self.get_unique_values(feature_id)

    # Initialize clean motl
    cleaned_df = pd.DataFrame()

    # Loop through and clean
    for f in features:
        # Parse tomogram
        feature_m = self.get_motl_subset(f, feature_id=feature_id, reset_index=True)

        # Parse positions
        coord1 = feature_m.get_coordinates()
        coord2 = points.loc[points[feature_id] == f, ["x", "y", "z"]].values

        # Create a KDTree from coord1
        tree = KDTree(coord1)

        # Query points from coord2 within the radius
        indices_to_remove = set()  # Use a set to store unique indices
        for point in coord2:
            indices = tree.query_ball_point(point, r=radius_in_voxels)  # Returns indices as array
            indices_to_remove.update(indices)  # Add indices to the set

        # Convert to a sorted list for consistent ordering
        indices_to_remove = sorted(indices_to_remove)
        cfm = feature_m.df.drop(index=indices_to_remove)
        cleaned_df = pd.concat([cleaned_df, cfm], ignore_index=True)

    cleaned_df.reset_index(drop=True, inplace=True)
    cleaned_motl = Motl(cleaned_df)

    if output_file:
        cleaned_motl.write_out(output_file)

    print(f"{self.df.shape[0]-cleaned_motl.df.shape[0]} particles were removed.")

    if inplace:
        self.df = cleaned_df
    else:
        return cleaned_motl

def orig_clean_by_tomo_mask(self, tomo_list, tomo_masks, inplace=True, output_file=None):

    tomos = ioutils.tlt_load(tomo_list)

    requries_loading = True

    if isinstance(tomo_masks, list):
        if len(tomos) != len(tomo_masks):
            raise ValueError(f"The list of tomograms has different length than lists of tomogram masks")
    else:
        tomo_mask = cryomap.binarize(tomo_masks)
        requries_loading = False

    cleaned_motl = Motl.load(self)

    for i, t in enumerate(tomos):
        tm = self.get_motl_subset(t, reset_index=True)
        coords = np.floor(tm.get_coordinates()).astype(int)  # voxel holding the position (astype alone puts -0.3 into voxel 0)
        if requries_loading:
            tomo_mask = cryomap.binarize(tomo_masks[i])

        # Ensure coordinates are within the bounds of the mask array
        within_bounds = (
            (coords[:, 0] >= 0)
            & (coords[:, 1] >= 0)
            & (coords[:, 2] >= 0)
            & (coords[:, 0] < tomo_mask.shape[0])
            & (coords[:, 1] < tomo_mask.shape[1])
            & (coords[:, 2] < tomo_mask.shape[2])
        )
        within_idx = np.where(within_bounds)[0]
        coords = coords[within_bounds]

        # Filter out coordinates where the mask value is 0
        mask_values = tomo_mask[coords[:, 0], coords[:, 1], coords[:, 2]]

        # Get the indices (within the tomogram subset) of the particles that sit on zero voxels
        idx_to_remove = within_idx[mask_values == 0]
        subtomo_idx = tm.df.loc[idx_to_remove, "subtomo_id"].values

        # only rows of this tomogram: subtomogram numbers may repeat in other tomograms
        hits = (cleaned_motl.df["tomo_id"] == t) & cleaned_motl.df["subtomo_id"].isin(subtomo_idx)
        cleaned_motl.df = cleaned_motl.df[~hits]

        print(f"Removed {str(idx_to_remove.shape[0])} particles from tomogram #{str(t)}")

    cleaned_motl.df.reset_index(inplace=True, drop=True)

    if output_file is not None:
        cleaned_motl.write_out(output_file)

    if inplace:
        self.df = cleaned_motl.df
    else:
        return cleaned_motl

def orig_remove_out_of_bounds_particles(self, dimensions, boundary_type="center", box_size=None):
    dim = ioutils.dimensions_load(dimensions)
    original_size = len(self.df)

    # Get type of bounds
    if boundary_type == "whole":
        if box_size:
            boundary = ceil(box_size / 2)
        else:
            raise UserInputError("You need to specify box_size when boundary_type is set to 'whole'.")
    elif boundary_type == "center":
        boundary = 0
    else:
        raise UserInputError(f"Unknown type of boundaries: {boundary_type}")

    recentered = self.get_coordinates()
    recentered_df = pd.DataFrame({
        "x": recentered[:, 0],
        "y": recentered[:, 1],
        "z": recentered[:, 2],
        "tomo_id": self.df["tomo_id"].values  # Add the tomo_id column from the original df.
    })
    idx_list = []
    for i, row in recentered_df.iterrows():
        tn = row["tomo_id"]
        tomo_dim = dim.loc[dim["tomo_id"] == tn, "x":"z"].reset_index(drop=True)
        c_min = [c - boundary for c in row["x":"z"]]
        c_max = [c + boundary for c in row["x":"z"]]
        if (
            (all(c_min) >= 0)
            and (c_max[0] < tomo_dim["x"][0])
            and (c_max[1] < tomo_dim["y"][0])
            and (c_max[2] < tomo_dim["z"][0])
        ):
            idx_list.append(i)

    self.df = self.df.iloc[idx_list].reset_index(drop=True)

    print(f"Removed {original_size - len(self.df)} particles.")
    print(f"Original size {original_size}, new_size {len(self.df)}")

'''
_ns = dict(vars(cm))
exec(ORIG_SRC, _ns)
ORIG = {k[5:]: v for k, v in _ns.items() if k.startswith("orig_")}
assert sorted(ORIG) == [
    "adapt_to_trimming",
    "clean_by_distance_to_points",
    "clean_by_tomo_mask",
    "remove_out_of_bounds_particles",
]

# make every debug message of the package get formatted (so that diagnostics, if any, really run)
_logbuf = io.StringIO()
_h = logging.StreamHandler(_logbuf)
_h.setLevel(logging.DEBUG)
_lg = logging.getLogger("cryocat")
_lg.addHandler(_h)
_lg.setLevel(logging.DEBUG)
_lg.propagate = False

FAILS = []
COUNTS = {}


def fail(msg):
    FAILS.append(msg)
    if len(FAILS) <= 15:
        print("FAIL:", msg)


def count(k):
    COUNTS[k] = COUNTS.get(k, 0) + 1


COLS = list(Motl.motl_columns)


# ---------------------------------------------------------------------------------------------------------------
# input construction
def build_motl_df(rng, tomo_ids, pos, shift, kind="float", index_style=0, nan_holes=False):
    """tomo_ids (n,), pos (n,3) complete positions, shift (n,3); x,y,z = pos - shift."""
    n = len(tomo_ids)
    data = {}
    for c in COLS:
        data[c] = rng.integers(-5, 50, n).astype(float) if kind == "int" else np.round(rng.uniform(-5, 50, n), 3)
    xyz = np.asarray(pos, dtype=float).reshape(n, 3) - np.asarray(shift, dtype=float).reshape(n, 3)
    for k, c in enumerate(["x", "y", "z"]):
        data[c] = xyz[:, k]
        data["shift_" + c] = np.asarray(shift, dtype=float).reshape(n, 3)[:, k]
    data["tomo_id"] = np.asarray(tomo_ids, dtype=float)
    data["subtomo_id"] = (rng.permutation(n) + 1 + int(rng.integers(0, 3)) * 100).astype(float)
    data["object_id"] = rng.integers(1, 4, n).astype(float)
    data["class"] = rng.integers(1, 3, n).astype(float)
    df = pd.DataFrame(data, columns=COLS)
    if nan_holes and kind == "float" and n > 0:
        for c in ["score", "geom1", "geom2", "geom4", "subtomo_mean"]:
            df.loc[rng.random(n) < 0.3, c] = np.nan
    if kind == "int":
        df = df.astype("int64")
    if index_style == 1:
        df.index = np.arange(n) * 3 + 7
    elif index_style == 2:
        df.index = rng.permutation(n) + 100
    elif index_style == 3:
        df.index = np.arange(n)[::-1]
    return df


def split_shift(rng, pos, kind):
    n = pos.shape[0]
    if kind == "int":
        choices = np.array([0, 0, 0, 1, -1, 3, -20, 20])
    else:
        choices = np.array([0, 0, 0, 0.25, -0.25, 3.5, -3.5, -20.0, 20.0, 0.75])
    sh = rng.choice(choices, size=(n, 3))
    if rng.random() < 0.25:
        sh[:] = 0
    return sh


def grid(rng, lo, hi, size, kind):
    """random values on a quarter grid (exact in binary floating point) or integers"""
    hi = max(hi, lo)
    if kind == "int":
        return rng.integers(int(np.floor(lo)), int(np.ceil(hi)) + 1, size).astype(float)
    return rng.integers(int(np.floor(lo * 4)), int(np.ceil(hi * 4)) + 1, size) / 4.0


def frames_equal(a, b, what, strict=True):
    try:
        pd.testing.assert_frame_equal(
            a, b, check_exact=True, check_dtype=strict, check_index_type="equiv" if strict else False,
            check_column_type=strict,
        )
        return True
    except AssertionError as e:
        fail(f"{what}: tables differ: {str(e).splitlines()[:6]}")
        return False


def same_arg(a, b):
    if isinstance(a, pd.DataFrame):
        return isinstance(b, pd.DataFrame) and a.shape == b.shape and np.array_equal(
            a.to_numpy(dtype=float), b.to_numpy(dtype=float), equal_nan=True
        ) and a.index.equals(b.index)
    if isinstance(a, np.ndarray):
        return isinstance(b, np.ndarray) and a.dtype == b.dtype and a.shape == b.shape and np.array_equal(a, b)
    if isinstance(a, (list, tuple)):
        return type(a) == type(b) and len(a) == len(b) and all(same_arg(x, y) for x, y in zip(a, b))
    return a == b


def call(fn, df, args, kwargs):
    """call fn(Motl(copy of df), *copies of args) ; returns (motl, ret, printed, exception)"""
    m = Motl(df.copy(deep=True))
    a = copy.deepcopy(args)
    k = copy.deepcopy(kwargs)
    st = np.random.get_state()
    buf = io.StringIO()
    ret, exc = None, None
    with contextlib.redirect_stdout(buf):
        try:
            ret = fn(m, *a, **k)
        except Exception as e:  # noqa
            exc = e
    st2 = np.random.get_state()
    if not (st[0] == st2[0] and np.array_equal(st[1], st2[1]) and st[2:] == st2[2:]):
        fail(f"{getattr(fn, '__name__', fn)}: numpy global random state was touched")
    if not same_arg(tuple(args), tuple(a)) or not all(same_arg(kwargs[x], k[x]) for x in kwargs):
        fail(f"{getattr(fn, '__name__', fn)}: an argument was modified")
    return m, ret, buf.getvalue(), exc


def both(name, df, args, kwargs, tag):
    """tree function and original copy on the same input; strict comparison. Returns the tree results."""
    m1, r1, out1, e1 = call(getattr(Motl, name), df, args, kwargs)
    m0, r0, out0, e0 = call(ORIG[name], df, args, kwargs)
    what = f"{name} [{tag}] tree-vs-original"
    if (e1 is None) != (e0 is None) or (e1 is not None and type(e1) is not type(e0)):
        fail(f"{what}: exceptions differ: tree {e1!r} / original {e0!r}")
    frames_equal(m1.df, m0.df, what + " (motl.df)")
    if out1 != out0:
        fail(f"{what}: printed text differs: {out1!r} / {out0!r}")
    if (r1 is None) != (r0 is None):
        fail(f"{what}: return values differ: {r1!r} / {r0!r}")
    elif r1 is not None:
        if type(r1) is not type(r0):
            fail(f"{what}: return types differ")
        frames_equal(r1.df, r0.df, what + " (returned motl)")
    count(name)
    return m1, r1, out1, e1


# ---------------------------------------------------------------------------------------------------------------
# 0. ioutils.dimensions_load
def check_dimensions_load(rng, tmpdir):
    for trial in range(40):
        nt = int(rng.integers(1, 5))
        tid = rng.choice(np.arange(1, 40), nt, replace=False)
        arr = np.column_stack([tid, rng.integers(10, 500, (nt, 3))])
        variants = [arr, arr.astype(float), pd.DataFrame(arr), pd.DataFrame(arr, columns=["tomo_id", "x", "y", "z"])]
        path = os.path.join(tmpdir, f"dims_{trial}.txt")
        np.savetxt(path, arr, fmt="%d")
        variants.append(path)
        if nt == 1:
            variants += [list(arr[0]), arr[0].copy()]
        for v in variants:
            d = ioutils.dimensions_load(copy.deepcopy(v))
            if list(d.columns) != ["tomo_id", "x", "y", "z"] or not np.array_equal(d.to_numpy(dtype=float), arr.astype(float)):
                fail(f"dimensions_load Nx4 {type(v).__name__}: {d}")
        one = arr[0, 1:]
        for v in [one.copy(), list(one), one.astype(float), one.reshape(1, 3), pd.DataFrame(one.reshape(1, 3))]:
            d = ioutils.dimensions_load(copy.deepcopy(v))
            if list(d.columns) != ["x", "y", "z"] or not np.array_equal(d.to_numpy(dtype=float), one.reshape(1, 3).astype(float)):
                fail(f"dimensions_load 1x3 {type(v).__name__}: {d}")
        d = ioutils.dimensions_load(one.copy(), tomo_idx=tid.copy())
        if not (np.array_equal(d["tomo_id"].to_numpy(), tid) and np.array_equal(
            d[["x", "y", "z"]].to_numpy(dtype=float), np.repeat(one.reshape(1, 3), nt, axis=0).astype(float))):
            fail(f"dimensions_load 1x3 + tomo_idx: {d}")
        count("dimensions_load")
    for bad in [np.arange(5), np.zeros((2, 3)), [1, 2]]:
        try:
            ioutils.dimensions_load(bad)
            fail(f"dimensions_load accepted shape {np.shape(bad)}")
        except ValueError:
            pass


# ---------------------------------------------------------------------------------------------------------------
# 1. remove_out_of_bounds_particles
def oob_oracle(df, dim_of, btype, box):
    b = ceil(box / 2) if btype == "whole" else 0
    pos = df[["x", "y", "z"]].to_numpy(dtype=float) + df[["shift_x", "shift_y", "shift_z"]].to_numpy(dtype=float)
    dims = np.array([dim_of[int(t)] for t in df["tomo_id"].to_numpy()], dtype=float).reshape(len(df), 3)
    keep = np.all(pos - b >= 0, axis=1) & np.all(pos + b < dims, axis=1)
    return df.iloc[np.flatnonzero(keep)].reset_index(drop=True), keep, pos - b


def dims_variants(rng, arr, tmpdir, tag):
    v = int(rng.integers(0, 7))
    if v == 0:
        return arr.copy()
    if v == 1:
        return arr.astype(float)
    if v == 2:
        return pd.DataFrame(arr, columns=["tomo_id", "x", "y", "z"])
    if v == 3:
        return pd.DataFrame(arr.astype(float))
    if v == 4:
        path = os.path.join(tmpdir, f"d_{tag}.txt")
        np.savetxt(path, arr, fmt="%d")
        return path
    if arr.shape[0] == 1:
        return list(arr[0]) if v == 5 else arr[0].copy()
    return arr.copy()


def check_oob(rng, tmpdir, ntrials):
    for trial in range(ntrials):
        kind = "int" if trial % 5 == 4 else "float"
        nt = int(rng.integers(1, 5))
        tid = rng.choice(np.arange(1, 40), nt, replace=False)
        dim_arr = np.column_stack([tid, rng.integers(12, 70, (nt, 3))])
        dim_of = {int(r[0]): r[1:] for r in dim_arr}
        btype = "whole" if trial % 2 else "center"
        box = int(rng.choice([1, 2, 3, 4, 7, 8, 15, 16, 21, 40])) if btype == "whole" else None
        if btype == "center" and trial % 6 == 0:
            box = 8  # ignored for "center"
        b = ceil(box / 2) if btype == "whole" else 0
        n = [0, 1, 2, 3][trial % 4] if trial < 24 else int(rng.integers(1, 45))
        tomo_ids = rng.choice(tid, n)
        pos = np.zeros((n, 3))
        for i in range(n):
            d = dim_of[int(tomo_ids[i])]
            for k in range(3):
                cands = [b, b + 0.25, b + 1, d[k] - b - 1, d[k] - b - 0.25, d[k] - b, d[k] - b + 0.25, d[k] - 1, d[k],
                         d[k] + b, d[k] + 30, d[k] / 2.0]
                if rng.random() < 0.5:
                    p = grid(rng, b, d[k] + 5, None, kind)
                else:
                    p = cands[int(rng.integers(0, len(cands)))]
                if kind == "int":
                    p = float(np.floor(p))
                # the lower side is a known defect of the unmodified tree: keep every particle at or above the lower face
                pos[i, k] = max(p, b)
        shift = split_shift(rng, pos, kind)
        df = build_motl_df(rng, tomo_ids, pos, shift, kind=kind, index_style=trial % 4, nan_holes=(trial % 3 == 0))
        # dimension table: rows shuffled, plus tomograms without particles
        extra = np.column_stack([np.arange(50, 50 + trial % 3), rng.integers(5, 90, (trial % 3, 3))]).reshape(-1, 4)
        table = np.vstack([dim_arr, extra]) if nt > 1 or trial % 2 else dim_arr
        if table.shape[0] > 1:
            table = table[rng.permutation(table.shape[0])]
        dims = dims_variants(rng, table, tmpdir, f"oob{trial}")
        kwargs = {"boundary_type": btype}
        if box is not None:
            kwargs["box_size"] = box
        if trial % 7 == 0 and btype == "center" and box is None:
            kwargs = {}
        m, ret, out, exc = both("remove_out_of_bounds_particles", df, (dims,), kwargs, f"trial {trial}")
        exp, keep, cmin = oob_oracle(df, dim_of, btype, box)
        assert n == 0 or cmin.min() >= 0
        if exc is not None:
            fail(f"remove_out_of_bounds_particles trial {trial}: raised {exc!r}")
            continue
        frames_equal(m.df, exp, f"remove_out_of_bounds_particles trial {trial} ({btype}, box {box}, n={n}) vs oracle")
        if ret is not None:
            fail("remove_out_of_bounds_particles returned something")
        if f"Removed {n - int(keep.sum())} particles." not in out:
            fail(f"remove_out_of_bounds_particles trial {trial}: printed {out!r}")
        # repeated call on the same object: nothing more to remove
        before = m.df.copy(deep=True)
        with contextlib.redirect_stdout(io.StringIO()):
            m.remove_out_of_bounds_particles(copy.deepcopy(dims), **kwargs)
        frames_equal(m.df, before, f"remove_out_of_bounds_particles trial {trial} second call")

    # hand-made faces: dimension 10, centre positions 0 (inside), 9.75 (inside), 10 (outside); box 4 -> 2 .. <8
    t = np.array([3, 3, 3, 3, 3, 3])
    pos = np.array([[0, 0, 0], [9.75, 9.75, 9.75], [10, 5, 5], [5, 5, 9.75], [2, 2, 2], [5, 5, 8]], dtype=float)
    df = build_motl_df(rng, t, pos, np.zeros((6, 3)))
    m, _, _, _ = both("remove_out_of_bounds_particles", df, (np.array([[3, 10, 10, 10]]),), {}, "faces center")
    frames_equal(m.df, df.iloc[[0, 1, 3, 4, 5]].reset_index(drop=True), "faces center")
    df2 = df.iloc[[4, 5, 2]]
    m, _, _, _ = both("remove_out_of_bounds_particles", df2, (np.array([[3, 10, 10, 10]]),),
                      {"boundary_type": "whole", "box_size": 4}, "faces whole")
    frames_equal(m.df, df2.iloc[[0]].reset_index(drop=True), "faces whole")

    # outside the quantifier: the documented errors stay, the undocumented ones stay errors, the table stays untouched
    df = build_motl_df(rng, np.array([1, 2, 1]), np.array([[5, 5, 5], [6, 6, 6], [7, 7, 7.0]]), np.zeros((3, 3)))
    dims = np.array([[1, 20, 20, 20], [2, 30, 30, 30]])
    for kw, etype in [({"boundary_type": "invalid"}, UserInputError), ({"boundary_type": "whole"}, UserInputError),
                      ({"boundary_type": "whole", "box_size": 0}, UserInputError)]:
        m, _, _, exc = both("remove_out_of_bounds_particles", df, (dims,), kw, f"invalid {kw}")
        if not isinstance(exc, etype):
            fail(f"remove_out_of_bounds_particles {kw}: expected {etype.__name__}, got {exc!r}")
        frames_equal(m.df, df, f"remove_out_of_bounds_particles {kw}: table after the error")
    for bad_dims, tag in [(np.array([20, 20, 20]), "1x3 dimensions"), (np.array([[1, 20, 20, 20]]), "tomogram 2 missing"),
                          ([20, 20, 20], "1x3 list")]:
        m, _, _, exc = call(Motl.remove_out_of_bounds_particles, df, (bad_dims,), {})
        if not isinstance(exc, (KeyError, ValueError)):
            fail(f"remove_out_of_bounds_particles {tag}: expected KeyError/ValueError, got {exc!r}")
        frames_equal(m.df, df, f"remove_out_of_bounds_particles {tag}: table after the error")
        # ... and with a bad boundary type as well, the boundary type is reported first
        m, _, _, exc = both("remove_out_of_bounds_particles", df, (bad_dims,), {"boundary_type": "nope"}, tag + " + bad type")
        if not isinstance(exc, UserInputError):
            fail(f"remove_out_of_bounds_particles {tag} + bad type: {exc!r}")
    # the empty list needs no dimensions at all
    empty = Motl.create_empty_motl_df()
    for d in [np.array([20, 20, 20]), np.array([[1, 20, 20, 20]])]:
        m, _, _, exc = both("remove_out_of_bounds_particles", empty, (d,), {}, "empty list")
        if exc is not None or m.df.shape != (0, 20):
            fail(f"remove_out_of_bounds_particles on the empty list: {exc!r} {m.df.shape}")


# ---------------------------------------------------------------------------------------------------------------
# 2. adapt_to_trimming
def trim_oracle(df, start, end):
    start = np.asarray(start, dtype=float)
    end = np.asarray(end, dtype=float)
    xyz = df[["x", "y", "z"]].to_numpy(dtype=float) - (start - 1.0)
    keep = np.all(xyz >= 1.0, axis=1) & np.all(xyz <= end - start + 1.0, axis=1)
    exp = df.copy(deep=True)
    for k, c in enumerate(["x", "y", "z"]):
        exp[c] = xyz[:, k] if df[c].dtype.kind == "f" else xyz[:, k].astype(df[c].dtype)
    return exp.loc[keep], keep


def check_trim(rng, ntrials):
    for trial in range(ntrials):
        kind = "int" if trial % 5 == 4 else "float"
        n = [0, 1, 2, 3][trial % 4] if trial < 24 else int(rng.integers(1, 45))
        start = rng.integers(1, 30, 3).astype(float)
        if trial % 6 == 0:
            start[:] = 1  # no offset at all
        if kind == "float" and trial % 7 == 3:
            start = start + rng.choice([0.25, 0.5, 0.75], 3)
        size = rng.integers(1, 41, 3)  # odd and even, down to a single voxel
        end = start + size - 1
        pos = np.zeros((n, 3))
        for i in range(n):
            for k in range(3):
                cands = [start[k] - 1, start[k] - 0.25, start[k], start[k] + 0.25, end[k] - 0.25, end[k], end[k] + 0.25,
                         end[k] + 1, 0.0, -3.0, (start[k] + end[k]) / 2]
                if rng.random() < 0.6:
                    p = grid(rng, start[k] - 3, end[k] + 3, None, kind)
                else:
                    p = cands[int(rng.integers(0, len(cands)))]
                pos[i, k] = float(np.floor(p)) if kind == "int" else p
        # adapt_to_trimming works on x,y,z alone: build the table with x,y,z = pos and unrelated non-zero shifts
        shift = split_shift(rng, pos, kind)
        df = build_motl_df(rng, rng.choice([1, 2, 5], n), pos + shift, shift, kind=kind, index_style=trial % 4,
                           nan_holes=(trial % 3 == 0))
        assert np.array_equal(df[["x", "y", "z"]].to_numpy(dtype=float), pos)
        want_int = (kind == "int" or trial % 2 == 1) and np.all(start == np.floor(start))
        s_arg = start.astype(int) if want_int else start.copy()
        e_arg = end.astype(int) if want_int else end.copy()
        form = trial % 3
        if form == 1:
            s_arg, e_arg = list(s_arg), list(e_arg)
        elif form == 2:
            s_arg, e_arg = tuple(s_arg), tuple(e_arg)
        m, ret, out, exc = both("adapt_to_trimming", df, (s_arg, e_arg), {}, f"trial {trial}")
        if exc is not None:
            fail(f"adapt_to_trimming trial {trial}: raised {exc!r}")
            continue
        exp, keep = trim_oracle(df, start, end)
        frames_equal(m.df, exp, f"adapt_to_trimming trial {trial} (n={n}) vs oracle", strict=(kind == "float"))
        if ret is not None or out != "":
            fail("adapt_to_trimming returned / printed something")
        # second trimming of the already trimmed list (repeated call on the same object)
        s2 = np.array([2, 1, 3])
        e2 = s2 + np.array([5, 30, 8])
        before = m.df.copy(deep=True)
        m.adapt_to_trimming(s2, e2)
        exp2, _ = trim_oracle(before, s2, e2)
        frames_equal(m.df, exp2, f"adapt_to_trimming trial {trial} second call", strict=(kind == "float"))


# ---------------------------------------------------------------------------------------------------------------
# 3. clean_by_distance_to_points
def dist_oracle(df, points, radius, feature_id):
    parts = []
    removed = 0
    for f in pd.unique(df[feature_id]):
        sub = df.loc[df[feature_id] == f]
        pos = sub[["x", "y", "z"]].to_numpy(dtype=float) + sub[["shift_x", "shift_y", "shift_z"]].to_numpy(dtype=float)
        pts = points.loc[points[feature_id] == f, ["x", "y", "z"]].to_numpy(dtype=float)
        if len(pts):
            d2 = ((pos[:, None, :] - pts[None, :, :]) ** 2).sum(axis=2)
            hit = (d2 <= radius * radius).any(axis=1)
        else:
            hit = np.zeros(len(sub), dtype=bool)
        removed += int(hit.sum())
        parts.append(sub.loc[~hit])
    return pd.concat(parts).reset_index(drop=True), removed


def check_dist(rng, ntrials):
    for trial in range(ntrials):
        kind = "int" if trial % 5 == 4 else "float"
        nt = int(rng.integers(1, 5))
        tid = rng.choice(np.arange(1, 40), nt, replace=False)
        n = [1, 1, 2, 3][trial % 4] if trial < 16 else int(rng.integers(1, 45))
        tomo_ids = rng.choice(tid, n)
        pos = grid(rng, -10, 40, (n, 3), kind)
        shift = split_shift(rng, pos, kind)
        df = build_motl_df(rng, tomo_ids, pos, shift, kind=kind, index_style=trial % 4, nan_holes=(trial % 3 == 0))
        feature_id = "tomo_id" if trial % 6 else ["object_id", "class"][trial % 12 == 0]
        radius = [0, 0.25, 2.5, 5, 5.25, 4.75, 10, 1000, 3, 1][trial % 10]
        if kind == "int":
            radius = int(np.ceil(radius))
        rows = []
        fvals = pd.unique(df[feature_id])
        for f in fvals:
            if rng.random() < 0.2:
                continue  # a tomogram without reference points
            sub = np.flatnonzero(df[feature_id].to_numpy() == f)
            for _ in range(int(rng.integers(1, 6))):
                base = pos[rng.choice(sub)]
                mode = int(rng.integers(0, 5))
                if mode == 0:
                    p = base.copy()  # coincident
                elif mode == 1:
                    v = np.array([3.0, 4.0, 0.0])[rng.permutation(3)] * rng.choice([-1, 1], 3)
                    p = base + v  # exactly 5 away
                elif mode == 2:
                    v = np.array([3.0, 4.0, 12.0])[rng.permutation(3)] * rng.choice([-1, 1], 3) * 0.25
                    p = base + (v if kind == "float" else v * 4)  # exactly 3.25 (13) away
                else:
                    p = grid(rng, -10, 40, 3, kind)
                rows.append([f, p[0], p[1], p[2]])
        for _ in range(trial % 3):  # points of a tomogram that has no particles: ignored
            rows.append([99.0] + list(pos[0]))
        points = pd.DataFrame(rows, columns=[feature_id, "x", "y", "z"], dtype=float)
        if len(points) == 0:
            points = pd.DataFrame({feature_id: np.zeros(0), "x": np.zeros(0), "y": np.zeros(0), "z": np.zeros(0)})
        if trial % 2 and len(points):
            points = points.iloc[rng.permutation(len(points))]
            points["w"] = 1.5
            points.index = points.index + 10
        if kind == "int":
            points = points.astype({c: "int64" for c in [feature_id, "x", "y", "z"]})
        inplace = bool(trial % 3)
        kwargs = {"inplace": inplace}
        if feature_id != "tomo_id":
            kwargs["feature_id"] = feature_id
        elif trial % 4 == 0 and inplace:
            kwargs = {}
        m, ret, out, exc = both("clean_by_distance_to_points", df, (points, radius), kwargs, f"trial {trial}")
        if exc is not None:
            fail(f"clean_by_distance_to_points trial {trial}: raised {exc!r}")
            continue
        exp, removed = dist_oracle(df, points, radius, feature_id)
        what = f"clean_by_distance_to_points trial {trial} (n={n}, r={radius}, by {feature_id}) vs oracle"
        if inplace:
            frames_equal(m.df, exp, what, strict=False)
            if ret is not None:
                fail(what + ": returned something although inplace")
        else:
            if ret is None:
                fail(what + ": returned nothing")
            else:
                frames_equal(ret.df, exp, what, strict=False)
            frames_equal(m.df, df, what + ": original list with inplace=False")
        if out != f"{removed} particles were removed.\n":
            fail(what + f": printed {out!r}")
        # repeated call on the cleaned list: nothing within the radius is left
        tgt = m if inplace else ret
        if tgt is not None and len(tgt.df) > 0:
            before = tgt.df.copy(deep=True)
            with contextlib.redirect_stdout(io.StringIO()):
                tgt.clean_by_distance_to_points(points.copy(deep=True), radius, feature_id=feature_id)
            exp2, rem2 = dist_oracle(before, points, radius, feature_id)
            frames_equal(tgt.df, exp2, what + " second call", strict=False)
            if rem2 != 0:
                fail(what + ": second call removed particles")


# ---------------------------------------------------------------------------------------------------------------
# 4. clean_by_tomo_mask
def mask_oracle(df, tomo_list, masks):
    tl = [float(t) for t in np.asarray(tomo_list).tolist()]
    pos = df[["x", "y", "z"]].to_numpy(dtype=float) + df[["shift_x", "shift_y", "shift_z"]].to_numpy(dtype=float)
    remove = np.zeros(len(df), dtype=bool)
    per_tomo = {t: 0 for t in tl}
    for i in range(len(df)):
        t = float(df["tomo_id"].iloc[i])
        if t not in tl:
            continue
        mk = masks[tl.index(t)] if isinstance(masks, list) else masks
        v = np.floor(pos[i]).astype(int)
        if np.all(v >= 0) and np.all(v < np.array(mk.shape)):
            if not (mk[v[0], v[1], v[2]] > 0.5):
                remove[i] = True
                per_tomo[t] += 1
    return df.loc[~remove].reset_index(drop=True), per_tomo


def random_mask(rng, shape, style):
    if style == 0:
        return rng.integers(0, 2, shape)
    if style == 1:
        return rng.choice(np.array([0.0, 0.5, 0.7, 1.0, -1.0, 2.0, 0.5000001]), shape)
    if style == 2:
        return rng.random(shape) < 0.5
    if style == 3:
        return rng.integers(0, 2, shape).astype(np.uint8)
    if style == 4:
        return rng.choice(np.array([0.0, 1.0], dtype=np.float32), shape)
    if style == 5:
        return np.zeros(shape)
    return np.ones(shape, dtype=int)


def check_mask(rng, tmpdir, ntrials):
    for trial in range(ntrials):
        kind = "int" if trial % 5 == 4 else "float"
        nt = int(rng.integers(1, 5))
        tid = rng.choice(np.arange(1, 40), nt, replace=False)
        shapes = {int(t): tuple(int(s) for s in rng.integers(3, 25, 3)) for t in tid}
        single = trial % 4 == 3
        if single:
            shp = tuple(int(s) for s in rng.integers(3, 25, 3))
            shapes = {int(t): shp for t in tid}
        n = [0, 1, 2, 3][trial % 4] if trial < 24 else int(rng.integers(1, 45))
        tomo_ids = rng.choice(tid, n)
        pos = np.zeros((n, 3))
        for i in range(n):
            s = shapes[int(tomo_ids[i])]
            for k in range(3):
                cands = [-1, -0.25, -0.75, 0, 0.25, 0.75, s[k] - 1, s[k] - 0.25, s[k], s[k] + 0.25, s[k] + 5, -20]
                if rng.random() < 0.65:
                    p = grid(rng, 0, s[k] - 1, None, kind)
                else:
                    p = cands[int(rng.integers(0, len(cands)))]
                pos[i, k] = float(np.floor(p)) if kind == "int" else p
        shift = split_shift(rng, pos, kind)
        df = build_motl_df(rng, tomo_ids, pos, shift, kind=kind, index_style=trial % 4, nan_holes=(trial % 3 == 0))
        # listed tomograms: a subset of those with particles (the others must be kept whole), perhaps one without any
        listed = [int(t) for t in tid if rng.random() < 0.8] or [int(tid[0])]
        if trial % 5 == 0:
            listed.append(77)
            shapes[77] = shapes[int(tid[0])] if single else (4, 5, 6)
        listed = [listed[j] for j in rng.permutation(len(listed))]
        style = trial % 7
        if single:
            masks = random_mask(rng, shapes[listed[0]], style)
        else:
            masks = [random_mask(rng, shapes[t], (style + j) % 7) for j, t in enumerate(listed)]
        use_file = (trial % 11 == 5) and not single
        masks_arg = masks
        if use_file:  # masks given as paths to mrc files
            masks_arg = []
            for j, mk in enumerate(masks):
                path = os.path.join(tmpdir, f"mask_{trial}_{j}.mrc")
                cryomap.write(np.asarray(mk).astype(np.float32), path, data_type=np.float32)
                back = cryomap.read(path)
                if back.shape != mk.shape or not np.array_equal(back, np.asarray(mk).astype(np.float32)):
                    masks_arg = None
                    break
                masks_arg.append(path)
            if masks_arg is None:
                masks_arg = masks
        tl_form = trial % 3
        tomo_list = listed if tl_form == 0 else (np.array(listed) if tl_form == 1 else np.array(listed, dtype=float))
        inplace = bool(trial % 3 != 1)
        kwargs = {} if (inplace and trial % 2) else {"inplace": inplace}
        m, ret, out, exc = both("clean_by_tomo_mask", df, (tomo_list, masks_arg), kwargs, f"trial {trial}")
        if exc is not None:
            fail(f"clean_by_tomo_mask trial {trial}: raised {exc!r}")
            continue
        exp, per_tomo = mask_oracle(df, listed, masks)
        what = f"clean_by_tomo_mask trial {trial} (n={n}, tomograms {listed}, single={single}) vs oracle"
        if inplace:
            frames_equal(m.df, exp, what, strict=False)
            if ret is not None:
                fail(what + ": returned something although inplace")
        else:
            if ret is None:
                fail(what + ": returned nothing")
            else:
                frames_equal(ret.df, exp, what, strict=False)
            frames_equal(m.df, df, what + ": original list with inplace=False")
        exp_out = "".join(f"Removed {per_tomo[float(t)]} particles from tomogram #{str(t)}\n" for t in np.asarray(tomo_list))
        if out != exp_out:
            fail(what + f": printed {out!r}, expected {exp_out!r}")
        # repeated call: nothing more sits on a zero voxel
        tgt = m if inplace else ret
        if tgt is not None:
            before = tgt.df.copy(deep=True)
            with contextlib.redirect_stdout(io.StringIO()):
                tgt.clean_by_tomo_mask(copy.deepcopy(tomo_list), copy.deepcopy(masks_arg))
            frames_equal(tgt.df, before, what + " second call")

    # hand-made: -0.3 lies in voxel -1 (outside, kept), 0.3 in voxel 0 (zero voxel, removed), last voxel, first beyond
    pos = np.array([[-0.3, 1, 1], [0.3, 1, 1], [3.9, 2.9, 1.9], [4.0, 1, 1], [1, 3.0, 1], [1, 1, 2.0], [2, 2, 1]])
    df = build_motl_df(rng, np.full(7, 4), pos, np.zeros((7, 3)))
    mk = np.zeros((4, 3, 2))
    mk[2, 2, 1] = 1
    m, _, _, _ = both("clean_by_tomo_mask", df, ([4], mk), {}, "hand-made")
    frames_equal(m.df, df.iloc[[0, 3, 4, 5, 6]].reset_index(drop=True), "clean_by_tomo_mask hand-made")
    # documented error
    m, _, _, exc = both("clean_by_tomo_mask", df, ([4, 5], [mk]), {}, "length mismatch")
    if not isinstance(exc, ValueError):
        fail(f"clean_by_tomo_mask length mismatch: {exc!r}")


# ---------------------------------------------------------------------------------------------------------------
def main():
    rng = np.random.default_rng(20260928)
    np.random.seed(7)
    with tempfile.TemporaryDirectory() as tmpdir:
        check_dimensions_load(rng, tmpdir)
        check_oob(rng, tmpdir, 260)
        check_trim(rng, 260)
        check_dist(rng, 260)
        check_mask(rng, tmpdir, 260)
    print("cases:", COUNTS, "| debug log lines captured:", len(_logbuf.getvalue().splitlines()))
    if FAILS:
        print(f"{len(FAILS)} failure(s)")
        print("FAIL")
        sys.exit(1)
    print("PASS")


if __name__ == "__main__":
    main()
