"""C15 / change b: TiltStack.__init__ split into two private loaders (_load_from_file / _load_from_array).
Checks the tilt-stack property against an independent model and compares the objects built by the tree's constructor
with those built by the original text of the class on the same inputs."""
import sys, os
sys.path.insert(0, os.getcwd())
import io, contextlib, tempfile, itertools, inspect, textwrap, shutil
import numpy as np
import mrcfile

from cryocat import tiltstack, cryomap, ioutils

FAILS = []


def check(cond, msg):
    if not cond:
        FAILS.append(msg)
        if len(FAILS) < 15:
            print("FAIL:", msg)


def quiet(f, *a, **k):
    with contextlib.redirect_stdout(io.StringIO()):
        return f(*a, **k)


def same(a, b, msg, approx=False):
    """identical shape, dtype and values (bitwise unless approx)"""
    a = np.asarray(a)
    b = np.asarray(b)
    if a.shape != b.shape or a.dtype != b.dtype:
        check(False, f"{msg}: shape/dtype {a.shape}/{a.dtype} vs {b.shape}/{b.dtype}")
        return
    if approx:
        check(np.allclose(a, b, rtol=1e-5, atol=1e-5), msg + ": values (approx)")
    else:
        check(np.array_equal(a, b), msg + ": values")


# ---- independent file io (mrcfile directly, never through cryocat) ----------------------------------------------------
def raw_write(path, zyx):
    with mrcfile.new(path, overwrite=True) as m:
        m.set_data(np.ascontiguousarray(zyx))


def raw_read(path):
    with mrcfile.open(path, permissive=True) as m:
        return np.array(m.data, copy=True)


# ---- independent model of the operations, always on n,y,x data ----------------------------------------------------------
def ref_sort(zyx, angles):
    order = sorted(range(len(angles)), key=lambda i: float(angles[i]))
    return np.stack([zyx[i] for i in order], axis=0)


def ref_remove(zyx, idx0):
    keep = [i for i in range(zyx.shape[0]) if i not in set(int(j) for j in idx0)]
    return np.stack([zyx[i] for i in keep], axis=0)


def ref_crop(zyx, nw, nh):
    n, h, w = zyx.shape
    nw = w if nw is None else nw
    nh = h if nh is None else nh
    sw = w // 2 - nw // 2
    sh = h // 2 - nh // 2
    return zyx[:, sh : sh + nh, sw : sw + nw]


def ref_bin(zyx, b, dtype):
    n, h, w = zyx.shape
    H = -(-h // b) * b
    W = -(-w // b) * b
    pad = np.zeros((n, H, W), dtype=np.float64)
    pad[:, :h, :w] = zyx
    s = pad.reshape(n, H // b, b, W // b, b).sum(axis=(2, 4))
    return (s / float(b * b)).astype(dtype)


def ref_flip(zyx, axes):
    ax = {"x": 1, "y": 2, "z": 0}  # IMOD clip flipx reverses the rows, flipy the columns, flipz the sections
    out = zyx
    for a in axes:
        out = np.flip(out, axis=ax[a])
    return out


def to_order(zyx, order):
    return zyx if order == "zyx" else zyx.transpose(2, 1, 0)


# ---- the property ------------------------------------------------------------------------------------------------------
def run_property(seed=2024, n_cases=36):
    rng = np.random.default_rng(seed)
    tmp = tempfile.mkdtemp(prefix="c15demo_")
    counter = itertools.count()
    try:
        sizes = [(2, 4, 5), (25, 40, 39), (3, 5, 4), (2, 40, 4), (7, 4, 40)]
        while len(sizes) < n_cases:
            n = int(rng.integers(2, 26))
            h = int(rng.integers(4, 41))
            w = int(rng.integers(4, 41))
            if h == w:
                w = w + 1 if w < 40 else w - 1
            sizes.append((n, h, w))
        for ci, (n, h, w) in enumerate(sizes):
            dtype = [np.float32, np.int16][ci % 2]
            if dtype is np.int16:
                zyx = rng.integers(-3000, 3000, size=(n, h, w)).astype(np.int16)
            elif ci % 4 == 0:
                zyx = rng.integers(-500, 500, size=(n, h, w)).astype(np.float32)
            else:
                zyx = rng.normal(0, 50, size=(n, h, w)).astype(np.float32)
            in_file = os.path.join(tmp, f"in_{ci}.mrc")
            raw_write(in_file, zyx)
            # tilt angles: any order, no ties (also none after a float32 round trip)
            angles = rng.permutation(np.arange(-n, n + 1))[:n] * 3.0 + rng.integers(-9, 10, size=n) / 10.0
            if ci % 5 == 1:
                angles = np.sort(angles)  # already sorted
            if ci % 5 == 2:
                angles = np.sort(angles)[::-1].copy()  # reversed
            tlt_file = os.path.join(tmp, f"a_{ci}.tlt")
            np.savetxt(tlt_file, angles, fmt="%.2f")
            k = int(rng.integers(1, n))  # removes 1..n-1 tilts
            idx0 = rng.permutation(n)[:k]
            if ci % 3 == 0:
                idx0 = np.sort(idx0)
            idx_file = None
            if k >= 2:
                idx_file = os.path.join(tmp, f"idx_{ci}.txt")
                np.savetxt(idx_file, idx0 + 1, fmt="%d")
            nw = int(rng.integers(1, w + 1))
            nh = int(rng.integers(1, h + 1))
            b = int(rng.integers(1, 5))
            flips = [["x"], ["y"], ["z"], ["x", "y"], ["z", "x"], "x", "y"][ci % 7]

            ops = []  # (name, callable(ts_input, **orders, output_file), reference in zyx, approx)
            ops.append(("sort/array-angles", lambda t, **k_: tiltstack.sort_tilts_by_angle(t, angles.copy(), **k_), ref_sort(zyx, angles), False))
            ops.append(("sort/list-angles", lambda t, **k_: tiltstack.sort_tilts_by_angle(t, [float(x) for x in angles], **k_), ref_sort(zyx, angles), False))
            ops.append(("sort/file-angles", lambda t, **k_: tiltstack.sort_tilts_by_angle(t, tlt_file, **k_), ref_sort(zyx, angles), False))
            ops.append(("remove/1-based list", lambda t, **k_: tiltstack.remove_tilts(t, [int(i) + 1 for i in idx0], **k_), ref_remove(zyx, idx0), False))
            ops.append(("remove/0-based array", lambda t, **k_: tiltstack.remove_tilts(t, idx0.copy(), numbered_from_1=False, **k_), ref_remove(zyx, idx0), False))
            ops.append(("remove/1-based array", lambda t, **k_: tiltstack.remove_tilts(t, idx0 + 1, numbered_from_1=True, **k_), ref_remove(zyx, idx0), False))
            if idx_file:
                ops.append(("remove/1-based file", lambda t, **k_: tiltstack.remove_tilts(t, idx_file, **k_), ref_remove(zyx, idx0), False))
                ops.append(("remove/0-based file", lambda t, **k_: tiltstack.remove_tilts(t, idx_file, numbered_from_1=False, **k_), ref_remove(zyx, idx0 + 1) if (idx0 + 1).max() < n else None, False))
            ops.append(("crop", lambda t, **k_: tiltstack.crop(t, new_width=nw, new_height=nh, **k_), ref_crop(zyx, nw, nh), False))
            ops.append(("crop/width only", lambda t, **k_: tiltstack.crop(t, new_width=nw, **k_), ref_crop(zyx, nw, None), False))
            ops.append(("crop/none", lambda t, **k_: tiltstack.crop(t, **k_), zyx, False))
            ops.append(("bin", lambda t, **k_: tiltstack.bin(t, b, **k_), ref_bin(zyx, b, dtype), dtype is np.float32))
            ops.append(("flip once", lambda t, **k_: tiltstack.flip_along_axes(t, flips, **k_), ref_flip(zyx, flips), False))

            for name, f, ref, approx in ops:
                if ref is None:
                    continue
                for io_, oo in itertools.product(["xyz", "zyx"], repeat=2):
                    for as_file in (False, True):
                        if as_file and io_ == "zyx" and (ci % 2):
                            continue  # input_order is irrelevant for files; still exercised on even cases
                        for write in (False, True):
                            arr_in = np.array(to_order(zyx, io_), copy=True) if not as_file else None
                            keep = None if as_file else arr_in.copy()
                            t = in_file if as_file else arr_in
                            out_file = os.path.join(tmp, f"out_{next(counter)}.mrc") if write else None
                            tag = f"case {ci} {zyx.shape} {dtype.__name__} {name} in={io_} out={oo} file={as_file} write={write}"
                            res = quiet(f, t, input_order=io_, output_order=oo, output_file=out_file)
                            same(res, to_order(ref, oo), tag + " returned", approx)
                            if write:
                                same(raw_read(out_file), ref, tag + " written", approx)
                                os.remove(out_file)
                            if not as_file:
                                check(np.array_equal(arr_in, keep), tag + " input array modified")
                                # repeated call on the same object
                                res2 = quiet(f, t, input_order=io_, output_order=oo, output_file=None)
                                same(res2, res, tag + " repeated call")
                            else:
                                same(raw_read(in_file), zyx, tag + " input file changed")

            # flipping twice is the identity; even/odd interleave back
            for io_, oo in itertools.product(["xyz", "zyx"], repeat=2):
                for as_file in (False, True):
                    t = in_file if as_file else np.array(to_order(zyx, io_), copy=True)
                    tag = f"case {ci} {zyx.shape} {dtype.__name__} in={io_} out={oo} file={as_file}"
                    for a in ("x", "y", "z"):
                        of = os.path.join(tmp, f"flip_{next(counter)}.mrc")
                        once = quiet(tiltstack.flip_along_axes, t, a, output_file=of, input_order=io_, output_order=oo)
                        twice_arr = quiet(tiltstack.flip_along_axes, once, [a], input_order=oo, output_order=oo)
                        twice_file = quiet(tiltstack.flip_along_axes, of, [a], input_order=io_, output_order=oo)
                        same(twice_arr, to_order(zyx, oo), tag + f" flip {a} twice (array)")
                        same(twice_file, to_order(zyx, oo), tag + f" flip {a} twice (file)")
                        os.remove(of)
                    pref = os.path.join(tmp, f"eo_{next(counter)}") if (ci + as_file) % 2 else None
                    ev, od = quiet(tiltstack.split_stack_even_odd, t, output_file_prefix=pref, input_order=io_, output_order=oo)
                    ev_z, od_z = to_order(ev, oo), to_order(od, oo)  # transpose(2,1,0) is an involution
                    check(ev_z.shape[0] == (n + 1) // 2 and od_z.shape[0] == n // 2, tag + " even/odd counts")
                    back = np.empty_like(zyx)
                    back[0::2] = ev_z
                    back[1::2] = od_z
                    same(back, zyx, tag + " even/odd interleave")
                    check(ev.dtype == zyx.dtype and od.dtype == zyx.dtype, tag + " even/odd dtype")
                    if pref:
                        same(raw_read(pref + "_even.mrc"), zyx[0::2], tag + " even file")
                        same(raw_read(pref + "_odd.mrc"), zyx[1::2], tag + " odd file")
    finally:
        shutil.rmtree(tmp, ignore_errors=True)


def finish():
    if FAILS:
        print(f"FAIL ({len(FAILS)} failed checks)")
        sys.exit(1)
    print("PASS")
    sys.exit(0)


ORIG_CLASS = """
class TiltStack:

    def __init__(self, tilt_stack, input_order="xyz", output_order="xyz"):

        if not isinstance(tilt_stack, np.ndarray):  # if loading necessary, load in zyx
            self.data = cryomap.read(tilt_stack, transpose=False)
            if self.data.shape == 2:
                self.data = np.expand_dims(
                    self.data, axis=0
                )  # ensure that it will always have three dimensions, for z=1 mrc returns 2d array
        else:
            self.data = tilt_stack.copy()
            if self.data.shape == 2:
                if input_order == "xyz":
                    self.data = np.expand_dims(self.data, axis=2)  # ensure that it will always have three dimensions
                else:
                    self.data = np.expand_dims(self.data, axis=0)  # ensure that it will always have three dimensions

            if input_order == "xyz":
                self.data = self.data.transpose(2, 1, 0)

        self.data_type = self.data.dtype

        self.input_order = input_order
        self.current_order = "zyx"
        self.output_order = output_order

        self.n_tilts, self.height, self.width = self.data.shape

    def write_out(self, output_file, new_data=None):
        if output_file:
            data_to_write = new_data if new_data is not None else self.data
            cryomap.write(data_to_write, output_file, data_type=self.data_type, transpose=False)

    def correct_order(self, new_data=None):
        return_data = new_data if new_data is not None else self.data

        if return_data.dtype != self.data_type:
            return_data = return_data.astype(self.data_type)

        if self.current_order != self.output_order:
            return return_data.transpose(2, 1, 0)
        else:
            return return_data
"""


def arr_desc(r):
    return (r.shape, r.dtype.str, r.strides, r.flags.writeable, r.flags.owndata, r.flags.c_contiguous,
            r.flags.f_contiguous, r.tobytes())


def describe(cls, src, *a, **k):
    try:
        ts = cls(src, *a, **k)
    except Exception as e:
        return ("raise", type(e).__name__)
    shares = isinstance(src, np.ndarray) and np.shares_memory(ts.data, src)
    state = {k_: v for k_, v in vars(ts).items() if k_ != "data"}
    out = ts.correct_order()
    return ("ok", arr_desc(ts.data), shares, sorted((k_, repr(v)) for k_, v in state.items()), arr_desc(out),
            arr_desc(ts.correct_order(ts.data[:1].astype(np.float64))))


def compare_constructor():
    ns = dict(vars(tiltstack))
    exec(ORIG_CLASS, ns)
    Orig = ns["TiltStack"]
    New = tiltstack.TiltStack
    rng = np.random.default_rng(11)
    tmp = tempfile.mkdtemp(prefix="c15b_")
    n_cmp = 0
    try:
        shapes = [(2, 4, 5), (25, 40, 39), (3, 7, 7), (1, 5, 6), (2, 3, 1), (6, 5), (4,), (2, 3, 4, 5)]
        for dt in (np.float32, np.int16, np.float64, np.uint8):
            for shape in shapes:
                d = (rng.normal(0, 30, size=shape)).astype(dt)
                variants = [d, np.asfortranarray(d), d[::-1], d.T if d.ndim == 3 else d]
                for v in variants:
                    for io_, oo in itertools.product(["xyz", "zyx", "yxz"], ["xyz", "zyx"]):
                        keep = v.copy()
                        a = describe(New, v, input_order=io_, output_order=oo)
                        b = describe(Orig, v, input_order=io_, output_order=oo)
                        check(a == b, f"constructor differs: array {dt.__name__} {shape} in={io_} out={oo}")
                        check(np.array_equal(v, keep), "constructor changed its input")
                        n_cmp += 1
                if d.ndim in (2, 3) and dt is not np.float64:
                    path = os.path.join(tmp, "s.mrc")
                    raw_write(path, d)
                    for io_, oo in itertools.product(["xyz", "zyx"], repeat=2):
                        a = describe(New, path, input_order=io_, output_order=oo)
                        b = describe(Orig, path, input_order=io_, output_order=oo)
                        check(a == b, f"constructor differs: file {dt.__name__} {shape} in={io_} out={oo}")
                        n_cmp += 1
        # defaults and positional use, unsupported inputs
        d = rng.normal(size=(3, 4, 5)).astype(np.float32)
        check(describe(New, d) == describe(Orig, d), "defaults differ")
        check(describe(New, d, "zyx", "zyx") == describe(Orig, d, "zyx", "zyx"), "positional use differs")
        for bad in (None, 5, [[1, 2], [3, 4]], os.path.join(tmp, "missing.mrc"), os.path.join(tmp, "x.txt")):
            check(describe(New, bad) == describe(Orig, bad), f"failure mode differs for {bad!r}")
        # the public interface of the class is unchanged
        for name in ("write_out", "correct_order"):
            check(str(inspect.signature(getattr(New, name))) == str(inspect.signature(getattr(Orig, name))), name + " signature")
        check(str(inspect.signature(New.__init__)) == str(inspect.signature(Orig.__init__)), "__init__ signature")
        print("constructor comparisons:", n_cmp)
    finally:
        shutil.rmtree(tmp, ignore_errors=True)


if __name__ == "__main__":
    import warnings
    warnings.filterwarnings("ignore", category=SyntaxWarning)
    run_property()
    compare_constructor()
    finish()
