"""C06 demo (b): rotation geometry primitives agree with SO(3) ground truth, and the functions of the worktree give
bit-identical results to the original functions (text kept below) on the same inputs, also on repeated calls after the
inputs were edited in place.  Run: cd /tmp/wt6/C06 && /venv/bin/python <this file>"""
import os
import sys

sys.path.insert(0, os.getcwd())

ORIG_SRC = r'''
def compare_rotations(angles1, angles2, c_symmetry=1, rotation_type="all"):
    """Compare the rotations between two sets of angles.

    Parameters
    ----------
    angles1 : list
        The first set of angles.
    angles2 : list
        The second set of angles.
    c_symmetry : int
        The degree of rotational symmetry. Defaults to 1.

    Returns
    -------
    tuple
        A tuple containing the following distances:
        - dist_degrees (float): The overall angular distance between the two sets of angles.
        - dist_degrees_normals (float): The angular distance between the normal vectors of the two sets of angles.
        - dist_degrees_inplane (float): The angular distance within the plane of rotation between the two sets of angles.

    """

    dist_degrees = angular_distance(angles1, angles2, c_symmetry=c_symmetry)[0]
    dist_degrees_normals, dist_degrees_inplane = cone_inplane_distance(angles1, angles2, c_symmetry=c_symmetry)

    if rotation_type == "all":
        return dist_degrees, dist_degrees_normals, dist_degrees_inplane
    elif rotation_type == "angular_distance":
        return dist_degrees
    elif rotation_type == "cone_distance":
        return dist_degrees_normals
    elif rotation_type == "in_plane_distance":
        return dist_degrees_inplane
    else:
        raise UserInputError(f"The rotation type {rotation_type} is not supported.")

def euler_angles_to_normals(angles):
    """Compute normal vectors pointing in z-direction from Euler angles.

    Parameers
    ---------
    angles : ndarray (n,3)
        n triplets of Euler angles

    Returns
    -------
    ndarray (n,3)
        Unit length z-normal vectors associated to input Euler angles.
    """
    points = visualize_angles(angles, plot_rotations=False)
    n_length = np.linalg.norm(points, axis=1, keepdims=True)
    normalized_normal_vectors = points / n_length

    return normalized_normal_vectors


def normals_to_euler_angles(input_normals, output_order="zxz"):
    """Given normal vectors pointing in z-direction in particle frames,
    compute choice of Euler angles.

    Parameters
    ----------
    input_normals : ndarray, pandas dataFrame
        z-normal vectors
    output_order : str, optional
        Euler angle convention. Defaults to "zxz".

    Raises
    ------
    UserInputError
        input_normals have to be either pandas dataFrame or numpy array.

    Returns
    -------
    ndarray : (n,3)
        n triplets of Euler angles in choses convention.
    """
    if isinstance(input_normals, pd.DataFrame):
        normals = input_normals.loc[:, ["x", "y", "z"]].values
    elif isinstance(input_normals, np.ndarray):
        normals = input_normals
    else:
        raise UserInputError("The input_normals have to be either pandas dataFrame or numpy array")

    # normalize vectors
    normals = normals / np.linalg.norm(normals, axis=1)[:, np.newaxis]
    theta = np.degrees(np.arctan2(np.sqrt(normals[:, 0] ** 2 + normals[:, 1] ** 2), normals[:, 2]))

    psi = 90 + np.degrees(np.arctan2(normals[:, 1], normals[:, 0]))
    b_idx = np.where((normals[:, 0] == 0) & (normals[:, 1] == 0))
    psi[b_idx] = 0

    phi = np.random.rand(normals.shape[0]) * 360

    if output_order == "zzx":
        angles = np.column_stack((phi, psi, theta))
    else:
        angles = np.column_stack((phi, theta, psi))

    return angles

def cone_distance(input_rot1, input_rot2):
    """Compute great-circle distance between z-normals corresponding to orientations
    as represented by input rotations. This corresponds to angular distance between cone-rotation
    portions of respective input rotations.

    Parameters
    ----------
    input_rot1 : scipy.spatial.transform.Rotation object
        Rotation object describing orientation of particle
    input_rot2 : scipy.spatial.transform.Rotation object
        Rotation object describing orientation of particle

    Returns
    -------
    float
        cone-distance in degrees
    """
    point = [0, 0, 1.0]

    vec1 = np.array(input_rot1.apply(point), ndmin=2)
    vec2 = np.array(input_rot2.apply(point), ndmin=2)

    vec1_n = np.linalg.norm(vec1, axis=1)
    vec1 = vec1 / vec1_n[:, np.newaxis]
    vec2_n = np.linalg.norm(vec2, axis=1)
    vec2 = vec2 / vec2_n[:, np.newaxis]
    cone_angle = np.degrees(np.arccos(np.maximum(np.minimum(np.sum(vec1 * vec2, axis=1), 1.0), -1.0)))

    return cone_angle


def get_axis_from_rotation(input_rotation, axis="z"):
    """Given an input rotation, compute the desired unit normal vector
    from the coordinate frame associated to the rotation.

    Parameters
    ----------
    input_rotation : scipy.spatial.transform.Rotation object
        Rotation object describing orientation of particle
    axis : str, optional
        Desired coordinate direction. Defaults to "z".

    Raises
    ------
    ValueError
        Input must be valid scipy rotation object.

    Returns
    -------
    ndarray
        unit vector
    """

    matrix_rep = input_rotation.as_matrix()

    axes_dict = {"x": 0, "y": 1, "z": 2}

    if matrix_rep.shape == (3, 3):  # Single (3, 3) matrix
        ret_axis = matrix_rep[:, axes_dict[axis]]  # Extract column 1 for a single matrix
    elif matrix_rep.shape[1:] == (3, 3):  # Multiple (N, 3, 3) matrices
        ret_axis = matrix_rep[:, :, axes_dict[axis]]  # Extract column 1 for each (N, 3, 3) matrix
    else:
        raise ValueError("Input must be valid scipy rotation object.")

    return ret_axis


def inplane_distance(input_rot1, input_rot2, convention="zxz", degrees=True, c_symmetry=1):
    """Compute the angular distance between inplane-rotation portion of two given rotations.

    Parameters
    ----------
    input_rot1 : scipy.spatial.transform.Rotation object
        Rotation object describing orientation of particle.
    input_rot2 : scipy.spatial.transform.Rotation object
        Rotation object describing orientation of particle.
    convention : str, optional
        Euler angle convention. Defaults to "zxz".
    degrees : bool, optional
        Return angular distance in degrees (True) or radians (False). Defaults to True.
    c_symmetry : int, optional
        Rotational symmetry of underlying particles. Defaults to 1.

    Returns
    -------
    float
        Angular distance between inplane rotations.
    """
    phi1 = np.array(input_rot1.as_euler(convention, degrees=degrees), ndmin=2)[:, 0]
    phi2 = np.array(input_rot2.as_euler(convention, degrees=degrees), ndmin=2)[:, 0]

    # Remove flot precision errors during conversion
    phi1 = np.where(abs(phi1) < ANGLE_DEGREES_TOL, 0.0, phi1)
    phi2 = np.where(abs(phi2) < ANGLE_DEGREES_TOL, 0.0, phi2)

    # From Scipy the phi is from [-180,180] -> change to [0.0,360]
    phi1 += 180.0
    phi2 += 180.0

    # Get the angular range for symmetry and divide the angles to be only in that range
    if c_symmetry > 1:
        sym_div = 360.0 / c_symmetry
        phi1 = np.mod(phi1, sym_div)
        phi2 = np.mod(phi2, sym_div)

    inplane_angle = np.abs(phi1 - phi2)

    inplane_angle = np.where(inplane_angle > 180.0, np.abs(inplane_angle - 360.0), inplane_angle)

    return inplane_angle


def cone_inplane_distance(input_rot1, input_rot2, convention="zxz", degrees=True, c_symmetry=1):
    """Compute angular distance between cone-rotations and inplane-rotations, respectively.

    Parameters
    ----------
    input_rot1 : scipy.spatial.transform.Rotation object
        Rotation object describing orientation of particle.
    input_rot2 : scipy.spatial.transform.Rotation object
        Rotation object describing orientation of particle.
    convention : str, optional
        Euler angle convention. Defaults to "zxz".
    degrees :bool, optional
        Return angular distance in degrees (True) or radians (False). Defaults to True.
    c_symmetry : int, optional
        Rotational symmetry of underlying particles. Defaults to 1.

    Returns
    -------
    float
        Angular distance between cone-rotations
    float
        angular distance between inplane rotations.
    """
    if isinstance(input_rot1, np.ndarray):
        rot1 = srot.from_euler(convention, input_rot1, degrees=degrees)
    else:
        rot1 = input_rot1

    if isinstance(input_rot2, np.ndarray):
        rot2 = srot.from_euler(convention, input_rot2, degrees=degrees)
    else:
        rot2 = input_rot2

    cone_angle = cone_distance(rot1, rot2)
    inplane_angle = inplane_distance(rot1, rot2, convention, degrees, c_symmetry)

    return cone_angle, inplane_angle


def angular_distance(input_rot1, input_rot2, convention="zxz", degrees=True, c_symmetry=1):
    """Compute angular distance between two rotations. 
    Formula is based on this post
    https://math.stackexchange.com/questions/90081/quaternion-distance

    Parameters
    ----------
    input_rot1 : scipy.spatial.transform.Rotation object
        Rotation object describing orientation of particle.
    input_rot2 : scipy.spatial.transform.Rotation object
        Rotation object describing orientation of particle.
    convention : str, optional
        Euler angle convention. Defaults to "zxz".
    degrees : bool, optional
        Return angular distance in degrees (True) or radians (False). Defaults to True.
    c_symmetry : int, optional
        Rotational symmetry of underlying particles. Defaults to 1.

    Returns
    -------
    float
        Angular distance between input rotations.

    Examples
    --------
    >>> rot1 = srot.from_euler("zxz", [0, 0, 0], degrees=True)
    >>> rot2 = srot.from_euler("zxz", [45, 45, 0], degrees=True)
    >>> angular_distance(rot1, rot2)
    45.0
    """

    if isinstance(input_rot1, np.ndarray):
        rot1 = srot.from_euler(convention, input_rot1, degrees=degrees)
    else:
        rot1 = input_rot1

    if isinstance(input_rot2, np.ndarray):
        rot2 = srot.from_euler(convention, input_rot2, degrees=degrees)
    else:
        rot2 = input_rot2

    if c_symmetry > 1:
        angles1 = rot1.as_euler(convention, degrees=degrees)
        angles2 = rot2.as_euler(convention, degrees=degrees)
        sym_div = 360.0 / c_symmetry
        angles1[:, 0] = np.mod(angles1[:, 0], sym_div)
        angles2[:, 0] = np.mod(angles2[:, 0], sym_div)
        rot1 = srot.from_euler(convention, angles1, degrees=degrees)
        rot2 = srot.from_euler(convention, angles2, degrees=degrees)

    q1 = np.array(rot1.as_quat(), ndmin=2)
    q2 = np.array(rot2.as_quat(), ndmin=2)

    if q1.shape != q2.shape:
        print("The size of input rotations differ!!!")
        return

    angle = np.degrees(2 * np.arccos(np.clip(np.abs(np.sum(q1 * q2, axis=1)), 0.0, 1.0)))
    angle = angle.astype(float)

    dist = 1 - np.power(np.sum(q1 * q2, 1), 2)

    dist[dist < 10e-8] = 0

    return angle, dist

def visualize_rotations(
    rotations,
    plot_rotations=True,
    color_map=None,
    marker_size=20,
    alpha=1.0,
    radius=1.0,
):
    """Compute z-normals of input rotations. 
    If desried, generate plot depicting z-normals of input rotations.

    Parameters
    ----------
    rotations : array of scipy.spatial.transform.Rotation objects
        Orientations to be visualized
    plot_rotations : bool, optional
        If True, plot is generated. Defaults to True.
    color_map : str, optional
        Specify colormap for plot. Defaults to None.
    marker_size : int, optional
        Specify marker size for plot. Defaults to 20.
    alpha : float, optional
        Specify alpha parameter for plot. Defaults to 1.0.
    radius : float, optional
        Specify size of sphere for visualization. Defaults to 1.0.

    Returns
    -------
    ndarray (n,3)
        Array of z-normals.
    """
    starting_point = np.array([0.0, 0.0, radius])
    new_points = np.array(rotations.apply(starting_point), ndmin=2)

    if plot_rotations:
        fig = plt.figure()
        ax = fig.add_subplot(projection="3d")

        if color_map is None:
            ax.scatter(
                new_points[:, 0],
                new_points[:, 1],
                new_points[:, 2],
                s=marker_size,
                alpha=alpha,
            )
        else:
            ax.scatter(
                new_points[:, 0],
                new_points[:, 1],
                new_points[:, 2],
                s=marker_size,
                alpha=alpha,
                c=color_map,
            )
            # plt.colorbar(color_map)

        ax.set_xlim3d(-radius, radius)
        ax.set_ylim3d(-radius, radius)
        ax.set_zlim3d(-radius, radius)

    return new_points

def visualize_angles(angles, plot_rotations=True, color_map=None):
    """Compute z-normals of input orientations as described using Euler angles in zxz-convention. 
    If desried, generate plot depicting z-normals of input orientations.
    
    Parameters
    ---------- 
    angles : ndarray (n, 3) 
        Array of triplets of Euler angles in zxz-convention.
    plot_rotations : bool, optional
        If True, plot is generated. Defaults to True.
    color_map : str, optional
        Specify colormap for plot. Defaults to None.

    Returns
    -------
    ndarray (n,3)
        Array of z-normals.
    """
    rotations = srot.from_euler("zxz", angles=angles, degrees=True)
    new_points = visualize_rotations(rotations, plot_rotations, color_map)

    return new_points

'''

# --------------------------------------------------------------------------------------------------------------
# namespace with the ORIGINAL functions (text above), independent of the cryocat package in the worktree
# --------------------------------------------------------------------------------------------------------------
import inspect
import warnings

import numpy as np
import pandas as pd
import matplotlib

matplotlib.use("Agg")
import matplotlib.pyplot as plt
from scipy.spatial.transform import Rotation as srot

warnings.filterwarnings("ignore")

from cryocat import geom
from cryocat.exceptions import UserInputError

ORIG = {
    "np": np,
    "pd": pd,
    "srot": srot,
    "plt": plt,
    "UserInputError": UserInputError,
    "ANGLE_DEGREES_TOL": 10e-12,
}
exec(compile(ORIG_SRC, "<original geom functions>", "exec"), ORIG)

TOL = 1e-4  # degrees; acos-based formulas are ill-conditioned near 0 and 180 degrees
FAILS = []
NCHECK = [0]


def check(cond, msg):
    NCHECK[0] += 1
    if not cond:
        FAILS.append(msg)
        if len(FAILS) < 30:
            print("FAIL:", msg)


def same(a, b):
    """bit-for-bit equality of (tuples of) arrays / scalars / None"""
    if a is None or b is None:
        return a is None and b is None
    if isinstance(a, tuple) or isinstance(b, tuple):
        return isinstance(a, tuple) and isinstance(b, tuple) and len(a) == len(b) and all(same(x, y) for x, y in zip(a, b))
    a = np.asarray(a)
    b = np.asarray(b)
    return a.shape == b.shape and a.dtype == b.dtype and np.array_equal(a, b, equal_nan=True)


# --------------------------------------------------------------------------------------------------------------
# independent ground truth
# --------------------------------------------------------------------------------------------------------------
def Rz(a):
    c, s = np.cos(np.radians(a)), np.sin(np.radians(a))
    return np.array([[c, -s, 0.0], [s, c, 0.0], [0.0, 0.0, 1.0]])


def Rx(a):
    c, s = np.cos(np.radians(a)), np.sin(np.radians(a))
    return np.array([[1.0, 0.0, 0.0], [0.0, c, -s], [0.0, s, c]])


def mat_zxz(angles):
    """extrinsic zxz(phi, theta, psi): R = Rz(psi) Rx(theta) Rz(phi), written out by hand"""
    angles = np.atleast_2d(angles)
    return np.stack([Rz(p3) @ Rx(th) @ Rz(p1) for p1, th, p3 in angles])


def true_angle(m1, m2):
    """rotation angle of m1^T m2 in degrees, well conditioned everywhere (atan2 of skew part and trace)"""
    rel = np.einsum("nji,njk->nik", m1, m2)
    tr = np.trace(rel, axis1=1, axis2=2)
    skew = np.stack([rel[:, 2, 1] - rel[:, 1, 2], rel[:, 0, 2] - rel[:, 2, 0], rel[:, 1, 0] - rel[:, 0, 1]], axis=1)
    s = np.linalg.norm(skew, axis=1) / 2.0
    c = (tr - 1.0) / 2.0
    ang = np.degrees(np.arctan2(s, c))
    return ang


def true_vec_angle(v1, v2):
    cr = np.linalg.norm(np.cross(v1, v2), axis=1)
    dt = np.sum(v1 * v2, axis=1)
    return np.degrees(np.arctan2(cr, dt))


# --------------------------------------------------------------------------------------------------------------
# inputs inside the quantifier
# --------------------------------------------------------------------------------------------------------------
rng = np.random.default_rng(20260928)


def cube_rotations():
    mats = []
    import itertools

    for perm in itertools.permutations(range(3)):
        for signs in itertools.product([1.0, -1.0], repeat=3):
            m = np.zeros((3, 3))
            for i, (p, s) in enumerate(zip(perm, signs)):
                m[i, p] = s
            if np.linalg.det(m) > 0:
                mats.append(m)
    assert len(mats) == 24
    return srot.from_matrix(np.stack(mats)).as_euler("zxz", degrees=True)


def lattice45():
    g = np.arange(-180.0, 180.0, 45.0)
    th = np.arange(0.0, 181.0, 45.0)
    return np.array([[a, b, c] for a in g for b in th for c in g])


def random_angles(n):
    return np.column_stack([rng.uniform(-180, 180, n), rng.uniform(0, 180, n), rng.uniform(-180, 180, n)])


def gimbal(n):
    a = random_angles(n)
    a[:, 1] = rng.choice([0.0, 180.0], n)
    return a


def angle_sets():
    sets = {}
    for n in (1, 2, 3, 7, 50, 500):
        sets[f"random{n}"] = random_angles(n)
    sets["gimbal"] = gimbal(40)
    sets["cube24"] = cube_rotations()
    sets["lattice45"] = lattice45()
    return sets


def partner_sets(a):
    """second orientation sets of the same batch size: random, identical, nearly identical, antipodal (180 degrees)"""
    n = a.shape[0]
    out = {"random": random_angles(n), "equal": a.copy()}
    ra = srot.from_euler("zxz", a, degrees=True)
    tiny = srot.from_rotvec(rng.normal(size=(n, 3)) * 1e-7)
    out["near"] = np.atleast_2d((ra * tiny).as_euler("zxz", degrees=True))
    ax = rng.normal(size=(n, 3))
    ax /= np.linalg.norm(ax, axis=1, keepdims=True)
    out["antipodal"] = np.atleast_2d((ra * srot.from_rotvec(ax * np.pi)).as_euler("zxz", degrees=True))
    out["perm"] = a[rng.permutation(n)]
    return out


# --------------------------------------------------------------------------------------------------------------
# the property, checked on the package functions against ground truth, and patched == original
# --------------------------------------------------------------------------------------------------------------
def check_pair(tag, a1, a2):
    m1, m2 = mat_zxz(a1), mat_zxz(a2)
    r1 = srot.from_euler("zxz", a1, degrees=True)
    r2 = srot.from_euler("zxz", a2, degrees=True)
    truth = true_angle(m1, m2)

    for form, (x1, x2) in {"euler": (a1, a2), "rot": (r1, r2), "mixed": (a1, r2)}.items():
        res = geom.angular_distance(x1, x2)
        ang = res[0]
        check(ang.shape == (a1.shape[0],), f"{tag}/{form}: angular_distance shape")
        check(np.all((ang >= 0.0) & (ang <= 180.0)), f"{tag}/{form}: angular_distance outside [0,180]")
        check(np.allclose(ang, truth, atol=TOL, rtol=0), f"{tag}/{form}: angular_distance != rotation angle of relative rotation")
        sym = geom.angular_distance(x2, x1)[0]
        check(np.allclose(ang, sym, atol=1e-9, rtol=0), f"{tag}/{form}: angular_distance not symmetric")
        check(same(res, ORIG["angular_distance"](x1, x2)), f"{tag}/{form}: angular_distance differs from original")

        cone = geom.cone_distance(srot.from_euler("zxz", a1, degrees=True), r2) if form == "mixed" else None
        ci = geom.cone_inplane_distance(x1, x2)
        check(np.allclose(ci[0], true_vec_angle(m1[:, :, 2], m2[:, :, 2]), atol=TOL, rtol=0), f"{tag}/{form}: cone distance != angle between z-axes")
        check(np.all((ci[1] >= 0.0) & (ci[1] <= 180.0)), f"{tag}/{form}: inplane distance outside [0,180]")
        check(same(ci, ORIG["cone_inplane_distance"](x1, x2)), f"{tag}/{form}: cone_inplane_distance differs from original")
        if cone is not None:
            check(same(cone, ci[0]), f"{tag}: cone_distance != cone part of cone_inplane_distance")
            check(same(cone, ORIG["cone_distance"](r1, r2)), f"{tag}: cone_distance differs from original")
            check(same(geom.inplane_distance(r1, r2), ORIG["inplane_distance"](r1, r2)), f"{tag}: inplane_distance differs from original")
            check(same(geom.inplane_distance(r1, r2), ci[1]), f"{tag}: inplane_distance != inplane part of cone_inplane_distance")

        for rt in ("all", "angular_distance", "cone_distance", "in_plane_distance"):
            check(same(geom.compare_rotations(x1, x2, rotation_type=rt), ORIG["compare_rotations"](x1, x2, rotation_type=rt)), f"{tag}/{form}: compare_rotations({rt}) differs from original")
        cr = geom.compare_rotations(x1, x2)
        check(same(cr, (ang, ci[0], ci[1])), f"{tag}/{form}: compare_rotations != (angular, cone, inplane)")

    # c_symmetry variants: only patched == original (batches of Euler angles; 2-D as the code requires)
    for cs in (1, 2, 3, 4, 6):
        check(same(geom.angular_distance(a1, a2, c_symmetry=cs), ORIG["angular_distance"](a1, a2, c_symmetry=cs)), f"{tag}: angular_distance c{cs} differs from original")
        check(same(geom.angular_distance(r1, r2, "zxz", True, cs), ORIG["angular_distance"](r1, r2, "zxz", True, cs)), f"{tag}: angular_distance positional c{cs} differs from original")
        check(same(geom.cone_inplane_distance(a1, a2, c_symmetry=cs), ORIG["cone_inplane_distance"](a1, a2, c_symmetry=cs)), f"{tag}: cone_inplane_distance c{cs} differs from original")
        check(same(geom.cone_inplane_distance(r1, r2, "zxz", True, cs), ORIG["cone_inplane_distance"](r1, r2, "zxz", True, cs)), f"{tag}: cone_inplane_distance positional c{cs} differs")
        check(same(geom.inplane_distance(r1, r2, "zxz", True, cs), ORIG["inplane_distance"](r1, r2, "zxz", True, cs)), f"{tag}: inplane_distance c{cs} differs from original")
        check(same(geom.compare_rotations(a1, a2, cs), ORIG["compare_rotations"](a1, a2, cs)), f"{tag}: compare_rotations positional c{cs} differs from original")
        check(same(geom.compare_rotations(r1, r2, c_symmetry=cs, rotation_type="in_plane_distance"), ORIG["compare_rotations"](r1, r2, c_symmetry=cs, rotation_type="in_plane_distance")), f"{tag}: compare_rotations c{cs} differs")
    # other Euler conventions of the distance functions
    for conv in ("zyz", "ZXZ", "xyz"):
        b1 = np.atleast_2d(r1.as_euler(conv, degrees=True))
        b2 = np.atleast_2d(r2.as_euler(conv, degrees=True))
        res = geom.angular_distance(b1, b2, convention=conv)
        check(np.allclose(res[0], truth, atol=TOL, rtol=0), f"{tag}: angular_distance({conv}) != rotation angle")
        check(same(res, ORIG["angular_distance"](b1, b2, convention=conv)), f"{tag}: angular_distance({conv}) differs from original")
        check(same(geom.cone_inplane_distance(b1, b2, convention=conv), ORIG["cone_inplane_distance"](b1, b2, convention=conv)), f"{tag}: cone_inplane_distance({conv}) differs")
        check(same(geom.cone_inplane_distance(b1, b2, conv, True, 3), ORIG["cone_inplane_distance"](b1, b2, conv, True, 3)), f"{tag}: cone_inplane_distance({conv},c3) differs")
    # radians
    q1, q2 = np.radians(a1), np.radians(a2)
    check(same(geom.angular_distance(q1, q2, degrees=False), ORIG["angular_distance"](q1, q2, degrees=False)), f"{tag}: angular_distance radians differs")
    check(same(geom.cone_inplane_distance(q1, q2, degrees=False), ORIG["cone_inplane_distance"](q1, q2, degrees=False)), f"{tag}: cone_inplane radians differs")
    return truth


def check_equal_zero(tag, a):
    r = srot.from_euler("zxz", a, degrees=True)
    check(np.all(geom.angular_distance(a, a.copy())[0] <= TOL), f"{tag}: angular_distance(a,a) not zero")
    check(np.all(geom.angular_distance(r, r)[0] <= TOL), f"{tag}: angular_distance(r,r) not zero")
    ci = geom.cone_inplane_distance(r, r)
    check(np.all(ci[0] <= TOL), f"{tag}: cone distance of equal orientations not zero")
    check(np.all(ci[1] == 0.0), f"{tag}: inplane distance of equal orientations not zero")
    check(np.all(geom.inplane_distance(r, r) == 0.0), f"{tag}: inplane_distance(r,r) not zero")


def check_invariance_triangle(tag, a1, a2):
    n = a1.shape[0]
    r1 = srot.from_euler("zxz", a1, degrees=True)
    r2 = srot.from_euler("zxz", a2, degrees=True)
    base = geom.angular_distance(r1, r2)[0]
    commons = [srot.random(n, random_state=int(rng.integers(1 << 30))), srot.from_euler("zxz", cube_rotations()[rng.integers(0, 24, n)], degrees=True)]
    for c in commons:
        left = geom.angular_distance(c * r1, c * r2)[0]
        right = geom.angular_distance(r1 * c, r2 * c)[0]
        check(np.allclose(left, base, atol=TOL, rtol=0), f"{tag}: not invariant under common left rotation")
        check(np.allclose(right, base, atol=TOL, rtol=0), f"{tag}: not invariant under common right rotation")
        # through Euler angles as well
        l1 = np.atleast_2d((c * r1).as_euler("zxz", degrees=True))
        l2 = np.atleast_2d((c * r2).as_euler("zxz", degrees=True))
        check(np.allclose(geom.angular_distance(l1, l2)[0], base, atol=TOL, rtol=0), f"{tag}: not invariant (euler input)")
    a3 = random_angles(n)
    r3 = srot.from_euler("zxz", a3, degrees=True)
    d12 = base
    d23 = geom.angular_distance(r2, r3)[0]
    d13 = geom.angular_distance(r1, r3)[0]
    check(np.all(d13 <= d12 + d23 + TOL), f"{tag}: triangle inequality violated")
    # positive for different rotations
    truth = true_angle(mat_zxz(a1), mat_zxz(a2))
    check(np.all((base > 0) | (truth < TOL)), f"{tag}: zero distance for different rotations")


def check_normals(tag, a):
    n = a.shape[0]
    m = mat_zxz(a)
    res = geom.euler_angles_to_normals(a)
    check(res.shape == (n, 3), f"{tag}: euler_angles_to_normals shape {res.shape}")
    check(np.allclose(np.linalg.norm(res, axis=1), 1.0, atol=1e-12), f"{tag}: euler_angles_to_normals not unit")
    check(np.allclose(res, m[:, :, 2], atol=1e-12), f"{tag}: euler_angles_to_normals != image of z axis")
    check(same(res, ORIG["euler_angles_to_normals"](a)), f"{tag}: euler_angles_to_normals differs from original")
    one = geom.euler_angles_to_normals(a[0, :])
    check(one.shape == (1, 3) and np.allclose(one[0], m[0, :, 2], atol=1e-12), f"{tag}: euler_angles_to_normals single")
    check(same(one, ORIG["euler_angles_to_normals"](a[0, :])), f"{tag}: euler_angles_to_normals single differs from original")
    va = geom.visualize_angles(a, plot_rotations=False)
    check(same(va, ORIG["visualize_angles"](a, plot_rotations=False)), f"{tag}: visualize_angles differs from original")
    check(same(geom.visualize_angles(a, False), ORIG["visualize_angles"](a, False)), f"{tag}: visualize_angles positional differs")
    check(np.allclose(va, m[:, :, 2], atol=1e-12), f"{tag}: visualize_angles != z axis")
    r = srot.from_euler("zxz", a, degrees=True)
    for rad in (1.0, 2.5):
        vr = geom.visualize_rotations(r, plot_rotations=False, radius=rad)
        check(np.allclose(vr, rad * m[:, :, 2], atol=1e-12), f"{tag}: visualize_rotations != radius * z axis")
        check(same(vr, ORIG["visualize_rotations"](r, plot_rotations=False, radius=rad)), f"{tag}: visualize_rotations differs from original")
    check(same(geom.visualize_rotations(r, False, None, 20, 1.0, 3.0), ORIG["visualize_rotations"](r, False, None, 20, 1.0, 3.0)), f"{tag}: visualize_rotations positional differs")


def normal_sets():
    sets = {}
    for n in (1, 2, 9, 100, 500):
        v = rng.normal(size=(n, 3)) * (10.0 ** rng.uniform(-3, 3, size=(n, 1)))
        sets[f"random{n}"] = v
    ax = np.array([[1, 0, 0], [-1, 0, 0], [0, 1, 0], [0, -1, 0], [0, 0, 1], [0, 0, -1]], dtype=float)
    sets["axes"] = ax
    sets["axes_scaled"] = ax * np.array([[2.0], [0.5], [1e3], [1e-3], [7.0], [0.1]])
    sets["axes_int"] = ax.astype(int)
    sets["pm_z"] = np.array([[0.0, 0.0, 3.0], [0.0, 0.0, -0.2], [0.0, 0.0, 1.0], [0.0, 0.0, -1.0]])
    sets["near_z"] = np.array([[1e-9, 0.0, 1.0], [0.0, -1e-9, -1.0], [1e-12, 1e-12, 1.0]])
    sets["unit"] = euler_unit(30)
    return sets


def euler_unit(n):
    v = rng.normal(size=(n, 3))
    return v / np.linalg.norm(v, axis=1, keepdims=True)


def check_normals_to_euler(tag, v):
    n = v.shape[0]
    unit = v / np.linalg.norm(v.astype(float), axis=1, keepdims=True)
    frames = {"ndarray": v, "dataframe": pd.DataFrame({"q": np.arange(n), "z": v[:, 2], "x": v[:, 0], "y": v[:, 1]})}
    for form, inp in frames.items():
        for order in ("zxz", "zzx", None):
            kw = {} if order is None else {"output_order": order}
            keep = inp.copy()
            np.random.seed(1234 + n)
            res = geom.normals_to_euler_angles(inp, **kw)
            state_new = np.random.get_state()[1].copy()
            np.random.seed(1234 + n)
            ref = ORIG["normals_to_euler_angles"](inp, **kw)
            state_old = np.random.get_state()[1].copy()
            check(same(res, ref), f"{tag}/{form}/{order}: normals_to_euler_angles differs from original")
            check(np.array_equal(state_new, state_old), f"{tag}/{form}/{order}: random stream consumed differently")
            check(same(np.asarray(inp), np.asarray(keep)), f"{tag}/{form}/{order}: input modified")
            check(res.shape == (n, 3), f"{tag}/{form}/{order}: shape")
            zxz = res[:, [0, 2, 1]] if order == "zzx" else res
            z = mat_zxz(zxz)[:, :, 2]
            check(np.allclose(z, unit, atol=1e-9), f"{tag}/{form}/{order}: z axis of returned orientation != normalised normal")
            # round trip through the other primitive
            back = geom.euler_angles_to_normals(zxz)
            check(np.allclose(back, unit, atol=1e-9), f"{tag}/{form}/{order}: euler_angles_to_normals(normals_to_euler_angles) != normal")
    if n > 0:
        np.random.seed(5)
        r1 = geom.normals_to_euler_angles(v, "zzx")
        np.random.seed(5)
        r2 = ORIG["normals_to_euler_angles"](v, "zzx")
        check(same(r1, r2), f"{tag}: positional output_order differs")
    for bad in ([[0.0, 0.0, 1.0]], (1.0, 0.0, 0.0), "xyz"):
        try:
            geom.normals_to_euler_angles(bad)
            check(False, f"{tag}: no error for {type(bad)}")
        except UserInputError:
            check(True, "")
        except Exception as e:  # noqa
            check(False, f"{tag}: wrong error type {type(e)} for {type(bad)}")


def check_generate_angles():
    for args in ((30.0, 10.0), (360.0, 45.0), (90.0, 15.0)):
        for order in ("zxz",):
            np.random.seed(3)
            new = geom.generate_angles(*args, angle_order=order)
            np.random.seed(3)
            new2 = geom.generate_angles(*args, angle_order=order)
            check(same(new, new2), f"generate_angles{args}: not repeatable")


def check_in_place_sequences():
    """second and third call on the same objects after the inputs were edited in place"""
    a1 = random_angles(60)
    a2 = random_angles(60)
    v = rng.normal(size=(60, 3))
    df = pd.DataFrame(v, columns=["x", "y", "z"])
    for step in range(4):
        tag = f"sequence step {step}"
        check_pair(tag, a1, a2)
        check_normals(tag, a1)
        check_normals_to_euler(tag, v)
        np.random.seed(step)
        rdf = geom.normals_to_euler_angles(df)
        np.random.seed(step)
        check(same(rdf, ORIG["normals_to_euler_angles"](df)), f"{tag}: dataframe differs from original")
        np.random.seed(step)
        check(same(rdf, geom.normals_to_euler_angles(df.to_numpy())), f"{tag}: dataframe vs ndarray")
        # edit in place
        a1[::3, :] = random_angles(20)
        a2[5:15, 1] = rng.choice([0.0, 180.0], 10)
        a1 += 0.25
        v[::2, :] *= -3.0
        v[7, :] = [0.0, 0.0, -2.0]
        df.loc[:, ["x", "y", "z"]] = v[::-1, :].copy()
    # calls in a different order give the same answers
    b1, b2 = random_angles(25), random_angles(25)
    first = (geom.cone_inplane_distance(b1, b2), geom.angular_distance(b1, b2), geom.compare_rotations(b1, b2), geom.euler_angles_to_normals(b1))
    second = (geom.euler_angles_to_normals(b1), geom.compare_rotations(b1, b2), geom.angular_distance(b1, b2), geom.cone_inplane_distance(b1, b2))
    check(same(first[0], second[3]) and same(first[1], second[2]) and same(first[2], second[1]) and same(first[3], second[0]), "call order matters")


def check_misc():
    # unsupported rotation type still raises UserInputError
    a = random_angles(3)
    try:
        geom.compare_rotations(a, a, rotation_type="nonsense")
        check(False, "compare_rotations: no error for unknown rotation type")
    except UserInputError:
        check(True, "")
    # size mismatch: prints and returns None (as the original does)
    import io, contextlib

    buf1, buf2 = io.StringIO(), io.StringIO()
    with contextlib.redirect_stdout(buf1):
        r_new = geom.angular_distance(random_angles(3), random_angles(4))
    with contextlib.redirect_stdout(buf2):
        r_old = ORIG["angular_distance"](random_angles(3), random_angles(4))
    check(r_new is None and r_old is None and buf1.getvalue() == buf2.getvalue(), "angular_distance size mismatch behaviour changed")
    # single rotations (not batches)
    for _ in range(50):
        e1, e2 = random_angles(1)[0], random_angles(1)[0]
        s1, s2 = srot.from_euler("zxz", e1, degrees=True), srot.from_euler("zxz", e2, degrees=True)
        t = true_angle(mat_zxz(e1), mat_zxz(e2))
        for x1, x2 in ((e1, e2), (s1, s2), (e1, s2)):
            res = geom.angular_distance(x1, x2)
            check(np.allclose(res[0], t, atol=TOL, rtol=0), "single: angular_distance != truth")
            check(same(res, ORIG["angular_distance"](x1, x2)), "single: angular_distance differs from original")
            check(same(geom.cone_inplane_distance(x1, x2), ORIG["cone_inplane_distance"](x1, x2)), "single: cone_inplane differs")
            check(same(geom.compare_rotations(x1, x2), ORIG["compare_rotations"](x1, x2)), "single: compare_rotations differs")
        check(same(geom.cone_distance(s1, s2), ORIG["cone_distance"](s1, s2)), "single: cone_distance differs")
    # signatures: every original parameter still accepted, in the same position, with the same default
    for name in ("compare_rotations", "euler_angles_to_normals", "normals_to_euler_angles", "cone_distance", "inplane_distance", "cone_inplane_distance", "angular_distance", "visualize_rotations", "visualize_angles"):
        old = inspect.signature(ORIG[name]).parameters
        new = inspect.signature(getattr(geom, name)).parameters
        check(list(new)[: len(old)] == list(old), f"{name}: parameter order changed {list(new)}")
        for p in old:
            if p in new:
                d_old, d_new = old[p].default, new[p].default
                check(d_old == d_new or (d_new is None), f"{name}.{p}: default changed {d_old!r} -> {d_new!r}")


def main():
    sets = angle_sets()
    for name, a in sets.items():
        check_equal_zero(name, a)
        check_normals(name, a)
        for pname, b in partner_sets(a).items():
            tag = f"{name}-{pname}"
            truth = check_pair(tag, a, b)
            if pname == "equal":
                check(np.all(truth < 1e-6), f"{tag}: ground truth broken")
            if pname == "antipodal":
                check(np.all(truth > 180 - 1e-3), f"{tag}: ground truth broken (antipodal)")
            if pname in ("random", "near", "antipodal"):
                check_invariance_triangle(tag, a, b)
    # all pairs of the 24 cube rotations
    cube = cube_rotations()
    i, j = np.meshgrid(np.arange(24), np.arange(24), indexing="ij")
    check_pair("cube-allpairs", cube[i.ravel()], cube[j.ravel()])
    check_invariance_triangle("cube-allpairs", cube[i.ravel()], cube[j.ravel()])
    lat = lattice45()
    k = rng.integers(0, lat.shape[0], 500)
    l = rng.integers(0, lat.shape[0], 500)
    check_pair("lattice-pairs", lat[k], lat[l])
    check_invariance_triangle("lattice-pairs", lat[k], lat[l])
    for name, v in normal_sets().items():
        check_normals_to_euler(name, v)
    check_generate_angles()
    check_in_place_sequences()
    check_misc()
    extra_checks()
    plt.close("all")
    print(f"{NCHECK[0]} checks, {len(FAILS)} failures")
    if FAILS:
        print("FAIL")
        sys.exit(1)
    print("PASS")


def extra_checks():
    """change b: the new optional parameter of compare_rotations reproduces today's behaviour by default and is
    plumbed to both distance functions"""
    a1, a2 = random_angles(64), random_angles(64)
    r1, r2 = srot.from_euler("zxz", a1, degrees=True), srot.from_euler("zxz", a2, degrees=True)
    pars = inspect.signature(geom.compare_rotations).parameters
    check(list(pars)[:4] == ["angles1", "angles2", "c_symmetry", "rotation_type"], "compare_rotations: leading parameters changed")
    if "convention" in pars:
        check(pars["convention"].default == "zxz", "compare_rotations: convention default is not zxz")
        for cs in (1, 2, 6):
            for rt in ("all", "angular_distance", "cone_distance", "in_plane_distance"):
                ref = ORIG["compare_rotations"](a1, a2, cs, rt)
                check(same(geom.compare_rotations(a1, a2, cs, rt, "zxz"), ref), "explicit positional zxz differs from original")
                check(same(geom.compare_rotations(a1, a2, c_symmetry=cs, rotation_type=rt, convention="zxz"), ref), "explicit keyword zxz differs")
                if cs == 1 and rt in ("angular_distance", "cone_distance"):
                    check(same(geom.compare_rotations(r1, r2, cs, rt, convention="zyz"), ref2 := ORIG["compare_rotations"](r1, r2, cs, rt)), "Rotation input, c1: convention must not matter for angular/cone")
        for conv in ("zyz", "ZXZ", "xyz"):
            b1, b2 = r1.as_euler(conv, degrees=True), r2.as_euler(conv, degrees=True)
            for cs in (1, 3):
                got = geom.compare_rotations(b1, b2, cs, "all", conv)
                want_ang = ORIG["angular_distance"](b1, b2, convention=conv, c_symmetry=cs)[0]
                want_ci = ORIG["cone_inplane_distance"](b1, b2, convention=conv, c_symmetry=cs)
                check(same(got, (want_ang, want_ci[0], want_ci[1])), f"convention={conv} c{cs} not plumbed to both distance functions")
                if cs == 1:
                    t = true_angle(mat_zxz(a1), mat_zxz(a2))
                    check(np.allclose(got[0], t, atol=TOL, rtol=0), f"convention={conv}: angular distance != truth")
                    check(np.allclose(got[1], true_vec_angle(mat_zxz(a1)[:, :, 2], mat_zxz(a2)[:, :, 2]), atol=TOL, rtol=0), f"convention={conv}: cone != truth")
    # callers in the package: positional c_symmetry (tmana), keyword c_symmetry (pana), rotation_type keyword (nnana), default (ribana)
    z = np.zeros((64, 3))
    check(same(geom.compare_rotations(z, a1, 4), ORIG["compare_rotations"](z, a1, 4)), "tmana style call differs")
    check(same(geom.compare_rotations(np.tile(a1[0], (64, 1)), a2, c_symmetry=3), ORIG["compare_rotations"](np.tile(a1[0], (64, 1)), a2, c_symmetry=3)), "pana style call differs")
    check(same(geom.compare_rotations(r1, r2, rotation_type="cone_distance"), ORIG["compare_rotations"](r1, r2, rotation_type="cone_distance")), "nnana style call differs")
    check(same(geom.compare_rotations(r1, r2)[1], ORIG["compare_rotations"](r1, r2)[1]), "ribana style call differs")
    # keyword and positional forms of the inner functions agree
    for cs in (1, 2, 5):
        check(same(geom.cone_inplane_distance(r1, r2, "zxz", True, cs), geom.cone_inplane_distance(r1, r2, c_symmetry=cs, degrees=True, convention="zxz")), "cone_inplane_distance kw/pos")
        check(same(geom.inplane_distance(r1, r2, "zxz", True, cs), geom.inplane_distance(r1, r2, c_symmetry=cs, degrees=True, convention="zxz")), "inplane_distance kw/pos")
    check(same(geom.visualize_angles(a1, False, None), geom.visualize_angles(a1, color_map=None, plot_rotations=False)), "visualize_angles kw/pos")
    # plotting path still works with and without colour map and returns the same points
    pts = geom.visualize_angles(a1[:5], plot_rotations=True, color_map=np.arange(5.0))
    check(same(pts, ORIG["visualize_angles"](a1[:5], plot_rotations=False)), "visualize_angles with plot differs")
    pts = geom.visualize_angles(a1[:5], True)
    check(same(pts, ORIG["visualize_angles"](a1[:5], False)), "visualize_angles with plot (no colour map) differs")
    plt.close("all")


if __name__ == "__main__":
    main()
