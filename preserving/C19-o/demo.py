#!/venv/bin/python
"""C19-b: trace_chains asks the entry tree ONCE per tomogram (batched radius query for all exit sites) instead of once
per traced particle plus once more per chain end; the choice among the returned neighbours (free / used flag read at
the time of the choice, min_distance strict, nearest first) stays in a helper shared with get_nn_dist.

The demo (run inside the worktree) checks, for the trace_chains that is installed there,
  * the property C19 from the two input lists alone (every particle once, order numbers 1..k per tomogram and object
    number, every link measured exit -> entry, inside (min, max] and equal to the recorded geom4 of the former), and
  * cell-by-cell identity with the ORIGINAL text of get_nn_dist / add_chain_suffix / add_chain_prefix / trace_chains
    (kept below), for the traced list and for every single helper call made on the way,
  * that a batched query returns, row by row, exactly what the per-point queries return (same candidates, same
    order among equal distances, same distances to the last bit), also on whole-number lattices full of ties.
"""
import sys, os

sys.path.insert(0, os.getcwd())
import math, tempfile, warnings

warnings.filterwarnings("ignore")
import numpy as np
import pandas as pd
import sklearn.neighbors as sn
from cryocat import cryomotl, ribana

# get_nn_dist, add_chain_suffix and add_chain_prefix keep their signatures
NEW_NN = lambda *a, **k: ribana.get_nn_dist(*a, **k)
NEW_SUFFIX = lambda *a, **k: ribana.add_chain_suffix(*a, **k)
NEW_PREFIX = lambda *a, **k: ribana.add_chain_prefix(*a, **k)


def extra_checks(rng, counters):
    """per-point query + original selection  ==  row of the batched query + the selection the tree now uses"""
    orig_nn = load_orig()["get_nn_dist"]  # a fresh, un-instrumented copy of the original
    picker = getattr(ribana, "select_nn", None)  # absent on the unmodified tree: then the original does both halves
    n_ties = 0
    for rnd in range(60):
        n = int(rng.integers(1, 61))
        if rnd % 2:
            pts = rng.integers(0, 4, (n, 3)).astype(float)
            qry = rng.integers(0, 4, (n, 3)).astype(float)
            radius = float(rng.choice([1, 2, 3, 5]))
        else:
            pts = rng.uniform(-5, 5, (n, 3))
            qry = pts + unit(rng, n) * rng.uniform(0.5, 2.0, (n, 1))
            radius = float(rng.choice([0.0, 1.5, 3.0, 20.0]))
        if rnd % 7 == 0:
            radius = int(radius)
        tree = sn.KDTree(pts)
        b_idx, b_dist = tree.query_radius(qry, radius, return_distance=True, sort_results=True)
        for i in range(n):
            s_idx, s_dist = tree.query_radius(qry[i, None, :], radius, return_distance=True, sort_results=True)
            assert s_idx[0].dtype == b_idx[i].dtype and s_dist[0].dtype == b_dist[i].dtype
            assert np.array_equal(s_idx[0], b_idx[i]), "batched query: other candidates / other order"
            assert np.array_equal(s_dist[0], b_dist[i]), "batched query: other distances"
            n_ties += int(np.unique(b_dist[i]).size < b_dist[i].size)
            for dmin in (0, 0.0, 1.0, float(b_dist[i][0]) if b_dist[i].size else 2.0):
                for flag in (True, False):
                    mask = rng.integers(0, 2, n).astype(bool)
                    if rnd % 5 == 0:
                        mask[:] = flag if i % 2 else not flag
                    keep = mask.copy()
                    want = orig_nn(tree, qry[i, None, :], radius, dmin, mask, flag)
                    _same_nn(want, ribana.get_nn_dist(tree, qry[i, None, :], radius, dmin, mask, flag))
                    if picker is not None:
                        _same_nn(want, picker(b_idx[i], b_dist[i], dmin, mask, flag))
                    assert np.array_equal(mask, keep)
    assert n_ties > 0, "no neighbourhood with equal distances was generated"


ORIG_SRC = r'''
def get_nn_dist(kdt, query_point, dist_max, dist_min, active_points, test_value):
    id_max, dist = kdt.query_radius(query_point, dist_max, return_distance=True, sort_results=True)
    # id_max, dist = [a[0] for a in kdt.query_radius(query_point, dist_max, return_distance=True, sort_results=True)]
    id_max = id_max[0]
    dist = dist[0]
    if id_max.size == 0:
        return -1, []

    rp_idx = id_max[active_points[id_max] == test_value]
    rp_dist = dist[active_points[id_max] == test_value]

    if rp_idx.size == 0:
        return -1, []
    elif dist_min >= 0:  # the interval is open at its lower end also for dist_min == 0 (a site at distance 0 is not a neighbour)
        rp_idx = rp_idx[rp_dist > dist_min]
        rp_dist = rp_dist[rp_dist > dist_min]

    if rp_idx.size == 0:
        return -1, []
    else:
        return rp_idx[0], rp_dist[0]


def add_chain_suffix(
    chain_df,
    motl,
    traced_df,
    subtomo_id,
    current_dist,
    store_idx1="object_id",
    store_idx2="geom2",
    store_dist="geom4",
):
    particle_id = motl.df.loc[motl.df.index[subtomo_id], "subtomo_id"]

    temp_cl_id, order_id, previous_dist = traced_df.loc[
        traced_df["subtomo_id"] == particle_id, [store_idx1, store_idx2, store_dist]
    ].values[0]
    chain_max_order = np.max(traced_df.loc[traced_df[store_idx1] == temp_cl_id, [store_idx2]].values)

    if chain_max_order != order_id:  # the closest particle is not the last one
        if previous_dist <= current_dist:  # the original chain holds, do nothing
            return False
        else:  # the new chain is better, cut of the tail of the existing one
            current_class = chain_df[store_idx1].values[0]
            traced_df.loc[
                (traced_df[store_idx1] == temp_cl_id) & (traced_df[store_idx2] > order_id),
                store_idx1,
            ] = current_class
            # the tail keeps its order: the order numbers order_id + 1, order_id + 2, ... become 1, 2, ...
            traced_df.loc[(traced_df[store_idx1] == current_class), store_idx2] -= order_id
            chain_max_order = np.max(
                traced_df.loc[traced_df[store_idx1] == temp_cl_id, [store_idx2]].values
            )  # max changed in the meantime so has to be fetched again

    traced_df.loc[traced_df["subtomo_id"] == particle_id, store_dist] = (
        current_dist  # add distance to the last traced element from the chain (should be 0 before)
    )
    chain_df[store_idx1] = temp_cl_id
    chain_df[store_idx2] += chain_max_order

    return True  # chain was changed


def add_chain_prefix(
    chain_df,
    motl,
    traced_df,
    subtomo_id,
    current_dist,
    store_idx1="object_id",
    store_idx2="geom2",
    store_dist="geom4",
    class_max=None,
):
    # finding out class of the chain that should be appended to the current chain
    particle_id = motl.df.loc[motl.df.index[subtomo_id], "subtomo_id"]
    class_to_change = traced_df.loc[traced_df["subtomo_id"] == particle_id, store_idx1].values[0]

    order_id = traced_df.loc[traced_df["subtomo_id"] == particle_id, store_idx2].values[0]

    current_class = chain_df[store_idx1].values[0]
    cut_off_size = 0

    if order_id != 1:  # the closest particle is NOT the first one in the chain!
        # take the previous particle distance
        previous_dist = traced_df.loc[
            (traced_df[store_idx1] == class_to_change) & (traced_df[store_idx2] == order_id - 1),
            store_dist,
        ].values[0]

        if previous_dist <= current_dist:  # original particle closer -> do not append
            return -1
        else:  # the new particle is closer - change the class/object_id to the one from the current particle
            cut_off_size = traced_df.loc[
                (traced_df[store_idx1] == class_to_change) & (traced_df[store_idx2] < order_id)
            ].shape[0]
            if (
                class_max is None
            ):  # Only appending, the chain object_id value is not used and can be assing to the cut chain
                traced_df.loc[
                    (traced_df[store_idx1] == class_to_change) & (traced_df[store_idx2] < order_id),
                    store_idx1,
                ] = current_class
            else:  # Connectiong from both sides, the chain object_id was changed in the previoius append and cannot be used -> the input from current is used
                traced_df.loc[
                    (traced_df[store_idx1] == class_to_change) & (traced_df[store_idx2] < order_id),
                    store_idx1,
                ] = -1  # class_max[1]

    if class_max is None:
        chain_df[store_idx1] = class_to_change
        class_max = np.max(chain_df[store_idx2].values)
        traced_df.loc[traced_df[store_idx1] == class_to_change, [store_idx2]] += class_max - cut_off_size
    else:
        temp_cl_id = chain_df[store_idx1][0]
        traced_df.loc[traced_df[store_idx1] == class_to_change, [store_idx2]] += class_max[0] - cut_off_size
        traced_df.loc[traced_df[store_idx1] == class_to_change, [store_idx1]] = temp_cl_id
        if order_id != 1:
            traced_df.loc[traced_df[store_idx1] == -1, [store_idx1]] = class_max[1]  # class_to_change

    chain_df.loc[chain_df.index[-1], store_dist] = current_dist


def trace_chains(
    motl_entry,
    motl_exit,
    max_distance,
    min_distance=0,
    feature="tomo_id",
    output_motl=None,
    store_idx1="object_id",
    store_idx2="geom2",
    store_dist="geom4",
):
    motl_entry = cryomotl.Motl.load(motl_entry)
    motl_exit = cryomotl.Motl.load(motl_exit)

    features1 = np.unique(motl_entry.df.loc[:, feature])
    features2 = np.unique(motl_exit.df.loc[:, feature])

    if ~np.all(np.equal(features1, features2)):
        ValueError("Provided motls have different features sets!!!")

    traced_motl = cryomotl.Motl.create_empty_motl_df()

    for f in features1:
        # for f in np.array([2,274,405,423]):
        # for f in np.array([423]):
        # print(f)
        fm_entry = motl_entry.get_motl_subset(f, feature, reset_index=False)
        fm_exit = motl_exit.get_motl_subset(f, feature, reset_index=False)

        nfm_df = cryomotl.Motl.create_empty_motl_df()

        fm_size = fm_entry.df.shape[0]
        remain_entry = np.full((fm_size,), True)
        remain_exit = np.full((fm_size,), True)

        class_c = 1

        coord_entry = fm_entry.get_coordinates()
        coord_exit = fm_exit.get_coordinates()

        kdt_entry = sn.KDTree(coord_entry)
        kdt_exit = sn.KDTree(coord_exit)

        for i, current_point in enumerate(coord_exit):
            if ~remain_exit[i]:
                continue
            else:
                ch_m = cryomotl.Motl.create_empty_motl_df()  # create new chain motl df
                chain_id = 1  # assign chain id
                trace_chain = True
                p_idx = i
                used_idx = []
                # print(i)
                while trace_chain:
                    # take the particle from the exit list
                    # part_process = fm_exit.df.iloc[p_idx]

                    # add the same processed particle from entry list to the chain
                    ch_m = pd.concat([ch_m, fm_entry.df.iloc[[p_idx]]], ignore_index=True)

                    ch_m.loc[ch_m.index[-1], [store_idx2]] = chain_id
                    chain_id += 1

                    # remove currently processed point from both entry and exit
                    remain_entry[p_idx] = False
                    remain_exit[p_idx] = False
                    used_idx.append(p_idx)

                    # prepare coordinates
                    p_coord = coord_exit[p_idx, None, :]

                    if np.all(remain_entry == False):  # no remaining particles, end the chain
                        # np_idx = p_idx
                        np_idx = -1
                    else:
                        # search for the nearest active point
                        np_idx, np_dist = get_nn_dist(
                            kdt_entry,
                            p_coord,
                            max_distance,
                            min_distance,
                            remain_entry,
                            True,
                        )

                    if np_idx != -1:  # continue tracing
                        p_idx = np_idx
                        ch_m.loc[ch_m.index[-1], [store_dist]] = np_dist
                    else:  # end chain
                        ch_m.loc[:, store_idx1] = class_c
                        class_c += 1

                        if nfm_df.size != 0:  # check existing chains for connections
                            first_coord = (
                                ch_m.loc[ch_m.index[0], ["x", "y", "z"]].values
                                + ch_m.loc[ch_m.index[0], ["shift_x", "shift_y", "shift_z"]].values
                            )  # entry point
                            first_coord = first_coord.reshape(1, 3)
                            remain_entry[used_idx] = True
                            remain_exit[used_idx] = True
                            # check if this chain cannot be connected to already an existing one
                            # This can happen if the chain is started "in the middle"
                            nm_idx, nm_dist = get_nn_dist(
                                kdt_entry,
                                p_coord,
                                max_distance,
                                min_distance,
                                remain_entry,
                                False,
                            )
                            first_idx, first_dist = get_nn_dist(
                                kdt_exit,
                                first_coord,
                                max_distance,
                                min_distance,
                                remain_exit,
                                False,
                            )

                            remain_entry[used_idx] = False
                            remain_exit[used_idx] = False

                            # rather rare case where a single particle wants to connect to the same particle in a chain
                            if first_idx == nm_idx and first_idx != -1 and ch_m.shape[0] == 1:
                                if first_dist <= nm_dist:
                                    nm_idx = -1  # add only suffix
                                else:
                                    first_idx = -1  # add only prefix
                            elif first_idx != -1 and nm_idx != -1:
                                part1 = fm_exit.df.loc[fm_exit.df.index[first_idx], "subtomo_id"]
                                part2 = fm_entry.df.loc[fm_entry.df.index[nm_idx], "subtomo_id"]
                                cl1 = nfm_df.loc[nfm_df["subtomo_id"] == part1, store_idx1].values[0]
                                cl2 = nfm_df.loc[nfm_df["subtomo_id"] == part2, store_idx1].values[0]
                                if cl1 == cl2:
                                    if first_dist <= nm_dist:
                                        nm_idx = -1  # add only suffix
                                    else:
                                        first_idx = -1  # add only prefix

                            ch_changed = False  # default is no chain change

                            if first_idx != -1:  # appneding the chain after an existing one
                                ch_changed = add_chain_suffix(
                                    ch_m,
                                    fm_exit,
                                    nfm_df,
                                    first_idx,
                                    first_dist,
                                    store_idx1,
                                    store_idx2,
                                )

                            if nm_idx != -1:  # connecting the chain before an existing one

                                class_max = None

                                # they connect from both sides
                                if ch_changed:
                                    current_class = class_c - 1
                                    cl_max = np.max(ch_m[store_idx2].values)
                                    if cl_max > 1:
                                        if (nfm_df[store_idx1] == current_class).any():
                                            # the number went to a tail cut off by add_chain_suffix, a cut-off head needs its own
                                            current_class = class_c
                                            class_c += 1
                                        class_max = (cl_max, current_class)

                                add_chain_prefix(
                                    ch_m,
                                    fm_entry,
                                    nfm_df,
                                    nm_idx,
                                    nm_dist,
                                    store_idx1,
                                    store_idx2,
                                    class_max=class_max,
                                )

                        nfm_df = pd.concat([nfm_df, ch_m])
                        trace_chain = False

        traced_motl = pd.concat([traced_motl, nfm_df])

    traced_motl = cryomotl.Motl(motl_df=traced_motl)

    if output_motl is not None:
        traced_motl.write_to_emfile(output_motl)

    return traced_motl
'''

# ----------------------------------------------------------------------------------------------------------------
# original functions, compiled into their own namespace
# ----------------------------------------------------------------------------------------------------------------
def load_orig():
    ns = {"np": np, "pd": pd, "cryomotl": cryomotl, "sn": sn}
    exec(compile(ORIG_SRC, "<orig ribana 683-991>", "exec"), ns)
    return ns


ORIG = load_orig()
STATS = dict(nn_calls=0, nn_found=0, suffix_calls=0, suffix_refused=0, suffix_cut=0, prefix_calls=0, prefix_refused=0,
             prefix_cut=0, both_sides=0, both_sides_cut=0)


def _same_nn(a, b):
    (ia, da), (ib, db) = a, b
    assert type(ia) is type(ib) or (np.isscalar(ia) and np.isscalar(ib)), (ia, ib)
    assert ia == ib, ("neighbour", ia, ib)
    if ia == -1:
        assert isinstance(da, list) and isinstance(db, list) and da == [] and db == [], (da, db)
    else:
        assert da == db and type(da) is type(db), ("distance", da, db)


def _instrument(ns):
    """every helper call the ORIGINAL tracing makes is replayed on copies through the INSTALLED helper (via the
    adapters of this demo) and the two outcomes are compared cell by cell; branch statistics on the way"""
    nn, suf, pre = ns["get_nn_dist"], ns["add_chain_suffix"], ns["add_chain_prefix"]

    def w_nn(kdt, query_point, dist_max, dist_min, active_points, test_value):
        act = active_points.copy()
        r = nn(kdt, query_point, dist_max, dist_min, active_points, test_value)
        r2 = NEW_NN(kdt, query_point.copy(), dist_max, dist_min, act, test_value)
        _same_nn(r, r2)
        assert np.array_equal(act, active_points)
        STATS["nn_calls"] += 1
        STATS["nn_found"] += int(r[0] != -1)
        return r

    def w_suf(chain_df, motl, traced_df, subtomo_id, current_dist, *a, **k):
        c2, t2 = chain_df.copy(), traced_df.copy()
        before = traced_df["object_id"].to_numpy().copy()
        r = suf(chain_df, motl, traced_df, subtomo_id, current_dist, *a, **k)
        r2 = NEW_SUFFIX(c2, motl, t2, subtomo_id, current_dist, *a, **k)
        assert r is r2, ("suffix return", r, r2)
        pd.testing.assert_frame_equal(c2, chain_df, check_exact=True, obj="chain after suffix")
        pd.testing.assert_frame_equal(t2, traced_df, check_exact=True, obj="traced after suffix")
        STATS["suffix_calls"] += 1
        STATS["suffix_refused"] += int(not r)
        STATS["suffix_cut"] += int(not np.array_equal(before, traced_df["object_id"].to_numpy()))
        return r

    def w_pre(chain_df, motl, traced_df, subtomo_id, current_dist, *a, **k):
        c2, t2 = chain_df.copy(), traced_df.copy()
        pid = motl.df["subtomo_id"].to_numpy()[subtomo_id]
        first = traced_df.loc[traced_df["subtomo_id"] == pid, "geom2"].to_numpy()[0] == 1
        r = pre(chain_df, motl, traced_df, subtomo_id, current_dist, *a, **k)
        r2 = NEW_PREFIX(c2, motl, t2, subtomo_id, current_dist, *a, **k)
        assert (r is None and r2 is None) or r == r2, ("prefix return", r, r2)
        pd.testing.assert_frame_equal(c2, chain_df, check_exact=True, obj="chain after prefix")
        pd.testing.assert_frame_equal(t2, traced_df, check_exact=True, obj="traced after prefix")
        STATS["prefix_calls"] += 1
        if r == -1:
            STATS["prefix_refused"] += 1
        else:
            both = k.get("class_max") is not None
            STATS["prefix_cut"] += int(not first)
            STATS["both_sides"] += int(both)
            STATS["both_sides_cut"] += int(both and not first)
        return r

    ns["get_nn_dist"], ns["add_chain_suffix"], ns["add_chain_prefix"] = w_nn, w_suf, w_pre


_instrument(ORIG)
orig_trace_chains = ORIG["trace_chains"]

# ----------------------------------------------------------------------------------------------------------------
# input generators
# ----------------------------------------------------------------------------------------------------------------
COLS = cryomotl.Motl.motl_columns


def make_pair(rng, xyz, vec, tomo, index_kind=0, shifts=False, int_cols=(), extra=True):
    """entry list at xyz, exit list at xyz + vec, same particles row by row"""
    n = xyz.shape[0]
    d = pd.DataFrame(0.0, index=range(n), columns=COLS)
    d["tomo_id"] = np.asarray(tomo, dtype=float)
    d["subtomo_id"] = (rng.permutation(n) + 1).astype(float)
    if extra:  # columns that have to come back untouched
        d["score"] = rng.uniform(-1, 1, n)
        d["phi"] = rng.uniform(-180, 180, n)
        d["theta"] = rng.choice([0.0, 180.0, 37.5, 90.0], n)
        d["psi"] = rng.uniform(-180, 180, n)
        d["class"] = rng.integers(1, 4, n).astype(float)
        d["geom3"] = rng.integers(-3, 4, n).astype(float)
    e = d.copy()
    if shifts:  # whole-number positions plus fractional (also negative) shifts
        for df, c in ((d, xyz), (e, xyz + vec)):
            base = np.round(c)
            df[["x", "y", "z"]] = base
            df[["shift_x", "shift_y", "shift_z"]] = c - base
    else:
        d[["x", "y", "z"]] = xyz
        e[["x", "y", "z"]] = xyz + vec
    if int_cols:
        d = d.astype({c: int for c in int_cols})
        e = e.astype({c: int for c in int_cols})
    if index_kind == 1:  # shuffled, non-contiguous row labels
        idx = rng.permutation(n) * 3 + 10
        d.index = idx
        e.index = idx.copy()
    elif index_kind == 2:  # labels that do not start at 0
        d.index = np.arange(n) + 100
        e.index = np.arange(n) + 100
    return cryomotl.Motl(d), cryomotl.Motl(e)


def tomo_labels(rng, n, nt):
    if nt == 1:
        return np.full(n, 5.0)
    t = rng.integers(0, nt, n)
    t[:nt] = np.arange(nt)  # every tomogram present
    labels = np.array([12.0, 3.0, 40.0])[:nt]  # not sorted, not contiguous
    if rng.integers(0, 2):
        t = np.sort(t)
    return labels[t]


def unit(rng, n):
    v = rng.normal(size=(n, 3))
    return v / np.linalg.norm(v, axis=1)[:, None]


def gen_uniform(rng):
    n = int(rng.integers(2, 61))
    nt = int(rng.integers(1, 4))
    box = float(rng.choice([4, 8, 15, 30]))
    disp = float(rng.choice([0.5, 1, 2, 4]))
    xyz = rng.uniform(-box / 2, box / 2, (n, 3))  # negative coordinates as well
    vec = unit(rng, n) * disp * rng.uniform(0.5, 1.5, (n, 1))
    return xyz, vec, tomo_labels(rng, n, min(nt, n))


def gen_clusters(rng):
    """a few tight clusters: many candidates inside the radius, chains started in the middle, merged, cut"""
    n = int(rng.integers(6, 61))
    nt = int(rng.integers(1, 3))
    k = int(rng.integers(1, 5))
    centres = rng.uniform(0, 30, (k, 3))
    xyz = centres[rng.integers(0, k, n)] + rng.normal(scale=float(rng.choice([1.0, 2.0, 3.0])), size=(n, 3))
    vec = unit(rng, n) * float(rng.choice([1.0, 2.0, 3.0])) * rng.uniform(0.7, 1.3, (n, 1))
    return xyz, vec, tomo_labels(rng, n, nt)


def gen_polysome(rng):
    """noisy strings of particles whose exit points towards the next entry, given in shuffled order"""
    pieces, vecs = [], []
    n_left = int(rng.integers(4, 61))
    while n_left > 0:
        k = min(n_left, int(rng.integers(1, 12)))
        start = rng.uniform(0, 25, 3)
        step = unit(rng, 1)[0] * 3.0
        p = start + np.arange(k)[:, None] * step + rng.normal(scale=0.3, size=(k, 3))
        pieces.append(p)
        vecs.append(np.tile(step * 0.7, (k, 1)) + rng.normal(scale=0.2, size=(k, 3)))
        n_left -= k
    xyz, vec = np.vstack(pieces), np.vstack(vecs)
    perm = rng.permutation(xyz.shape[0])
    return xyz[perm], vec[perm], tomo_labels(rng, xyz.shape[0], int(rng.integers(1, 3)))


LATTICE_VECS = np.array([[3, 4, 0], [0, 3, 4], [4, 0, 3], [-3, 0, 4], [0, 0, 5], [5, 0, 0], [0, -5, 0], [1, 2, 2],
                         [2, 1, -2], [0, 0, 1], [2, 0, 0], [0, -3, 0]], dtype=float)


def gen_lattice(rng):
    """whole-number positions and displacements: equal distances, distances exactly at 1, 2, 3, 5"""
    n = int(rng.integers(2, 61))
    side = int(rng.choice([3, 4, 6]))
    xyz = rng.integers(0, side, (n, 3)).astype(float) * float(rng.choice([1, 2]))
    vec = LATTICE_VECS[rng.integers(0, len(LATTICE_VECS), n)]
    return xyz, vec, tomo_labels(rng, n, min(int(rng.integers(1, 4)), n))


GENS = [gen_uniform, gen_clusters, gen_polysome, gen_lattice]

# ----------------------------------------------------------------------------------------------------------------
# the property, computed from the two input lists alone
# ----------------------------------------------------------------------------------------------------------------
def site_table(m):
    df = m.df
    tab = {}
    for t, s, x, y, z, sx, sy, sz in zip(df["tomo_id"], df["subtomo_id"], df["x"], df["y"], df["z"], df["shift_x"],
                                         df["shift_y"], df["shift_z"]):
        assert (float(t), float(s)) not in tab
        tab[(float(t), float(s))] = (float(x) + float(sx), float(y) + float(sy), float(z) + float(sz))
    return tab


def check_property(m_entry, m_exit, traced, dmax, dmin, tol=1e-9):
    out = traced.df
    entry, exit_ = site_table(m_entry), site_table(m_exit)
    assert sorted(entry) == sorted(exit_), "generator: the lists are not paired"
    # every particle exactly once
    keys = [(float(t), float(s)) for t, s in zip(out["tomo_id"], out["subtomo_id"])]
    assert len(keys) == len(entry), f"{len(keys)} rows for {len(entry)} particles"
    assert sorted(keys) == sorted(entry), "particles lost or duplicated"
    # the rows are the rows of the entry list (everything but the three bookkeeping columns)
    keep = [c for c in COLS if c not in ("object_id", "geom2", "geom4")]
    a = out.sort_values(["tomo_id", "subtomo_id"])[keep].to_numpy(dtype=float)
    b = m_entry.df.sort_values(["tomo_id", "subtomo_id"])[keep].to_numpy(dtype=float)
    assert np.array_equal(a, b), "a traced row differs from its entry row"
    # chains: (tomogram, object number); they cannot span tomograms by construction of the key, so check that the
    # numbering is per tomogram: order numbers 1..k without holes or repeats
    chains = {}
    for (t, s), o, g2, g4 in zip(keys, out["object_id"], out["geom2"], out["geom4"]):
        chains.setdefault((t, float(o)), []).append((float(g2), s, float(g4)))
    n_links = 0
    for (t, o), members in chains.items():
        members.sort()
        orders = [m[0] for m in members]
        assert orders == [float(i) for i in range(1, len(members) + 1)], f"tomo {t} chain {o}: order numbers {orders}"
        assert o >= 1 and o == int(o), f"object number {o}"
        for (_, s_a, rec), (_, s_b, _) in zip(members[:-1], members[1:]):
            pa, pb = exit_[(t, s_a)], entry[(t, s_b)]
            d = math.sqrt((pa[0] - pb[0]) ** 2 + (pa[1] - pb[1]) ** 2 + (pa[2] - pb[2]) ** 2)
            assert abs(d - rec) <= tol, f"recorded {rec}, measured {d}"
            assert rec <= dmax, f"link of {rec} > max {dmax}"
            # (min, max]; without a lower bound (min = 0) coinciding sites are not excluded by the code
            assert rec > dmin or (dmin == 0 and rec == 0), f"link of {rec} <= min {dmin}"
            n_links += 1
    return len(chains), n_links


def same_result(a, b, what):
    pd.testing.assert_frame_equal(a.df, b.df, check_exact=True, obj=what)
    assert type(a) is type(b), what


def run_case(m_entry, m_exit, dmax, dmin, counters, as_kind=0):
    """property on the installed trace_chains + identity with the original text, inputs untouched, call repeatable"""
    e0, x0 = m_entry.df.copy(), m_exit.df.copy()
    if as_kind == 1:  # plain data frames
        args = (m_entry.df, m_exit.df)
    else:
        args = (m_entry, m_exit)
    new = ribana.trace_chains(*args, dmax, dmin)
    pd.testing.assert_frame_equal(m_entry.df, e0, check_exact=True)
    pd.testing.assert_frame_equal(m_exit.df, x0, check_exact=True)
    nc, nl = check_property(m_entry, m_exit, new, dmax, dmin)
    old = orig_trace_chains(*args, dmax, dmin)
    check_property(m_entry, m_exit, old, dmax, dmin)
    same_result(new, old, "installed trace_chains vs original text")
    counters["cases"] += 1
    counters["chains"] += nc
    counters["links"] += nl
    counters["particles"] += m_entry.df.shape[0]
    return new

# ----------------------------------------------------------------------------------------------------------------
# hand-made edge cases
# ----------------------------------------------------------------------------------------------------------------
def edge_cases(rng, counters):
    z = lambda *r: np.array(r, dtype=float)
    cases = []
    # two particles, no link / one link / each the other's neighbour
    cases.append((z([0, 0, 0], [50, 0, 0]), z([1, 0, 0], [1, 0, 0]), [1, 1], 5.0, 0))
    cases.append((z([0, 0, 0], [4, 0, 0]), z([1, 0, 0], [1, 0, 0]), [1, 1], 5.0, 0))
    cases.append((z([0, 0, 0], [4, 0, 0]), z([3, 0, 0], [-3, 0, 0]), [1, 1], 5.0, 0))
    # the second particle is the predecessor of the first (chain started in the middle -> prefix)
    cases.append((z([4, 0, 0], [0, 0, 0]), z([1, 0, 0], [1, 0, 0]), [1, 1], 5.0, 0))
    # two particles in two tomograms at the same place: never linked
    cases.append((z([0, 0, 0], [1, 0, 0]), z([1, 0, 0], [1, 0, 0]), [2, 1], 5.0, 0))
    # one tomogram with a single particle next to a tomogram with a string of four
    cases.append((z([0, 0, 0], [3, 0, 0], [9, 0, 0], [6, 0, 0], [3, 0, 0]), np.tile(z([2, 0, 0]), (5, 1)),
                  [7, 2, 2, 2, 2], 1.0, 0))
    # link length exactly max_distance (kept) and exactly min_distance (dropped): 3-4-5 triangles
    line = z([0, 0, 0], [6, 8, 0], [12, 16, 0], [18, 24, 0])
    for dmax, dmin in ((5.0, 0), (5, 0), (4.999999, 0), (10.0, 5.0), (10, 5), (10.0, 4.999999), (5.0, 5.0)):
        cases.append((line, np.tile(z([3, 4, 0]), (4, 1)), [1, 1, 1, 1], dmax, dmin))
        cases.append((line[::-1].copy(), np.tile(z([3, 4, 0]), (4, 1)), [1, 1, 1, 1], dmax, dmin))
        cases.append((line[[2, 0, 3, 1]], np.tile(z([3, 4, 0]), (4, 1)), [1, 1, 1, 1], dmax, dmin))
    # radius 0 and a radius that covers everything
    pts = rng.uniform(0, 10, (12, 3))
    vec = unit(rng, 12)
    cases.append((pts, vec, [1] * 12, 0.0, 0))
    cases.append((pts, vec, [1] * 12, 1e6, 0))
    cases.append((pts, vec, [1] * 12, 1e6, 3.0))
    cases.append((pts, vec, [1] * 6 + [2] * 6, 1e6, 1e6))
    # a closed ring: every exit has an entry in range, the last link back to the start is not made
    ang = np.arange(8) * (2 * np.pi / 8)
    ring = np.c_[10 * np.cos(ang), 10 * np.sin(ang), np.zeros(8)]
    cases.append((ring, (np.roll(ring, -1, axis=0) - ring) * 0.8, [1] * 8, 3.0, 0))
    cases.append((ring[[3, 4, 5, 0, 1, 2, 7, 6]], ((np.roll(ring, -1, axis=0) - ring) * 0.8)[[3, 4, 5, 0, 1, 2, 7, 6]],
                  [1] * 8, 3.0, 0.5))
    for xyz, vec, tomo, dmax, dmin in cases:
        for index_kind in (0, 1, 2):
            for shifts in (False, True):
                me, mx = make_pair(rng, xyz, vec, np.asarray(tomo, dtype=float), index_kind=index_kind, shifts=shifts)
                run_case(me, mx, dmax, dmin, counters)


SCEN = {  # name: (entry site, exit site); radius 7
    "M": ((-3, 0, 0), (0, 0, 0)), "Q": ((4, 0, 0), (4, 0, 3)), "L": ((10, 0, -2), (7, 0, 0)),
    "F1": ((0, -6, 0), (0, -12, 0)), "F": ((0, 5, 0), (0, 12, 0)),
    "R-": ((0, -15, 0), (0, -15, 5)), "T-": ((0, -25, -5), (0, -15, -5)),
    "R+": ((0, 15, 0), (0, 15, 5)), "T+": ((0, 25, -5), (0, 15, -5)),
}
# M->Q is traced, L takes Q over (prefix with the head [M] cut off), F1 is hung behind M (suffix), F is nearer to M
# than F1 (suffix with the tail cut), R / T,R are older chains the new chain also runs into (both sides, with a cut)
SCEN_ORDERS = {
    "suffix": ["M", "Q", "L", "F1"],
    "suffix, tail cut": ["M", "Q", "L", "F1", "F"],
    "both sides": ["R-", "M", "Q", "L", "F1"],
    "both sides, head cut": ["T-", "R-", "M", "Q", "L", "F1"],
    "tail cut + both sides": ["R+", "M", "Q", "L", "F1", "F"],
}
# In this arrangement the unmodified tree gives the cut-off tail and the cut-off head the same object number (two
# particles with order number 1 in one chain): the property does not hold there before or after the change, so this
# one is only compared with the original text.
SCEN_KNOWN_VIOLATION = {"tail cut + both sides, head cut": ["T+", "R+", "M", "Q", "L", "F1", "F"]}


def scenario_pair(rng, names, scale, index_kind, shifts, copies=1):
    ent = np.array([SCEN[k][0] for k in names], dtype=float)
    ext = np.array([SCEN[k][1] for k in names], dtype=float)
    rot = np.linalg.qr(rng.normal(size=(3, 3)))[0]  # rotation or reflection, both keep distances
    off = rng.uniform(-50, 50, 3)
    ent, ext = scale * ent @ rot.T + off, scale * ext @ rot.T + off
    tomo = np.repeat(np.arange(copies) * 2 + 1.0, len(names))
    ent, ext = np.tile(ent, (copies, 1)), np.tile(ext, (copies, 1))
    return make_pair(rng, ent, ext - ent, tomo, index_kind=index_kind, shifts=shifts)


def scenario_cases(rng, counters):
    for name, names in list(SCEN_ORDERS.items()) + list(SCEN_KNOWN_VIOLATION.items()):
        for scale in (1.0, 0.37, 12.0):
            for index_kind in (0, 1):
                for shifts in (False, True):
                    me, mx = scenario_pair(rng, names, scale, index_kind, shifts, copies=1 + index_kind)
                    # the rotated copy has round-off; the radius is 7 with the nearest competing distance at 7.07
                    dmax = 7.0 * scale * (1 + 1e-6)
                    if name in SCEN_KNOWN_VIOLATION:
                        same_result(ribana.trace_chains(me, mx, dmax, 0), orig_trace_chains(me, mx, dmax, 0), name)
                    else:
                        run_case(me, mx, dmax, 0, counters)


def file_case(rng, counters):
    """the two lists given as paths of em files (single precision on disk)"""
    xyz, vec, tomo = gen_clusters(rng)
    me, mx = make_pair(rng, xyz, vec, tomo)
    with tempfile.TemporaryDirectory() as td:
        pe, px = os.path.join(td, "entry.em"), os.path.join(td, "exit.em")
        cryomotl.EmMotl(me.df).write_out(pe)
        cryomotl.EmMotl(mx.df).write_out(px)
        le, lx = cryomotl.Motl.load(pe), cryomotl.Motl.load(px)
        new = ribana.trace_chains(pe, px, 4.0, 0.5)
        old = orig_trace_chains(pe, px, 4.0, 0.5)
        check_property(le, lx, new, 4.0, 0.5, tol=1e-6)
        same_result(new, old, "em files")
    counters["cases"] += 1


def main(n_rounds):
    warnings.filterwarnings("ignore")
    counters = dict(cases=0, chains=0, links=0, particles=0)
    rng = np.random.default_rng(20240919)
    edge_cases(rng, counters)
    scenario_cases(rng, counters)
    file_case(rng, counters)
    for rnd in range(n_rounds):
        for gen in GENS:
            xyz, vec, tomo = gen(rng)
            lattice = gen is gen_lattice
            dmax = float(rng.choice([1, 2, 3, 5] if lattice else [1.5, 2.5, 4, 6, 9]))
            dmin = float(rng.choice([0, 0, 1, 2, 3] if lattice else [0, 0, 0.5, 1.0, 2.0]))
            if rng.integers(0, 4) == 0:  # whole numbers given as Python ints
                dmax, dmin = int(round(dmax)) or 1, int(dmin)
            int_cols = [(), ("tomo_id", "subtomo_id"), ("tomo_id", "subtomo_id", "x", "y", "z", "object_id", "geom2")][
                int(rng.integers(0, 3)) if lattice else int(rng.integers(0, 2))]
            me, mx = make_pair(rng, xyz, vec, tomo, index_kind=int(rng.integers(0, 3)),
                               shifts=bool(rng.integers(0, 2)) and not lattice, int_cols=int_cols)
            first = run_case(me, mx, dmax, dmin, counters, as_kind=int(rng.integers(0, 2)))
            if rnd % 10 == 0:  # the same objects once more: same answer
                again = ribana.trace_chains(me, mx, dmax, dmin)
                same_result(first, again, "second call on the same objects")
    extra_checks(rng, counters)
    print("cases %(cases)d, particles %(particles)d, chains %(chains)d, links %(links)d" % counters)
    print("branches seen in the original:", STATS)
    need = ["nn_found", "suffix_calls", "suffix_refused", "suffix_cut", "prefix_calls", "prefix_refused", "prefix_cut",
            "both_sides", "both_sides_cut"]
    missing = [k for k in need if STATS[k] == 0]
    assert not missing, f"generator did not reach: {missing}"
    print("PASS")


if __name__ == "__main__":
    try:
        main(int(sys.argv[1]) if len(sys.argv) > 1 else 40)
    except AssertionError as ex:
        print("FAIL:", ex)
        sys.exit(1)
