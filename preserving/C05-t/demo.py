import sys, os

sys.path.insert(0, os.getcwd())

import contextlib
import copy
import io
import textwrap
import warnings

import numpy as np
import pandas as pd
from scipy.spatial.transform import Rotation as rot

warnings.filterwarnings("ignore")

from cryocat import cryomotl
from cryocat.cryomotl import Motl

# ----------------------------------------------------------------------------------------------------------------
# original text of the function touched by the patch (HEAD d4d8304), executed in the namespace of cryocat.cryomotl
# ----------------------------------------------------------------------------------------------------------------
ORIGINAL = textwrap.dedent(
    '''
    def flip_handedness(self, tomo_dimensions=None):
        self.df.loc[:, "theta"] = -self.df.loc[:, "theta"]

        # Position flip
        if tomo_dimensions is not None:
            dims = ioutils.dimensions_load(tomo_dimensions)
            if dims.shape == (1, 3):
                z_dim = float(dims["z"].iloc[0]) + 1
                self.df.loc[:, "z"] = z_dim - self.df.loc[:, "z"]
                self.df.loc[:, "shift_z"] = -self.df.loc[:, "shift_z"]
            else:
                tomos = dims["tomo_id"].unique()
                for t in tomos:
                    z_dim = float(dims.loc[dims["tomo_id"] == t, "z"].iloc[0]) + 1
                    self.df.loc[self.df["tomo_id"] == t, "z"] = z_dim - self.df.loc[self.df["tomo_id"] == t, "z"]
                    self.df.loc[self.df["tomo_id"] == t, "shift_z"] = -self.df.loc[self.df["tomo_id"] == t, "shift_z"]
    '''
)
_ns = dict(vars(cryomotl))
exec(ORIGINAL, _ns)
orig_flip_handedness = _ns["flip_handedness"]

FAILS = []


def check(cond, msg):
    if not cond:
        FAILS.append(msg)
        if len(FAILS) < 20:
            print("FAIL:", msg)


def quiet(f, *a, **k):
    buf = io.StringIO()
    with contextlib.redirect_stdout(buf):
        r = f(*a, **k)
    return r, buf.getvalue()


# ----------------------------------------------------------------------------------------------------------------
# independent model: R = Rz(psi) Rx(theta) Rz(phi), complete position = x + shift
# ----------------------------------------------------------------------------------------------------------------
def rz(a):
    c, s = np.cos(a), np.sin(a)
    return np.array([[c, -s, 0.0], [s, c, 0.0], [0.0, 0.0, 1.0]])


def rx(a):
    c, s = np.cos(a), np.sin(a)
    return np.array([[1.0, 0.0, 0.0], [0.0, c, -s], [0.0, s, c]])


def mats_of(df):
    out = []
    for phi, theta, psi in np.deg2rad(df[["phi", "theta", "psi"]].to_numpy(dtype=float)):
        out.append(rz(psi) @ rx(theta) @ rz(phi))
    return np.array(out).reshape(-1, 3, 3)


def pos_of(df):
    return df[["x", "y", "z"]].to_numpy(dtype=float) + df[["shift_x", "shift_y", "shift_z"]].to_numpy(dtype=float)


def quat_to_mat(q):  # scipy order x, y, z, w
    x, y, z, w = q / np.linalg.norm(q)
    return np.array(
        [
            [1 - 2 * (y * y + z * z), 2 * (x * y - z * w), 2 * (x * z + y * w)],
            [2 * (x * y + z * w), 1 - 2 * (x * x + z * z), 2 * (y * z - x * w)],
            [2 * (x * z - y * w), 2 * (y * z + x * w), 1 - 2 * (x * x + y * y)],
        ]
    )


MIRROR = np.diag([1.0, 1.0, -1.0])


def random_motl(rng, n, kind):
    df = pd.DataFrame(np.zeros((n, 20)), columns=Motl.motl_columns)
    df["subtomo_id"] = np.arange(1, n + 1, dtype=float)
    df["tomo_id"] = rng.choice([1.0, 2.0, 5.0, 17.0], size=n)
    df["object_id"] = rng.integers(1, 4, size=n).astype(float)
    df["class"] = 1.0
    df["score"] = rng.random(n)
    if kind == "int":
        xyz = rng.integers(-50, 400, size=(n, 3)).astype(float)
        sh = np.zeros((n, 3))
    elif kind == "ties":
        xyz = rng.integers(-50, 400, size=(n, 3)).astype(float)
        sh = rng.choice([-2.5, -1.5, -0.5, 0.0, 0.5, 1.5, 2.5, 0.25, -0.75], size=(n, 3))
    elif kind == "negative":
        xyz = -rng.integers(0, 300, size=(n, 3)).astype(float) + rng.choice([0.0, 0.5], size=(n, 3))
        sh = -rng.random((n, 3)) * 7
    else:
        xyz = rng.uniform(-100, 500, size=(n, 3))
        sh = rng.uniform(-6, 6, size=(n, 3))
    df[["x", "y", "z"]] = xyz
    df[["shift_x", "shift_y", "shift_z"]] = sh
    ang = np.column_stack([rng.uniform(-180, 180, n), rng.uniform(0, 180, n), rng.uniform(-180, 180, n)])
    if n > 0 and rng.random() < 0.4:  # special orientations: identity, gimbal lock, negative theta
        ang[0] = [0.0, 0.0, 0.0]
        if n > 1:
            ang[1] = [30.0, 180.0, -40.0]
        if n > 2:
            ang[2] = [12.0, -77.0, 200.0]
    df[["phi", "theta", "psi"]] = ang
    if n > 0 and rng.random() < 0.3:  # table left by an earlier selection: non-contiguous, unordered labels
        df.index = rng.permutation(np.arange(100, 100 + 3 * n, 3))
    return Motl(df)


def random_dims(rng, present):
    """returns (argument for flip_handedness, {tomo_id: dim_z} or a single float)"""
    form = rng.choice(["list", "array1", "frame1", "array4", "frame4", "frame4_partial", "frame4_dupl"])
    if form in ("list", "array1", "frame1"):
        d = [float(rng.integers(200, 1200)), float(rng.integers(200, 1200)), float(rng.integers(50, 600))]
        if form == "list":
            return d, d[2]
        if form == "array1":
            return np.array(d), d[2]
        return pd.DataFrame([d], columns=["x", "y", "z"]), d[2]
    ids = [1.0, 2.0, 5.0, 17.0, 23.0]
    if form == "frame4_partial":
        ids = [17.0, 1.0, 23.0]
    ids = list(rng.permutation(ids))
    rows = [[t, float(rng.integers(200, 1200)), float(rng.integers(200, 1200)), float(rng.integers(50, 600))] for t in ids]
    if form == "frame4_dupl":  # repeated entry: the first one counts
        rows.append([rows[0][0], 999.0, 999.0, rows[0][3] + 40.0])
    table = {}
    for r in rows:
        table.setdefault(r[0], r[3])
    arr = np.array(rows)
    if form == "array4":
        return arr, table
    fr = pd.DataFrame(arr, columns=["tomo_id", "x", "y", "z"])
    if rng.random() < 0.5:
        fr.index = rng.permutation(len(fr)) + 10
    return fr, table


def snapshot(obj):
    if isinstance(obj, pd.DataFrame):
        return ("df", obj.copy(deep=True), list(obj.index), list(obj.columns))
    if isinstance(obj, np.ndarray):
        return ("arr", obj.copy())
    if isinstance(obj, rot):
        return ("rot", obj.as_quat().copy())
    return ("py", copy.deepcopy(obj))


def unchanged(obj, snap):
    if snap[0] == "df":
        return obj.equals(snap[1]) and list(obj.index) == snap[2] and list(obj.columns) == snap[3]
    if snap[0] == "arr":
        return np.array_equal(obj, snap[1])
    if snap[0] == "rot":
        return np.array_equal(obj.as_quat(), snap[1])
    return obj == snap[1]


def same_frames(a, b):
    return (
        list(a.columns) == list(b.columns)
        and list(a.index) == list(b.index)
        and list(a.dtypes) == list(b.dtypes)
        and np.array_equal(a.to_numpy(dtype=float), b.to_numpy(dtype=float), equal_nan=True)
    )


def run_flip_both(m, arg):
    """patched (module) flip and original text on copies of the same list; returns the motl after the module's flip"""
    m_new, m_old = copy.deepcopy(m), copy.deepcopy(m)
    arg_new, arg_old = copy.deepcopy(arg), copy.deepcopy(arg)
    snap = snapshot(arg)
    res = []
    for mm, aa, f in ((m_new, arg_new, Motl.flip_handedness), (m_old, arg_old, orig_flip_handedness)):
        try:
            r, _ = quiet(f, mm, aa)
            res.append(("ok", r))
        except Exception as e:  # same failure expected on both sides
            res.append(("exc", type(e).__name__))
        if aa is not None:
            check(unchanged(aa, snap), "flip_handedness changed the caller's dimension argument")
    check(res[0] == res[1], f"flip_handedness: outcome differs from the original function: {res}")
    check(same_frames(m_new.df, m_old.df), "flip_handedness: table differs from the original function")
    return m_new


def main():
    rng = np.random.default_rng(20240511)
    n_hist = 0
    for it in range(170):
        n = int(rng.choice([0, 1, 2, 3, 7, 12, 25]))
        kind = rng.choice(["int", "ties", "negative", "any"])
        m = random_motl(rng, n, kind)
        if n == 0:
            # only the flip works on an empty list in every pandas version; compare with the original and go on
            for arg in (None, [100.0, 100.0, 50.0], np.array([[1.0, 10, 10, 10], [2.0, 20, 20, 20]])):
                m2 = run_flip_both(m, arg)
                check(len(m2.df) == 0, "empty list does not stay empty")
            continue
        pos, R = pos_of(m.df), mats_of(m.df)
        tomo = m.df["tomo_id"].to_numpy().copy()
        n_ops = int(rng.integers(1, 7))
        n_hist += 1
        for step in range(n_ops):
            op = rng.choice(["update", "scale", "shift", "rotate", "flip", "flip", "flip_nodims", "flip_twice"])
            if op == "update":
                quiet(m.update_coordinates)
                xyz = m.df[["x", "y", "z"]].to_numpy(dtype=float)
                sh = m.df[["shift_x", "shift_y", "shift_z"]].to_numpy(dtype=float)
                check(np.array_equal(xyz, np.round(xyz)), "update_coordinates: x, y, z not integer")
                check(np.all(np.abs(sh) <= 0.5), "update_coordinates: |shift| > 0.5")
                tie = np.abs(np.abs(pos - np.trunc(pos)) - 0.5) < 1e-12
                away = np.sign(pos) * np.floor(np.abs(pos) + 0.5)
                check(np.array_equal(xyz[tie], away[tie]), "update_coordinates: tie not rounded half up (away from zero)")
            elif op == "scale":
                f = float(rng.choice([0.25, 0.5, 2.0, 4.0, 1.0, rng.uniform(0.1, 5.0)]))
                m.scale_coordinates(f)
                pos = pos * f
            elif op == "shift":
                s = rng.uniform(-10, 10, 3)
                s_arg = s.copy() if rng.random() < 0.5 else list(s)
                snap = snapshot(s_arg)
                if rng.random() < 0.5:
                    m.shift_positions(s_arg)
                else:
                    before = m.df.copy(deep=True)
                    m_new = m.shift_positions(s_arg, inplace=False)
                    check(same_frames(m.df, before), "shift_positions(inplace=False) changed the list")
                    m = m_new
                check(unchanged(s_arg, snap), "shift_positions changed the shift vector")
                pos = pos + np.einsum("nij,j->ni", R, s)
            elif op == "rotate":
                q = rng.normal(size=4)
                Q = rot.from_quat(q)
                snap = snapshot(Q)
                m.apply_rotation(Q)
                check(unchanged(Q, snap), "apply_rotation changed the rotation")
                R = R @ quat_to_mat(q)
            elif op == "flip_nodims":
                m = run_flip_both(m, None)
                R = MIRROR @ R @ MIRROR
            else:
                arg, table = random_dims(rng, tomo)
                times = 2 if op == "flip_twice" else 1
                start_df = m.df.copy(deep=True)
                for _ in range(times):
                    m = run_flip_both(m, arg)
                    R = MIRROR @ R @ MIRROR
                    if isinstance(table, dict):
                        dz = np.array([table.get(t, np.nan) for t in tomo])
                    else:
                        dz = np.full(len(tomo), table)
                    covered = ~np.isnan(dz)
                    pos = pos.copy()
                    pos[covered, 2] = dz[covered] + 1 - pos[covered, 2]
                if times == 2:
                    check(
                        list(m.df.index) == list(start_df.index)
                        and np.allclose(m.df.to_numpy(dtype=float), start_df.to_numpy(dtype=float), atol=1e-9, rtol=0),
                        "flip_handedness twice does not restore the list",
                    )
            # observe after every operation
            scale = max(1.0, np.abs(pos).max())
            check(np.allclose(pos_of(m.df), pos, atol=1e-9 * scale, rtol=0), f"complete position wrong after {op} (history {it})")
            check(np.allclose(mats_of(m.df), R, atol=1e-9, rtol=0), f"orientation wrong after {op} (history {it})")
            check(np.allclose(m.get_coordinates(), pos, atol=1e-9 * scale, rtol=0), f"get_coordinates wrong after {op}")
            check(
                np.allclose(m.get_rotations().as_matrix().reshape(-1, 3, 3), R, atol=1e-9, rtol=0)
                if hasattr(m, "get_rotations")
                else True,
                f"get_rotations wrong after {op}",
            )
            check(np.array_equal(m.df["tomo_id"].to_numpy(), tomo), "tomo_id changed")

    # composition laws on the same objects, repeated calls
    for it in range(25):
        m = random_motl(rng, 9, "any")
        s1, s2 = rng.uniform(-8, 8, 3), rng.uniform(-8, 8, 3)
        a, b = copy.deepcopy(m), copy.deepcopy(m)
        a.shift_positions(s1)
        a.shift_positions(s2)
        b.shift_positions(s1 + s2)
        check(np.allclose(pos_of(a.df), pos_of(b.df), atol=1e-9, rtol=0), "shift s1 then s2 != s1+s2")
        q1, q2 = rot.from_quat(rng.normal(size=4)), rot.from_quat(rng.normal(size=4))
        a, b = copy.deepcopy(m), copy.deepcopy(m)
        a.apply_rotation(q1)
        a.apply_rotation(q2)
        b.apply_rotation(q1 * q2)
        check(np.allclose(mats_of(a.df), mats_of(b.df), atol=1e-9, rtol=0), "Q1 then Q2 != Q1*Q2")
        # the same dimension table object used for several lists and several times
        arg, table = random_dims(rng, None)
        snap = snapshot(arg)
        c = copy.deepcopy(m)
        for k in range(4):
            c = run_flip_both(c, arg)
        check(unchanged(arg, snap), "dimension table changed by repeated flips")
        check(np.allclose(pos_of(c.df), pos_of(m.df), atol=1e-9, rtol=0), "four flips do not restore the positions")
        check(np.allclose(mats_of(c.df), mats_of(m.df), atol=1e-9, rtol=0), "four flips do not restore the orientations")

    print(f"histories: {n_hist}, failures: {len(FAILS)}")
    if FAILS:
        print("FAILED")
        sys.exit(1)
    print("PASS")


if __name__ == "__main__":
    main()
