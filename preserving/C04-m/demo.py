"""C04 / change c -- motl_idx written once: the copy of the subtomogram numbers is skipped when a reset overwrites it
anyway, early return in sg_df_reset_index, bound computed once (kind 6, shortcuts that are exactly right).

Part 1 checks the property (lossless renaming, same order, parity half-sets, motl_idx, STAR round trip) against an
independent computation (hand-written renaming table, own STAR parser, exact rational rounding for update_coord).
Part 2 compares the functions of the imported cryocat (clean or patched) with verbatim copies of the original
functions on the same inputs: frames exactly (values, dtypes, index, column order), files byte by byte.

Run:  cd /tmp/wt7/C04 && /venv/bin/python /tmp/seedsS/C04/c/demo.py
"""
import sys, os

sys.path.insert(0, os.getcwd())

import math
import shutil
import tempfile
import warnings
from fractions import Fraction

warnings.filterwarnings("ignore")

import numpy as np
import pandas as pd

from cryocat import cryomotl, starfileio
from cryocat.cryomotl import Motl, StopgapMotl, EmMotl
from cryocat.exceptions import UserInputError

SEED = int(os.environ.get("DEMO_SEED", "4104"))
rng = np.random.default_rng(SEED)
TMP = tempfile.mkdtemp(prefix="c04c_")
FAILS = []


def fail(msg):
    FAILS.append(msg)
    if len(FAILS) <= 20:
        print("FAIL:", msg)


# ----------------------------------------------------------------------------------------------------------------------
# independent description of the format (written by hand, not taken from the package)
# ----------------------------------------------------------------------------------------------------------------------
RENAME = [  # (cryoCAT name, STOPGAP name) -- the 14 shared fields
    ("score", "score"),
    ("subtomo_id", "subtomo_num"),
    ("tomo_id", "tomo_num"),
    ("object_id", "object"),
    ("x", "orig_x"),
    ("y", "orig_y"),
    ("z", "orig_z"),
    ("shift_x", "x_shift"),
    ("shift_y", "y_shift"),
    ("shift_z", "z_shift"),
    ("phi", "phi"),
    ("psi", "psi"),
    ("theta", "the"),
    ("class", "class"),
]
SG_ORDER = "motl_idx tomo_num object subtomo_num halfset orig_x orig_y orig_z score x_shift y_shift z_shift phi psi the class".split()
MOTL_ORDER = (
    "score geom1 geom2 subtomo_id tomo_id object_id subtomo_mean x y z shift_x shift_y shift_z geom3 geom4 geom5 "
    "phi psi theta class"
).split()
STAR_TOL = 5.0e-7 + 1e-9  # values are written with 6 decimals


def parse_star(path):
    """Minimal STAR reader: returns (block names, {block: (columns, rows of strings)})."""
    with open(path) as fh:
        lines = [ln.rstrip("\n") for ln in fh]
    blocks, order = {}, []
    i = 0
    while i < len(lines):
        ln = lines[i].strip()
        if ln.startswith("data_"):
            name = ln
            i += 1
            while lines[i].strip() != "loop_":
                i += 1
            i += 1
            cols = []
            while i < len(lines) and lines[i].strip().startswith("_"):
                cols.append(lines[i].strip()[1:].split()[0])
                i += 1
            rows = []
            while i < len(lines) and not lines[i].strip().startswith("data_"):
                if lines[i].strip() and not lines[i].strip().startswith("#"):
                    rows.append(lines[i].split())
                i += 1
            blocks[name] = (cols, rows)
            order.append(name)
        else:
            i += 1
    return order, blocks


def half_up(v):
    """Round half away from zero, exactly (rational arithmetic)."""
    f = Fraction(float(v))
    r = math.floor(abs(f) + Fraction(1, 2))
    return float(r if f >= 0 else -r)


def expected_fields(df, update_coord):
    """dict cryoCAT name -> expected values of the 14 shared fields (after the optional coordinate update)."""
    exp = {em: np.asarray(df[em], dtype=float).copy() for em, _ in RENAME}
    if update_coord:
        for c, s in (("x", "shift_x"), ("y", "shift_y"), ("z", "shift_z")):
            total = np.asarray(df[c], dtype=float) + np.asarray(df[s], dtype=float)
            new_c = np.array([half_up(t) for t in total])
            exp[c] = new_c
            exp[s] = total - new_c
    return exp


def expected_halfset(subtomo):
    return ["A" if int(round(float(v))) % 2 == 0 else "B" for v in subtomo]


# ----------------------------------------------------------------------------------------------------------------------
# inputs
# ----------------------------------------------------------------------------------------------------------------------
def make_motl_df(n, variant):
    data = rng.normal(size=(n, 20)) * rng.choice([1.0, 50.0, 1000.0])
    df = pd.DataFrame(data, columns=MOTL_ORDER)
    ids = rng.choice(np.arange(-40, 200000), size=n, replace=False)
    if variant % 4 == 1:
        ids = np.sort(ids)[::-1]
    if variant % 4 == 2:  # starts at 0, with gaps
        ids = np.cumsum(rng.integers(1, 4, size=n)) - 1
        ids[0] = 0
    df["subtomo_id"] = ids.astype(float) if variant % 2 == 0 else ids.astype(np.int64)
    df["tomo_id"] = rng.integers(0, 12, size=n).astype(float)
    df["object_id"] = rng.integers(0, 500, size=n).astype(float)
    df["class"] = rng.integers(-1, 5, size=n).astype(float)
    df["phi"] = rng.uniform(-180, 180, size=n)
    df["psi"] = rng.uniform(-180, 180, size=n)
    df["theta"] = rng.uniform(0, 180, size=n)
    if variant % 3 == 0:  # poles of the Euler angles, zeros, negative zero, integers, large and tiny values
        df.loc[df.index[0], "theta"] = 0.0
        df.loc[df.index[-1], "theta"] = 180.0
        df.loc[df.index[0], ["phi", "psi"]] = [0.0, -180.0]
        df.loc[df.index[-1], ["shift_x", "shift_y", "shift_z"]] = [0.0, -0.0, 0.5]
        df.loc[df.index[0], ["x", "y", "z"]] = [2.0, -3.0, 0.0]
        df.loc[df.index[0], ["shift_x", "shift_y", "shift_z"]] = [0.5, -0.5, 1.5]  # exact rounding thresholds
        df.loc[df.index[-1], "score"] = 0.0
        df.loc[df.index[n // 2], "score"] = 123456.654321
        df.loc[df.index[n // 2], "x"] = 1.0e-7
    if variant % 5 == 3:  # non-default row index
        df.index = rng.permutation(np.arange(1000, 1000 + n))
    if variant % 5 == 4:
        df.index = [f"p{i}" for i in range(n)]
    return df


# ----------------------------------------------------------------------------------------------------------------------
# part 1: the property
# ----------------------------------------------------------------------------------------------------------------------
def check_sg_frame(tag, sg, src, reset):
    if list(sg.columns) != SG_ORDER:
        fail(f"{tag}: column order {list(sg.columns)}")
        return
    if len(sg) != len(src):
        fail(f"{tag}: {len(sg)} rows for {len(src)} particles")
        return
    for em, sgn in RENAME:
        a = np.asarray(sg[sgn], dtype=float)
        b = np.asarray(src[em], dtype=float)
        if not np.array_equal(a, b):
            fail(f"{tag}: field {em}->{sgn} not copied unchanged / in order")
    if list(sg["halfset"]) != expected_halfset(src["subtomo_id"]):
        fail(f"{tag}: halfset parity")
    want = np.arange(1, len(src) + 1) if reset else np.asarray(src["subtomo_id"], dtype=float)
    if not np.array_equal(np.asarray(sg["motl_idx"], dtype=float), want.astype(float)):
        fail(f"{tag}: motl_idx (reset={reset})")


def check_star_file(tag, path, exp, reset):
    order, blocks = parse_star(path)
    if order != ["data_stopgap_motivelist"]:
        fail(f"{tag}: blocks in file {order}")
        return
    cols, rows = blocks["data_stopgap_motivelist"]
    if cols != SG_ORDER:
        fail(f"{tag}: columns in file {cols}")
        return
    n = len(exp["score"])
    if len(rows) != n or any(len(r) != 16 for r in rows):
        fail(f"{tag}: {len(rows)} rows in file for {n} particles")
        return
    tab = {c: [r[k] for r in rows] for k, c in enumerate(cols)}
    for em, sgn in RENAME:
        got = np.array([float(v) for v in tab[sgn]])
        if not np.all(np.abs(got - exp[em]) <= STAR_TOL):
            fail(f"{tag}: file field {sgn} differs by {np.max(np.abs(got - exp[em]))}")
    if tab["halfset"] != expected_halfset(exp["subtomo_id"]):
        fail(f"{tag}: file halfset parity")
    want = np.arange(1, n + 1, dtype=float) if reset else exp["subtomo_id"]
    if not np.array_equal(np.array([float(v) for v in tab["motl_idx"]]), want):
        fail(f"{tag}: file motl_idx (reset={reset})")


def check_loaded(tag, df, exp):
    if len(df) != len(exp["score"]):
        fail(f"{tag}: loaded {len(df)} rows")
        return
    for em, _ in RENAME:
        got = np.asarray(df[em], dtype=float)
        if not np.all(np.abs(got - exp[em]) <= STAR_TOL):
            fail(f"{tag}: loaded field {em} differs by {np.max(np.abs(got - exp[em]))}")


def property_checks():
    sizes = [1, 1, 2, 3, 4, 7, 16, 17, 64, 150, 300]
    case = 0
    for n in sizes:
        for variant in range(n % 2, 15, 2 if n <= 17 else 5):
            case += 1
            src = make_motl_df(n, variant)
            keep = src.copy(deep=True)
            for reset in (False, True):
                tag = f"n={n} v={variant} reset={reset}"
                # in-memory path, repeated calls on the same objects
                m = StopgapMotl(src)
                for rep in range(2):
                    sg = StopgapMotl.convert_to_sg_motl(m.df, reset_index=reset)
                    check_sg_frame(tag + f" mem#{rep}", sg, src, reset)
                sg_pos = StopgapMotl.convert_to_sg_motl(src, reset)  # straight from the caller's frame
                check_sg_frame(tag + " mem-direct", sg_pos, src, reset)
                # import direction in memory: STOPGAP frame -> particle list
                back = StopgapMotl(sg)
                check_loaded(tag + " import-mem", back.df, expected_fields(src, False))
                if not np.array_equal(np.asarray(back.df["subtomo_id"], dtype=float), np.asarray(src["subtomo_id"], dtype=float)):
                    fail(tag + ": import changed the particle order")
                for upd in (False, True):
                    if upd and n > 64 and variant % 8:
                        continue  # row-wise update is slow; a few large cases are enough
                    exp = expected_fields(src, upd)
                    path = os.path.join(TMP, f"c{case}_{int(reset)}{int(upd)}.star")
                    m = StopgapMotl(src)
                    m.write_out(path, update_coord=upd, reset_index=reset)
                    check_star_file(tag + f" upd={upd} file", path, exp, reset)
                    loaded = StopgapMotl(path)
                    check_loaded(tag + f" upd={upd} load", loaded.df, exp)
                    check_loaded(tag + f" upd={upd} stopgap2emmotl", cryomotl.stopgap2emmotl(path).df, exp)
                    # second write of the same object (coordinates already updated -> nothing moves any more)
                    path2 = path[:-5] + "_again.star"
                    m.write_out(path2, update_coord=False, reset_index=reset)
                    check_star_file(tag + f" upd={upd} file again", path2, exp, reset)
                    # wrapper
                    path3 = path[:-5] + "_w.star"
                    w = cryomotl.emmotl2stopgap(src, path3, update_coordinates=upd, reset_index=reset)
                    check_star_file(tag + f" upd={upd} emmotl2stopgap", path3, exp, reset)
                    check_loaded(tag + f" upd={upd} emmotl2stopgap obj", w.df, exp)
            if not keep.equals(src) or list(keep.index) != list(src.index):
                fail(f"n={n} v={variant}: the caller's frame was modified")
    return case


# ----------------------------------------------------------------------------------------------------------------------
# part 2: verbatim copies of the original functions (tree at HEAD), compared with the imported ones
# ----------------------------------------------------------------------------------------------------------------------
def orig_get_specifier_id(speficiers, specifier_id):
    if specifier_id in speficiers:
        return speficiers.index(specifier_id)
    else:
        return None


class OrigStopgapMotl(Motl):
    pairs = {
        "subtomo_id": "subtomo_num",
        "tomo_id": "tomo_num",
        "object_id": "object",
        "x": "orig_x",
        "y": "orig_y",
        "z": "orig_z",
        "score": "score",
        "shift_x": "x_shift",
        "shift_y": "y_shift",
        "shift_z": "z_shift",
        "phi": "phi",
        "psi": "psi",
        "theta": "the",
        "class": "class",
    }

    columns = [
        "motl_idx",
        "tomo_num",
        "object",
        "subtomo_num",
        "halfset",
        "orig_x",
        "orig_y",
        "orig_z",
        "score",
        "x_shift",
        "y_shift",
        "z_shift",
        "phi",
        "psi",
        "the",
        "class",
    ]

    def __init__(self, input_motl=None):
        super().__init__()
        self.sg_df = pd.DataFrame()

        if input_motl is not None:
            if isinstance(input_motl, OrigStopgapMotl):
                self.df = input_motl.df.copy()
                self.sg_df = input_motl.sg_df.copy()

            elif isinstance(input_motl, pd.DataFrame):
                self.check_df_type(input_motl)
            elif isinstance(input_motl, str):
                sg_df = self.read_in(input_motl)
                self.convert_to_motl(sg_df)
            else:
                raise UserInputError(
                    f"Provided input_motl is neither DataFrame nor path to the motl file: {input_motl}."
                )

    @staticmethod
    def read_in(input_path):
        frames, specifiers, _ = starfileio.Starfile.read(input_path)

        if "data_stopgap_motivelist" not in specifiers:
            raise UserInputError(f"Provided starfile does not contain particle list: {input_path}.")
        else:
            sg_id = orig_get_specifier_id(specifiers, "data_stopgap_motivelist")
            stopgap_df = frames[sg_id]

        return stopgap_df

    def convert_to_motl(self, stopgap_df, keep_halfsets=False):
        self.sg_df = stopgap_df

        for em_key, star_key in OrigStopgapMotl.pairs.items():
            self.df[em_key] = stopgap_df[star_key]

        if keep_halfsets:
            if stopgap_df["halfset"].nunique() == 2:
                self.df["geom3"] = [1.0 if hs.lower() == "a" else 0.0 for hs in stopgap_df["halfset"]]
                halfset_num = self.df["geom3"].values % 2
                c = 1 if halfset_num[0] == 1 else 2
                subtomo_id_num = [c]
                for i in range(1, self.df.shape[0]):
                    if (c % 2 == 1 and halfset_num[i] == 1) or (c % 2 == 0 and halfset_num[i] == 0):
                        c += 2
                    else:
                        c += 1
                    subtomo_id_num.append(c)

                self.df["geom3"] = self.df["subtomo_id"]
                self.df["subtomo_id"] = subtomo_id_num

    @staticmethod
    def convert_to_sg_motl(motl_df, reset_index=False):
        stopgap_df = pd.DataFrame(data=np.zeros((motl_df.shape[0], 16)), columns=OrigStopgapMotl.columns)

        for em_key, star_key in OrigStopgapMotl.pairs.items():
            stopgap_df[star_key] = motl_df[em_key].values

        stopgap_df["halfset"] = np.where(motl_df["subtomo_id"].mod(2).eq(0).to_numpy(), "A", "B")
        stopgap_df["motl_idx"] = stopgap_df["subtomo_num"]

        stopgap_df = OrigStopgapMotl.sg_df_reset_index(stopgap_df, reset_index)

        return stopgap_df

    @staticmethod
    def sg_df_reset_index(stopgap_df, reset_index=False):
        if reset_index:
            stopgap_df["motl_idx"] = range(1, stopgap_df.shape[0] + 1)

        return stopgap_df

    def write_out(self, output_path, update_coord=False, reset_index=False):
        if update_coord:
            self.update_coordinates()

        if output_path.endswith(".star"):
            stopgap_df = OrigStopgapMotl.convert_to_sg_motl(self.df, reset_index)
            stopgap_df.fillna(0, inplace=True)
            starfileio.Starfile.write([stopgap_df], output_path, specifiers=["data_stopgap_motivelist"])
        elif output_path.endswith(".em"):
            super().write_out(output_path=output_path, motl_type="emmotl")


def same_frame(tag, a, b):
    try:
        pd.testing.assert_frame_equal(a, b, check_exact=True, check_dtype=True, check_index_type=True, check_column_type=True)
    except AssertionError as err:
        fail(f"{tag}: patched and original frames differ: {str(err).splitlines()[-1]}")
        return
    if list(a.dtypes) != list(b.dtypes):
        fail(f"{tag}: dtypes differ")


def same_file(tag, pa, pb):
    with open(pa, "rb") as fa, open(pb, "rb") as fb:
        if fa.read() != fb.read():
            fail(f"{tag}: written files differ")


def outcome(fn, *args, **kwargs):
    """('ok', value) or ('raise', exception type name) -- to compare failure behaviour as well."""
    try:
        return ("ok", fn(*args, **kwargs))
    except Exception as err:  # noqa: BLE001 - the type is what is compared
        return ("raise", type(err).__name__)


def foreign_block_file(path_in, path_out, where):
    """Copy of a STOPGAP star file with an unrelated data block before / after the particle list."""
    body = open(path_in).read()
    extra = "\ndata_optics\n\nloop_\n_rlnOpticsGroup #1\n_rlnVoltage #2\n1\t300.0\n2\t200.0\n\n"
    with open(path_out, "w") as fh:
        fh.write(extra + body if where == "before" else body + extra)


def compare_reset_helper():
    """sg_df_reset_index on its own: every truth value of the flag, empty / single-row frames, frames whose motl_idx
    has another dtype or is missing, identity of the returned object, in-place effect on the argument."""
    n_cmp = 0
    flags = [False, True, None, 0, 1, 2, -1, 0.0, 0.5, "", "no", [], [0], (), np.bool_(False), np.bool_(True), np.int64(0)]
    for n in [0, 1, 2, 5, 300]:
        base = OrigStopgapMotl.convert_to_sg_motl(make_motl_df(max(n, 1), n).iloc[:n])
        variants = {"as exported": base}
        v = base.copy()
        v["motl_idx"] = v["motl_idx"].astype(float) + 0.25
        variants["float idx"] = v
        v = base.copy()
        v["motl_idx"] = [f"s{k}" for k in range(n)]
        variants["string idx"] = v
        variants["no idx column"] = base.drop(columns=["motl_idx"])
        v = base.copy()
        v.index = np.arange(n)[::-1] + 7
        variants["other row index"] = v
        variants["not a stopgap frame"] = pd.DataFrame({"a": np.arange(n, dtype=float)})
        for vname, frame in variants.items():
            for flag in flags:
                fa, fb = frame.copy(), frame.copy()
                ra = StopgapMotl.sg_df_reset_index(fa, flag)
                rb = OrigStopgapMotl.sg_df_reset_index(fb, flag)
                tag = f"sg_df_reset_index n={n} {vname} flag={flag!r}"
                if (ra is fa) != (rb is fb):
                    fail(tag + ": identity of the returned frame differs")
                same_frame(tag + " result", ra, rb)
                same_frame(tag + " argument", fa, fb)
                if not flag:
                    same_frame(tag + " untouched", fa, frame)
                n_cmp += 1
            same_frame(
                f"sg_df_reset_index n={n} {vname} default flag",
                StopgapMotl.sg_df_reset_index(frame.copy()),
                OrigStopgapMotl.sg_df_reset_index(frame.copy()),
            )
    # flags without a truth value fail in both versions, with the same exception type
    for flag in (np.array([True, False]), pd.Series([1, 2])):
        frame = OrigStopgapMotl.convert_to_sg_motl(make_motl_df(3, 0))
        a, b = outcome(StopgapMotl.sg_df_reset_index, frame.copy(), flag), outcome(OrigStopgapMotl.sg_df_reset_index, frame.copy(), flag)
        if a[0] != "raise" or a != b:
            fail(f"ambiguous flag in sg_df_reset_index: {a} vs {b}")
        a, b = outcome(StopgapMotl.convert_to_sg_motl, make_motl_df(3, 0), flag), outcome(OrigStopgapMotl.convert_to_sg_motl, make_motl_df(3, 0), flag)
        if a[0] != "raise" or a != b:
            fail(f"ambiguous flag in convert_to_sg_motl: {a} vs {b}")
        n_cmp += 2
    # the export with every truth value of the flag, for id columns of every dtype the callers produce
    for n in [0, 1, 2, 17, 300]:
        src = make_motl_df(max(n, 1), 3 + n).iloc[:n]
        for id_dtype in (float, np.int64, np.int32, np.float32, object):
            frame = src.copy()
            frame["subtomo_id"] = frame["subtomo_id"].astype(id_dtype)
            for flag in flags:
                keep = frame.copy()
                new = StopgapMotl.convert_to_sg_motl(frame, flag)
                old = OrigStopgapMotl.convert_to_sg_motl(frame, flag)
                tag = f"convert_to_sg_motl n={n} ids {getattr(id_dtype, '__name__', id_dtype)} flag={flag!r}"
                same_frame(tag, new, old)
                same_frame(tag + " source untouched", frame, keep)
                if n and not isinstance(new["motl_idx"].iloc[0], type(old["motl_idx"].iloc[0])):
                    fail(tag + ": element type of motl_idx differs")
                # the result is a fresh frame in both versions: writing into it must not reach the source
                if n:
                    new.loc[0, "motl_idx"] = -5
                    same_frame(tag + " source untouched after write", frame, keep)
                n_cmp += 1
    return n_cmp


def compare_with_original():
    n_cmp = compare_reset_helper()
    # the constants must spell the same format
    if getattr(StopgapMotl, "columns") != OrigStopgapMotl.columns or StopgapMotl.pairs != OrigStopgapMotl.pairs:
        fail("tables pairs / columns changed")
    if list(StopgapMotl.pairs.items()) != list(OrigStopgapMotl.pairs.items()):
        fail("order of pairs changed")
    for n in [0, 1, 2, 3, 16, 17, 120, 300]:
        for variant in range(0, 6 if n <= 17 else 2):
            src = make_motl_df(max(n, 1), variant).iloc[: n if n else 0]
            frames = {"plain": src}
            if n:
                holes = src.copy()
                holes.iloc[rng.integers(0, n), rng.integers(0, 20)] = np.nan  # NaN hole (outside the quantifier)
                holes.loc[holes.index[0], "score"] = np.nan
                frames["holes"] = holes
                ints = src.copy()
                for c in ("subtomo_id", "tomo_id", "object_id", "class"):
                    ints[c] = ints[c].astype(np.int64)
                frames["ints"] = ints
                frac = src.copy()
                frac["subtomo_id"] = frac["subtomo_id"].astype(float) + 0.5  # neither even nor odd
                frames["fractional ids"] = frac
            for fname, frame in frames.items():
                for reset in (False, True, None, 0, 1, "", "yes"):
                    tag = f"cmp n={n} v={variant} {fname} reset={reset!r}"
                    new = StopgapMotl.convert_to_sg_motl(frame, reset)
                    old = OrigStopgapMotl.convert_to_sg_motl(frame, reset)
                    same_frame(tag + " convert_to_sg_motl", new, old)
                    n_cmp += 1
                same_frame(
                    f"cmp n={n} v={variant} {fname} default",
                    StopgapMotl.convert_to_sg_motl(frame),
                    OrigStopgapMotl.convert_to_sg_motl(frame),
                )
                if n == 0 or variant > 2 or fname == "fractional ids":
                    continue
                for reset in (False, True):
                    for upd in (False, True):
                        if upd and (n > 17 or fname == "holes"):
                            continue
                        pa = os.path.join(TMP, "new.star")
                        pb = os.path.join(TMP, "old.star")
                        a, b = StopgapMotl(frame), OrigStopgapMotl(frame)
                        if fname == "holes":  # NaN reaches the writer only when it is put in after construction
                            a.df.loc[0, "score"] = np.nan
                            b.df.loc[0, "score"] = np.nan
                        a.write_out(pa, update_coord=upd, reset_index=reset)
                        b.write_out(pb, update_coord=upd, reset_index=reset)
                        tag = f"cmp n={n} v={variant} {fname} reset={reset} upd={upd}"
                        same_file(tag, pa, pb)
                        same_frame(tag + " df after write", a.df, b.df)
                        # reading: block first, block after / before a foreign block
                        same_frame(tag + " read_in", StopgapMotl.read_in(pa), OrigStopgapMotl.read_in(pa))
                        la, lb = StopgapMotl(pa), OrigStopgapMotl(pa)
                        same_frame(tag + " load df", la.df, lb.df)
                        same_frame(tag + " load sg_df", la.sg_df, lb.sg_df)
                        for where in ("before", "after") if variant == 0 else ():
                            pc = os.path.join(TMP, f"foreign_{where}.star")
                            foreign_block_file(pa, pc, where)
                            same_frame(tag + f" read_in foreign {where}", StopgapMotl.read_in(pc), OrigStopgapMotl.read_in(pc))
                            same_frame(tag + f" load foreign {where}", StopgapMotl(pc).df, OrigStopgapMotl(pc).df)
                        n_cmp += 1
    # a star file without the particle list: same refusal
    p_no = os.path.join(TMP, "no_list.star")
    with open(p_no, "w") as fh:
        fh.write("\ndata_optics\n\nloop_\n_rlnOpticsGroup #1\n1\n\n")
    ra, rb = outcome(StopgapMotl.read_in, p_no), outcome(OrigStopgapMotl.read_in, p_no)
    if ra != rb or ra != ("raise", "UserInputError"):
        fail(f"file without particle list: {ra} vs {rb}")
    p_missing = os.path.join(TMP, "does_not_exist.star")
    ra, rb = outcome(StopgapMotl.read_in, p_missing), outcome(OrigStopgapMotl.read_in, p_missing)
    if ra != rb:
        fail(f"missing file: {ra} vs {rb}")
    # paths that are neither .star nor .em: nothing is written by either
    for suffix in (".txt", ".STAR", ""):
        pa, pb = os.path.join(TMP, "na" + suffix), os.path.join(TMP, "nb" + suffix)
        StopgapMotl(make_motl_df(3, 1)).write_out(pa)
        OrigStopgapMotl(make_motl_df(3, 1)).write_out(pb)
        if os.path.exists(pa) != os.path.exists(pb):
            fail(f"suffix {suffix!r}: one version wrote a file")
    return n_cmp


if __name__ == "__main__":
    try:
        cases = property_checks()
        cmps = compare_with_original()
    finally:
        shutil.rmtree(TMP, ignore_errors=True)
    print(f"seed {SEED}: {cases} particle lists checked against the independent model, {cmps} comparisons with the original functions")
    if FAILS:
        print(f"{len(FAILS)} failures")
        sys.exit(1)
    print("PASS")
