#!/venv/bin/python
"""C07 demo: score-ranked distance suppression keeps a separated, dominating set.

Run as:  cd /tmp/wt13/C07 && /venv/bin/python <this file>

Checks, for Motl.clean_by_distance and tmana.scores_extract_particles of the tree in the current directory,
  (1) the property itself against an independent brute-force computation (cdist based) on many random and edge inputs,
  (2) equality of the outputs with those of the ORIGINAL functions (texts kept below, compiled inside their modules),
  (3) that the caller's inputs are left untouched, and repeated calls on the same objects agree.
Prints PASS and exits 0 when everything holds.
"""
import os, sys

sys.path.insert(0, os.getcwd())

ORIG_CLEAN = r'''
def clean_by_distance(
    self,
    distance_in_voxels,
    feature_id,
    metric_id="score",
    keep_greater=True,
    dist_mask=None,
):
    """Cleans `df` by removing particles closer than a given distnace threshold (in voxels).

    Parameters
    ----------
    distance_in_voxels : float
        The distance cutoff in voxels.
    feature_id : str
        The ID of the feature by which the particles are grouped before cleaning.
    metric_id : str, default='score'
        The ID of the metric to decide which particles to keep. Defaults to "score". The particle with the greater
        value is kept.
    keep_greater: bool, default=True
        Whether to keep the particles with great (True) or lower (False) value. Default is True.
    dist_mask : str or ndarray
        Binary mask/map (or path to it) for directional cleaning. If provided the distance_in_voxels is used to
        find all points within this radius and then those points in the region where the mask is 1
        will be cleaned. Defaults to None.

    Returns
    -------
    None

    Notes
    -----
    This method modifies the `df` attribute of the object.

    """

    # Distance cutoff (pixels)
    d_cut = distance_in_voxels

    # Load mask if provided
    if dist_mask is not None:
        nn_stats = nnana.get_nn_stats_within_radius(self, nn_radius=d_cut, feature=feature_id)
        nn_stats_filtered = nnana.filter_nn_radial_stats(nn_stats, dist_mask)

    # Parse tomograms
    features = np.unique(self.get_feature(feature_id))

    # Initialize clean motl
    cleaned_df = pd.DataFrame()

    # Loop through and clean
    for f in features:
        # Parse tomogram
        feature_m = self.get_motl_subset(f, feature_id=feature_id, reset_index=True)
        n_temp_motl = feature_m.df.shape[0]

        # Parse positions
        pos = feature_m.get_coordinates()

        # Parse scores
        temp_scores = feature_m.df[metric_id].values

        # prepare scores
        if keep_greater:
            # Sort scores
            sort_idx = np.argsort(temp_scores)[::-1]
        else:  # lower than
            # Sort scores
            sort_idx = np.argsort(temp_scores)

        # Temporary keep index
        temp_keep = np.ones((n_temp_motl,), dtype=bool)

        # Loop through in order of score
        for j in sort_idx:
            if temp_keep[j]:

                # classic radius-based cleaning
                if dist_mask is None:
                    # Calculate distances
                    dist = geom.point_pairwise_dist(pos[j, :], pos)
                    # Find cutoff
                    d_cut_idx = dist < d_cut

                    # Keep current entry
                    d_cut_idx[j] = False
                else:
                    d_cut_idx = np.arange(feature_m.df.shape[0])
                    subtomo_id = feature_m.df.loc[j, "subtomo_id"]
                    filtered_idx = nn_stats_filtered.loc[
                        nn_stats_filtered["qp_subtomo_id"] == subtomo_id, "nn_motl_idx"
                    ].values
                    d_cut_idx = np.isin(d_cut_idx, filtered_idx)

                # Remove other entries
                temp_keep[d_cut_idx] = False

        # Add entries to main list
        cleaned_df = pd.concat((cleaned_df, feature_m.df.iloc[temp_keep, :]), ignore_index=True)

    print(f"Cleaned {self.df.shape[0] - cleaned_df.shape[0]} particles.")
    self.df = cleaned_df
'''

ORIG_EXTRACT = r'''
def scores_extract_particles(
    scores_map,
    angles_map,
    angles_list,
    tomo_id,
    particle_diameter,
    object_id=None,
    scores_threshold=None,
    sigma_threshold=None,
    cluster_size=None,
    n_particles=None,
    output_path=None,
    output_type="emmotl",
    angles_order="zxz",
    symmetry="c1",
    angles_numbering=0,
    tomo_mask=None,
):
    """Extracts particles from scores maps produced by template matching with GAPSTOP(TM) or STOPGAP.

    Parameters
    ----------
    scores_map : str or array-like
        Path to the scores map file or the scores map array.
    angles_map : str or array-like
        Path to the angles map file or the angles map array.
    angles_list : str or array-like
        Path to the angles list file or the angles list array.
    tomo_id : int
        Identifier for the tomogram from which particles are being extracted.
    particle_diameter : float
        Diameter of the particle to be used for extraction and clustering.
    object_id : int, optional
        Identifier for the object within the tomogram. Defaults to None.
    scores_threshold : float, optional
        "Direct" threshold for the scores map. If set, all values below this threshold will be removed from the scores
        map. This parameter is useful if one knows exact threshold for the scores map. Defaults to None.
    sigma_threshold : float, optional
        Number of standard deviations above the mean to consider as threshold for particle extraction. This parameter
        is prefered over the scores threshold for "batch" processing since the exact scores threshold might differ
        between different scores maps, while the sigma confidence is relatively stable. If None, the threshold is
        computed using :meth:`cryocat.tmana.compute_scores_map_threshold_triangle` function. Defaults to None.
    cluster_size : int, optional
        Minimum number of particles required to form a cluster. Defaults to None.
    n_particles : int, optional
        Maximum number of particles to extract. Defaults to None.
    output_path : str, optional
        Path to save the output file. If the output_path is not specified no file will be written out. Defaults to None.
    output_type : str, {"emmotl", "stopgap", "relion"}
        Type of the file to be written out. The options are "emmotl", "stopgap", "relion". This parameter is used only
        if output_path is not None. Defaults to "emmotl".
    angles_order : str, {"zxz", "zzx"}
        Order of rotation angles in the angles list. For lists generated by STOPGAP use "zzx". For GAPSTOP(TM)
        use the same angle_order that was used in the list generation (default is "zxz"). Defaults to "zxz".
    symmetry : str, default="c1"
        Symmetry to be applied. The function currently supports only cyclic (C) symmetries. If a non-C symmetry is
        provided, it raises warning and defaults to "c1". Defaults to "c1".
    angles_numbering : int, default=0
        Adjusts the indexing of angles from the angles map. Angle maps from STOPGAP start numbering from 1 and thus
        angles_numbering should be set to 1 to fetch correct angles from the angle lists. GAPSTOP(TM) numbers from 0.
        Defaults to 0.
    tomo_mask: str or array-like, optional
        Path to a binary tomogram mask file or an array containing the mask. If provided the scores maps are multiplied
        with the mask prior any further processing.

    Returns
    -------
    motl : Motl object
        Motl object containing the extracted particle coordinates, scores, and orientations.

    Raises
    ------
    Warning
        If a non-supported symmetry is provided, a warning is issued and the symmetry is set to "c1".

    Notes
    -----
    The function supports only cyclic (C) symmetries. If a non-C symmetry is provided, it defaults to "c1".
    """

    if symmetry.lower().startswith("c"):
        symmetry = int(re.findall(r"\d+", symmetry)[-1])
    else:
        warnings.warn(
            f"Only C symmetry is supported. Provided {symmetry} is currently not supported and will be ignored."
        )
        symmetry = 1

    # load the scores map
    scores_map = cryomap.read(scores_map)

    # load the angles map
    angles_map = cryomap.read(angles_map)

    # Read angle list.
    anglist = ioutils.rot_angles_load(angles_list, angles_order=angles_order)

    # load and apply a tomogram mask if any:
    if tomo_mask is not None:
        tomo_mask = cryomap.read(tomo_mask)
        scores_map = scores_map * tomo_mask

    if object_id is None:
        object_id = 1

    if scores_threshold is not None:
        threshold = scores_threshold
    elif sigma_threshold is None:
        threshold = compute_scores_map_threshold_triangle(scores_map)
    else:
        # Set threshold by sigma value
        score_mean = scores_map.mean()
        score_std = scores_map.std(ddof=1)
        threshold = score_mean + sigma_threshold * score_std

    # Threshold and sort indices/scores
    t_idx = np.where(scores_map > threshold)

    # original piece - not clear whether this is really working
    # if n_particles is not None:
    #    k = min(n_particles, len(t_idx[0]))
    # else:
    k = len(t_idx[0])

    # Check for early termination
    if k == 0:
        return None

    k = min(k, len(scores_map[t_idx])) - 1
    s_idx = np.argpartition(-scores_map[t_idx], k)[: k + 1]
    s_idx = s_idx[np.argsort(-scores_map[t_idx][s_idx])]  # Sort for later

    # Sorted indices. s_ind[0] = x, s_ind[1] = y, s_ind[2] = z
    s_ind = np.array([t_idx[0][s_idx], t_idx[1][s_idx], t_idx[2][s_idx]])
    # n_vox = len(s_idx)

    # Create a list of tuples where each tuple is (coord, score) and sort it by score in descending order
    scored_coords = sorted(zip(s_ind.T, scores_map[s_ind[0], s_ind[1], s_ind[2]]), key=lambda x: x[1], reverse=True)

    # Build a KD-tree with the coordinates
    tree = KDTree([coord for coord, score in scored_coords])

    # Remove any points that are within the specified particle diameter of a higher score point
    coord_to_score = {tuple(coord): score for coord, score in scored_coords}
    remaining_coords = set(coord_to_score.keys())
    filtered_coords = []

    for coord, score in scored_coords:
        if tuple(coord) not in remaining_coords:
            continue
        filtered_coords.append((coord, score))
        nearby_coords = tree.query_ball_point(coord, particle_diameter)
        for nearby_coord in nearby_coords:
            nearby_coord_tuple = tuple(scored_coords[nearby_coord][0])
            if nearby_coord_tuple in remaining_coords and coord_to_score[nearby_coord_tuple] <= score:
                remaining_coords.remove(nearby_coord_tuple)

    # Extract the coordinates from the filtered_coords list
    filtered_coords, filtered_scores = zip(*filtered_coords)
    filtered_coords = np.array(filtered_coords)
    filtered_scores = np.array(filtered_scores)

    # Use DBSCAN to cluster points
    clusterer = DBSCAN(eps=particle_diameter / 2, min_samples=1)
    cluster_labels = clusterer.fit_predict(filtered_coords)

    # Keep track of hits in case of number of particles
    filtered_hit_idx = np.zeros(len(filtered_coords), dtype=bool)

    # Count number of hits
    c = 0
    for cluster_id in np.unique(cluster_labels):
        if cluster_id == -1:
            continue

        # Check cluster size
        if cluster_size is not None:
            c_size = np.sum(cluster_labels == cluster_id)
            if c_size < cluster_size:
                continue

        filtered_hit_idx[cluster_labels == cluster_id] = True
        c += np.sum(cluster_labels == cluster_id)

        # Check for early termination
        # if n_particles is not None and c >= n_particles:
        #    break

    # Remaining positions
    rpos = filtered_coords[filtered_hit_idx]
    filtered_scores = filtered_scores[filtered_hit_idx]
    if n_particles is not None:
        rpos = rpos[0 : min(rpos.shape[0], n_particles), :]
        filtered_scores = filtered_scores[0 : min(rpos.shape[0], n_particles)]

    # Fill orientation and scores
    # Parse angle index
    ang_idx = angles_map[rpos[:, 0], rpos[:, 1], rpos[:, 2]].astype(int) - angles_numbering

    phi = anglist[ang_idx, 0]
    theta = anglist[ang_idx, 1]
    psi = anglist[ang_idx, 2]

    if symmetry > 1:
        add_phi = np.linspace(0, 360, symmetry + 1)
        add_phi = add_phi[:-1]
        phi = phi + np.random.choice(add_phi, size=phi.shape[0])

    ##### Generate motivelist #####
    print("Generating motivelist...")

    motl = cryomotl.Motl()
    motl.fill(
        {
            "x": rpos[:, 0] + 1,
            "y": rpos[:, 1] + 1,
            "z": rpos[:, 2] + 1,
            "score": filtered_scores,
            "class": 1,
            "tomo_id": tomo_id,
            "object_id": object_id,
            "phi": phi,
            "theta": theta,
            "psi": psi,
            "subtomo_id": np.arange(1, rpos.shape[0] + 1),
        }
    )

    del s_ind, scored_coords
    gc.collect()

    if output_path is not None:
        if output_type == "emmotl":
            motl.write_out(output_path)
        elif output_type == "stopgap":
            sg_motl = cryomotl.StopgapMotl(motl.df)
            sg_motl.write_out(output_path=output_path)
        elif output_type == "relion":
            rel_motl = cryomotl.RelionMotl(motl.df)
            rel_motl.write_out(output_path=output_path)
        else:
            raise ValueError(f"The output motl type {output_type} is not currently supported.")

    return motl
'''


# --------------------------------------------------------------------------------------------------------------------
# setup: the original functions are compiled inside the namespaces of their modules, so that they see the same helpers
# --------------------------------------------------------------------------------------------------------------------
import contextlib, io, tempfile, warnings
import numpy as np
import pandas as pd
from scipy.spatial.distance import cdist

warnings.filterwarnings("ignore")

from cryocat import cryomotl, tmana
from cryocat.cryomotl import Motl

_ns = dict(vars(cryomotl))
exec(compile(ORIG_CLEAN, "<orig clean_by_distance>", "exec"), _ns)
orig_clean_by_distance = _ns["clean_by_distance"]
_ns = dict(vars(tmana))
exec(compile(ORIG_EXTRACT, "<orig scores_extract_particles>", "exec"), _ns)
orig_scores_extract_particles = _ns["scores_extract_particles"]

FAILS = []
N_CHECKS = [0]


def check(cond, msg):
    N_CHECKS[0] += 1
    if not cond:
        FAILS.append(msg)
        if len(FAILS) <= 20:
            print("FAIL:", msg)


def quiet(fn, *a, **k):
    with contextlib.redirect_stdout(io.StringIO()):
        return fn(*a, **k)


def same_frame(a, b):
    """exact equality: values, dtypes, column order, index"""
    if a is None or b is None:
        return a is None and b is None
    return (
        list(a.columns) == list(b.columns)
        and a.shape == b.shape
        and list(a.dtypes) == list(b.dtypes)
        and a.index.equals(b.index)
        and type(a.index) is type(b.index)
        and a.equals(b)
    )


# --------------------------------------------------------------------------------------------------------------------
# part 1: Motl.clean_by_distance
# --------------------------------------------------------------------------------------------------------------------
def make_motl(rng, n, n_groups, feature, group_sizes=None, spread=60.0, cluster=True, int_like=False, ties=False):
    df = Motl.create_empty_motl_df()
    if group_sizes is None:
        labels_pool = np.sort(rng.choice(np.arange(1, 50), size=n_groups, replace=False)).astype(float)
        labels = rng.choice(labels_pool, size=n)
    else:
        labels_pool = np.sort(rng.choice(np.arange(1, 50), size=len(group_sizes), replace=False)).astype(float)
        labels = np.repeat(labels_pool, group_sizes)
        rng.shuffle(labels)
        n = len(labels)
    if cluster:
        n_c = max(1, n // 6)
        centres = rng.uniform(0, spread, size=(n_c, 3))
        pos = centres[rng.integers(0, n_c, size=n)] + rng.normal(0, 3.0, size=(n, 3))
    else:
        pos = rng.uniform(0, spread, size=(n, 3))
    df["x"] = np.round(pos[:, 0])
    df["y"] = np.round(pos[:, 1])
    df["z"] = np.round(pos[:, 2])
    shifts = pos - np.round(pos)
    df["shift_x"], df["shift_y"], df["shift_z"] = shifts[:, 0], shifts[:, 1], shifts[:, 2]
    if ties:
        df["score"] = rng.integers(0, 4, size=n).astype(float) / 4.0
    else:
        df["score"] = rng.permutation(n).astype(float) / n + rng.uniform(0, 0.1 / n, size=n)
    df["geom2"] = rng.permutation(n).astype(float)  # a second, unrelated metric
    df["subtomo_id"] = np.arange(1, n + 1, dtype=float)
    df["tomo_id"] = 1.0
    df["object_id"] = 1.0
    df["class"] = 1.0
    df[feature] = labels
    if feature != "tomo_id":
        df["tomo_id"] = rng.integers(1, 4, size=n).astype(float)  # other columns must not matter
    df["phi"] = rng.uniform(0, 360, size=n)
    df = df.fillna(0.0)
    if int_like:
        df["subtomo_id"] = df["subtomo_id"].astype(int)
        df[feature] = df[feature].astype(int)
    # a shuffled, non-default index: the result must not depend on it
    df.index = rng.permutation(n) + 7
    return df


def reference_clean(df, d, feature, metric, keep_greater):
    """independent greedy suppression: group by group, best first, squared distances via cdist"""
    out = []
    for g in sorted(set(df[feature].tolist())):
        sub = df[df[feature] == g]
        xyz = sub[["x", "y", "z"]].to_numpy() + sub[["shift_x", "shift_y", "shift_z"]].to_numpy()
        sc = sub[metric].to_numpy()
        dm = cdist(xyz, xyz)
        order = sorted(range(len(sub)), key=lambda i: (-sc[i] if keep_greater else sc[i]))
        alive = [True] * len(sub)
        for i in order:
            if not alive[i]:
                continue
            for q in range(len(sub)):
                if q != i and dm[i, q] < d:
                    alive[q] = False
        out.append(sub[np.array(alive, dtype=bool)])
    return pd.concat(out).reset_index(drop=True)


def property_clean(before, after, d, feature, metric, keep_greater, tag):
    kept_ids = set(after["subtomo_id"].tolist())
    check(len(kept_ids) == len(after), f"{tag}: duplicated rows in the result")
    check(kept_ids <= set(before["subtomo_id"].tolist()), f"{tag}: foreign rows in the result")
    for g in sorted(set(before[feature].tolist())):
        b = before[before[feature] == g]
        k = b[b["subtomo_id"].isin(kept_ids)]
        r = b[~b["subtomo_id"].isin(kept_ids)]
        kx = k[["x", "y", "z"]].to_numpy() + k[["shift_x", "shift_y", "shift_z"]].to_numpy()
        rx = r[["x", "y", "z"]].to_numpy() + r[["shift_x", "shift_y", "shift_z"]].to_numpy()
        check(len(k) >= 1, f"{tag}: group {g} lost all its particles")
        if len(k) > 1:
            dm = cdist(kx, kx)
            dm[np.diag_indices(len(k))] = np.inf
            check(dm.min() >= d, f"{tag}: group {g}: two kept particles closer than d")
        if len(r):
            dm = cdist(rx, kx)
            ks = k[metric].to_numpy()[None, :]
            rs = r[metric].to_numpy()[:, None]
            better = (ks >= rs) if keep_greater else (ks <= rs)
            check(bool(((dm < d) & better).any(axis=1).all()), f"{tag}: group {g}: removed particle without a dominator")


def run_clean_case(rng, tag, df, d, feature, metric, keep_greater, exact=True):
    # skip exact-distance ties (outside the quantifier)
    xyz = df[["x", "y", "z"]].to_numpy() + df[["shift_x", "shift_y", "shift_z"]].to_numpy()
    if len(df) > 1:
        dm = cdist(xyz, xyz)
        if np.any(np.abs(dm[np.triu_indices(len(df), 1)] - d) < 1e-9):
            return
    pristine = df.copy(deep=True)

    m_new = Motl(df)
    quiet(m_new.clean_by_distance, d, feature, metric_id=metric, keep_greater=keep_greater)
    # the frame handed in by the caller is left untouched (the method replaces self.df, it does not edit it)
    check(same_frame(df, pristine), f"{tag}: caller's frame was modified")

    m_old = Motl(pristine.copy(deep=True))
    quiet(orig_clean_by_distance, m_old, d, feature, metric_id=metric, keep_greater=keep_greater)
    check(same_frame(m_new.df, m_old.df), f"{tag}: result differs from the original function")

    property_clean(pristine, m_new.df, d, feature, metric, keep_greater, tag)
    if exact:
        ref = reference_clean(pristine, d, feature, metric, keep_greater)
        check(
            m_new.df.shape == ref.shape and np.array_equal(m_new.df.to_numpy(dtype=float), ref.to_numpy(dtype=float)),
            f"{tag}: result differs from the independent greedy reference",
        )
    check(isinstance(m_new.df.index, pd.RangeIndex) and m_new.df.index.start == 0, f"{tag}: index not renumbered")

    # groups never affect each other: cleaning one group alone gives that group's part of the result
    groups = sorted(set(pristine[feature].tolist()))
    g = groups[int(rng.integers(0, len(groups)))]
    m_one = Motl(pristine[pristine[feature] == g].copy(deep=True))
    quiet(m_one.clean_by_distance, d, feature, metric_id=metric, keep_greater=keep_greater)
    part = m_new.df[m_new.df[feature] == g].reset_index(drop=True)
    check(same_frame(part, m_one.df), f"{tag}: group {g} cleaned alone differs from its part of the joint result")

    # repeated call on the same object: nothing more is removed, the table stays the same
    first = m_new.df.copy(deep=True)
    quiet(m_new.clean_by_distance, d, feature, metric_id=metric, keep_greater=keep_greater)
    check(same_frame(m_new.df, first), f"{tag}: second call on the same object changed the table")
    # ... and a second, different radius on the same object agrees with the original function as well
    d2 = d * 1.7
    quiet(m_new.clean_by_distance, d2, feature, metric_id=metric, keep_greater=not keep_greater)
    quiet(orig_clean_by_distance, m_old, d2, feature, metric_id=metric, keep_greater=not keep_greater)
    check(same_frame(m_new.df, m_old.df), f"{tag}: chained call differs from the original function")


def part_clean():
    rng = np.random.default_rng(707)
    features = ["tomo_id", "object_id", "class", "geom1", "geom4"]
    # random cases
    for it in range(70):
        n = int(rng.choice([1, 2, 3, 5, 17, 40, 90, 150]))
        if it in (11, 37):
            n = 400
        ng = int(rng.integers(1, 5))
        feature = features[it % len(features)]
        keep_greater = bool(it % 2)
        metric = "score" if it % 7 else "geom2"
        d = float(rng.choice([0.5, 2.0, 4.3, 7.9, 15.0, 200.0]))
        df = make_motl(rng, n, min(ng, n), feature, cluster=bool(it % 3), int_like=(it % 5 == 0))
        run_clean_case(rng, f"clean/random{it}", df, d, feature, metric, keep_greater)
    # groups of very different sizes, a singleton group, a spread-out group (no hits) after a dense one (hits)
    for it in range(12):
        feature = features[it % len(features)]
        sizes = [[30, 1, 12, 2], [1, 1, 1, 1], [50, 3], [2, 80, 1]][it % 4]
        df = make_motl(rng, 0, 0, feature, group_sizes=sizes)
        labels = sorted(set(df[feature].tolist()))
        # second group: far apart, nothing is removed there
        if len(labels) > 1:
            sel = df[feature] == labels[1]
            k = int(sel.sum())
            df.loc[sel, "x"] = 1000.0 + 500.0 * np.arange(k)
        run_clean_case(rng, f"clean/sizes{it}", df, float(rng.choice([3.0, 6.5])), feature, "score", bool(it % 2))
    # tied scores: the exact survivor set depends on the tie order, the property and the comparison with the original do not
    for it in range(10):
        feature = features[it % len(features)]
        df = make_motl(rng, 60, 3, feature, ties=True)
        run_clean_case(rng, f"clean/ties{it}", df, 5.5, feature, "score", bool(it % 2), exact=False)
    # an empty motl (outside the quantifier): compared with the original function only
    res = []
    for fn in (Motl.clean_by_distance, orig_clean_by_distance):
        m = Motl(Motl.create_empty_motl_df())
        quiet(fn, m, 3.0, "tomo_id")
        res.append(m.df)
    check(same_frame(res[0], res[1]), "clean/empty: result differs from the original function")
    # directional cleaning (dist_mask given): outside the property, compared with the original function only
    for it in range(4):
        df = make_motl(rng, 40, 2, "tomo_id")
        df["tomo_id"] = rng.integers(1, 3, size=len(df)).astype(float)
        df = df.reset_index(drop=True)
        mask = np.zeros((20, 20, 20), dtype=np.float32)
        mask[:, :, 10:] = 1.0
        res = []
        for fn in (Motl.clean_by_distance, orig_clean_by_distance):
            m = Motl(df.copy(deep=True))
            try:
                quiet(fn, m, 8.0, "tomo_id", keep_greater=bool(it % 2), dist_mask=mask.copy())
                res.append(m.df)
            except Exception as e:  # same failure on both sides is fine here
                res.append(type(e).__name__)
        if isinstance(res[0], str) or isinstance(res[1], str):
            check(isinstance(res[0], str) and isinstance(res[1], str) and res[0] == res[1], f"clean/mask{it}: {res[0]!r} vs {res[1]!r}")
        else:
            check(same_frame(res[0], res[1]), f"clean/mask{it}: result differs from the original function")


# --------------------------------------------------------------------------------------------------------------------
# part 2: tmana.scores_extract_particles
# --------------------------------------------------------------------------------------------------------------------
def reference_peaks(scores, threshold, diameter):
    idx = np.argwhere(scores > threshold)
    vals = scores[idx[:, 0], idx[:, 1], idx[:, 2]]
    order = np.argsort(-vals, kind="stable")
    idx, vals = idx[order], vals[order]
    alive = np.ones(len(idx), dtype=bool)
    peaks = []
    d2 = float(diameter) ** 2
    for i in range(len(idx)):
        if not alive[i]:
            continue
        peaks.append(i)
        diff = (idx - idx[i]).astype(np.int64)
        near = (diff * diff).sum(axis=1) <= d2
        alive[near] = False
    return idx[peaks], vals[peaks], idx, vals


def run_extract_case(rng, tag, shape, thr_q, diameter, numbering, order, as_file, tmpdir, **extra):
    scores = rng.permutation(int(np.prod(shape))).astype(np.float32).reshape(shape)  # plateau-free
    scores = scores / scores.size
    # a few bright blobs so that neighbouring voxels compete
    n_ang = int(rng.integers(3, 40))
    angles_map = rng.integers(numbering, n_ang + numbering, size=shape).astype(np.float32)
    anglist = np.round(rng.uniform(-180, 180, size=(n_ang, 3)), 3)
    threshold = float(np.quantile(scores, thr_q))
    if as_file:
        path = os.path.join(tmpdir, f"angles_{abs(hash(tag)) % 10**8}.csv")
        pd.DataFrame(anglist).to_csv(path, header=False, index=False)
        ang_arg = path
    else:
        ang_arg = anglist
    p_scores, p_amap, p_alist = scores.copy(), angles_map.copy(), anglist.copy()

    def call(fn):
        np.random.seed(12345)  # the symmetry option draws from the global generator
        return quiet(
            fn,
            scores,
            angles_map,
            ang_arg,
            tomo_id=extra.get("tomo_id", 5),
            particle_diameter=diameter,
            object_id=extra.get("object_id"),
            scores_threshold=None if "sigma" in extra or extra.get("triangle") else threshold,
            sigma_threshold=extra.get("sigma"),
            cluster_size=extra.get("cluster_size"),
            n_particles=extra.get("n_particles"),
            angles_order=order,
            symmetry=extra.get("symmetry", "c1"),
            angles_numbering=numbering,
            tomo_mask=extra.get("tomo_mask"),
        )

    new = call(tmana.scores_extract_particles)
    check(
        np.array_equal(scores, p_scores) and np.array_equal(angles_map, p_amap) and np.array_equal(anglist, p_alist),
        f"{tag}: caller's arrays were modified",
    )
    old = call(orig_scores_extract_particles)
    check(
        same_frame(None if new is None else new.df, None if old is None else old.df),
        f"{tag}: result differs from the original function",
    )
    again = call(tmana.scores_extract_particles)  # repeated call on the same arrays
    check(
        same_frame(None if new is None else new.df, None if again is None else again.df),
        f"{tag}: repeated call gives another result",
    )
    if extra.get("diff_only"):
        return

    peaks, pvals, idx, vals = reference_peaks(scores, threshold, diameter)
    if len(idx) == 0:
        check(new is None, f"{tag}: nothing above the threshold, but a motl came back")
        return
    check(new is not None, f"{tag}: no motl although voxels exceed the threshold")
    if new is None:
        return
    df = new.df
    pos = df[["x", "y", "z"]].to_numpy()
    vox = pos.astype(int) - 1
    check(np.array_equal(pos, np.round(pos)), f"{tag}: positions are not whole voxels")
    # each peak carries its voxel's score, 1-based position, angles of its angle-map entry
    check(np.array_equal(df["score"].to_numpy(), scores[vox[:, 0], vox[:, 1], vox[:, 2]].astype(df["score"].dtype)), f"{tag}: score is not the voxel's score")
    check(bool((scores[vox[:, 0], vox[:, 1], vox[:, 2]] > threshold).all()), f"{tag}: a peak does not exceed the threshold")
    entry = angles_map[vox[:, 0], vox[:, 1], vox[:, 2]].astype(int) - numbering
    cols = {"phi": 0, "theta": 1, "psi": 2}
    if as_file and order == "zzx":
        cols = {"phi": 0, "psi": 1, "theta": 2}
    for name, c in cols.items():
        check(np.allclose(df[name].to_numpy(), anglist[entry, c], rtol=0, atol=1e-9), f"{tag}: {name} is not the one of the angle-map entry")
    check(bool((df["tomo_id"] == extra.get("tomo_id", 5)).all()) and bool((df["object_id"] == (extra.get("object_id") or 1)).all()), f"{tag}: tomo / object number")
    check(np.array_equal(df["subtomo_id"].to_numpy(), np.arange(1, len(df) + 1)), f"{tag}: subtomo numbering")
    # separated ...
    if len(vox) > 1:
        dm = cdist(vox, vox)
        dm[np.diag_indices(len(vox))] = np.inf
        check(dm.min() > diameter, f"{tag}: two peaks not farther apart than the diameter")
    # ... and dominating
    dm = cdist(idx, vox)
    ok = ((dm <= diameter) & (df["score"].to_numpy()[None, :] >= vals[:, None])).any(axis=1)
    check(bool(ok.all()), f"{tag}: supra-threshold voxel without a dominating peak")
    # exactly the independent greedy result, best first
    check(np.array_equal(vox, peaks), f"{tag}: peaks differ from the independent greedy reference")


def part_extract():
    rng = np.random.default_rng(7007)
    with tempfile.TemporaryDirectory() as tmpdir:
        for it in range(60):
            shape = tuple(int(v) for v in rng.integers(3, 15, size=3))
            if it in (7, 33):
                shape = (40, 40, 40)
            if it == 20:
                shape = (1, 9, 30)
            thr_q = float(rng.choice([0.5, 0.9, 0.97, 0.995])) if shape != (40, 40, 40) else 0.99
            diameter = float(rng.choice([1.0, 1.5, 2.0, 3.0, 4.2, 5.0, 9.5, 100.0]))
            numbering = it % 2
            as_file = it % 3 == 0
            order = "zzx" if (as_file and it % 2 == 0) or it % 9 == 4 else "zxz"
            if not as_file and order == "zzx":
                # arrays are taken as they are; compare with the original only
                run_extract_case(rng, f"extract/array-zzx{it}", shape, thr_q, diameter, numbering, order, False, tmpdir, diff_only=True)
                continue
            extra = {}
            if it % 4 == 1:
                extra["object_id"] = int(rng.integers(2, 9))
            if it % 10 == 3:
                extra["tomo_id"] = 112
            run_extract_case(rng, f"extract/random{it}", shape, thr_q, diameter, numbering, order, as_file, tmpdir, **extra)
        # nothing above the threshold
        run_extract_case(rng, "extract/empty", (6, 6, 6), 1.0, 3.0, 0, "zxz", False, tmpdir)
        # exactly one voxel above the threshold
        run_extract_case(rng, "extract/one", (6, 7, 5), 1.0 - 1.5 / 210, 3.0, 1, "zxz", False, tmpdir)
        # options outside the property's quantifier: compared with the original function only
        for it, extra in enumerate(
            [
                {"sigma": 2.0},
                {"triangle": True},
                {"cluster_size": 1},
                {"cluster_size": 2},
                {"n_particles": 3},
                {"n_particles": 1000},
                {"symmetry": "c4"},
                {"symmetry": "d2"},
                {"tomo_mask": "half"},
                {"object_id": 0},
            ]
        ):
            if extra.get("tomo_mask") == "half":
                extra = {"tomo_mask": np.pad(np.ones((5, 10, 10), dtype=np.float32), ((0, 5), (0, 0), (0, 0)))}
                shape = (10, 10, 10)
            else:
                shape = (10, 11, 9)
            for rep in range(2):
                run_extract_case(rng, f"extract/option{it}.{rep}", shape, 0.95, float(rng.choice([2.0, 3.5])), rep, "zxz", False, tmpdir, diff_only=True, **extra)


if __name__ == "__main__":
    part_clean()
    part_extract()
    print(f"{N_CHECKS[0]} checks, {len(FAILS)} failed")
    if FAILS:
        print("FAIL")
        sys.exit(1)
    print("PASS")
    sys.exit(0)
