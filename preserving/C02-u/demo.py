"""C02 demo: STAR files read back to the same blocks, columns, rows and values.

Run as:  cd /tmp/wt11/C02 && /venv/bin/python /tmp/seedsV/C02/<a|b>/demo.py

1. property: random lists of tables -> Starfile.write -> text checked with an independent tokenizer -> Starfile.read
   -> compared with the tables; hand-built STAR texts with comments / blank lines / tabs / CRLF compared with the
   independent tokenizer.
2. equivalence: the functions of the tree (Token.tokenize, Starfile.write, Starfile.read) are compared with verbatim copies of the
   original functions (ORIG_* below) on the same inputs: same tokens, same bytes written, same frames read.
3. the caller's tables are left untouched; the caller's *list* is treated exactly as the original treats it (entries replaced
   by the rounded tables); repeated calls on the same objects give the same results; the logging configuration (DEBUG on / off)
   makes no difference.
"""
import sys, os

sys.path.insert(0, os.getcwd())

import copy
import io
import logging
import random
import tempfile

import numpy as np
import pandas as pd

from cryocat import starfileio
from cryocat.starfileio import Starfile, Token, TokenType

FAILS = []


def check(cond, msg):
    if not cond:
        FAILS.append(msg)
        if len(FAILS) <= 20:
            print("FAIL:", msg)


# --------------------------------------------------------------------------------------------------------------------
# verbatim copies of the original functions (tree at d4d8304)
# --------------------------------------------------------------------------------------------------------------------
def ORIG_tokenize(text):
    tokens = list()

    # Split the text into several lines
    lines = text.split("\n")
    for line_number, line in enumerate(lines):
        # The first index of a non-space-or-hash sequence of characters. None means there is no sequence found
        first = None
        for index, char in enumerate(line):
            if not char.isspace() and char != "#":
                # Set the first index of the sequence if it is None
                if first is None:
                    first = index
                continue
            elif first is not None:
                # If a space or # and the sequence are found, classifies the sequence as
                #   LOOP if it is 'loop_'
                #   PROPERTY if it starts with '_'
                #   LITERAL otherwise

                if line[first] == "_":
                    tokens.append(Token(TokenType.PROPERTY, line[first:index], (line_number, first)))
                elif line[first:index] == "loop_":
                    tokens.append(Token(TokenType.LOOP, line[first:index], (line_number, first)))
                else:
                    tokens.append(Token(TokenType.LITERAL, line[first:index], (line_number, first)))

                # Set that there is no sequence found
                first = None
            if char == "#":
                # Anything after the # character is a comment

                tokens.append(Token(TokenType.COMMENT, line[index + 1 :].strip(), (line_number, index)))
                break
            elif not char.isspace():
                raise IOError(f"Got unexpected {char} at (Line {line_number}, Column {index}).")
        if first is not None:
            # Classifies the sequence if there is an end of line

            if line[first] == "_":
                tokens.append(Token(TokenType.PROPERTY, line[first:], (line_number, first)))
            elif line[first:] == "loop_":
                tokens.append(Token(TokenType.LOOP, line[first:], (line_number, first)))
            else:
                tokens.append(Token(TokenType.LITERAL, line[first:], (line_number, first)))

        # Add a NEWLINE token
        tokens.append(Token(TokenType.NEWLINE, None, (line_number, 0)))

    return tokens[::-1]


def ORIG_write(frames, path, specifiers=None, comments=None, number_columns=True, float_precision=6):
    if specifiers is None:
        specifiers = ["data"] * len(frames)
    if comments is None:
        comments = (None,) * len(frames)

    if len(frames) != len(specifiers) or len(frames) != len(comments) or len(specifiers) != len(comments):
        raise ValueError(
            f"Invalid size of the lists found. "
            f"The sizes are (frames: {len(frames)}), "
            f"(specifiers: {len(specifiers)}), "
            f"and (comments: {len(comments)})."
        )

    for i, f in enumerate(frames):
        frames[i] = f.round(float_precision)

    with open(path, "w") as file:

        def write_with_number(name, number):
            file.write(f"_{name} #{number}\n")

        def write_without_number(name, _):
            file.write(f"_{name}\n")

        def format_value(value):
            return "{:<10}".format(str(value))

        for frame, specifier, comment in zip(frames, specifiers, comments):
            # DataFrame.applymap was renamed to DataFrame.map in pandas 2.1 and removed in pandas 3
            frame = frame.map(format_value) if hasattr(frame, "map") else frame.applymap(format_value)
            stopgap = "stopgap" in specifier
            write_function = write_without_number if not number_columns or stopgap else write_with_number
            if comment is not None:
                for c in comment:
                    file.write(f"\n# {c}")
                file.write("\n")
            file.write(f"\n{specifier}\n\n")
            file.write("loop_\n")
            for index, column in enumerate(frame.columns, 1):
                write_function(column, index)
            if stopgap:
                file.write("\n")

            for row in frame.itertuples(index=False):
                file.write("\t".join(map(str, row)) + "\n")
            # formatted_row = "\t".join("{:<10}".format(str(value)) for value in row)
            # file.write(formatted_row + "\n")
            file.write("\n")


def ORIG_read(file_path, data_id=None):
    """Original Starfile.read with the original tokenizer (the parse_* helpers are shared: they are not changed)."""
    with open(file_path, mode="r") as file:
        raw_starfile = file.read()

    tokens = ORIG_tokenize(raw_starfile)
    frames = []
    comments = []
    specifiers = []
    while Token.lookahead(tokens, TokenType.LITERAL, [TokenType.NEWLINE, TokenType.COMMENT]):
        specifier_comments, specifier = Token.parse_specifier(tokens)
        column_comments, columns = Token.parse_columns(tokens)
        rows_comments, data = Token.parse_rows(tokens, columns)
        comments.append(specifier_comments + column_comments + rows_comments)
        specifiers.append(specifier)
        frames.append(data)
    Token.parse_newline_or_comments(tokens)
    if len(tokens) > 0:
        raise IOError(f"Expected a specifier or an end of token but got {tokens[0].token_type}")

    def to_numeric_if_possible(column):
        try:
            return pd.to_numeric(column)
        except (ValueError, TypeError):
            return column

    for i, f in enumerate(frames):
        frames[i] = f.apply(to_numeric_if_possible)

    if data_id is not None:
        return frames[data_id], specifiers[data_id], comments[data_id]
    else:
        return frames, specifiers, comments


# --------------------------------------------------------------------------------------------------------------------
# independent tokenizer of STAR text (line based, str.split only)
# --------------------------------------------------------------------------------------------------------------------
def independent_blocks(text):
    """-> list of (block name, [labels], [[row tokens]]) ; one loop per block, one row per line."""
    blocks = []
    state = "name"
    cur = None
    for raw in text.split("\n"):
        body = raw.split("#", 1)[0]
        toks = body.split()
        if state == "name":
            if not toks:
                continue
            assert len(toks) == 1 and toks[0].startswith("data_"), raw
            cur = (toks[0], [], [])
            blocks.append(cur)
            state = "loop"
        elif state == "loop":
            if not toks:
                continue
            assert toks == ["loop_"], raw
            state = "labels"
        elif state == "labels":
            if toks and toks[0].startswith("_"):
                assert len(toks) == 1, raw
                cur[1].append(toks[0][1:])
            elif not toks:
                state = "gap"  # blank / comment lines after the labels
            else:
                cur[2].append(toks)
                state = "rows"
        elif state == "gap":
            if not toks:
                continue
            if toks[0].startswith("data_") and len(toks) == 1 and len(cur[1]) != 1:
                # a new block (an empty block before it); with one column a row could look like that -> never generated
                cur = (toks[0], [], [])
                blocks.append(cur)
                state = "loop"
            else:
                cur[2].append(toks)
                state = "rows"
        elif state == "rows":
            if not toks:
                state = "name"
            else:
                cur[2].append(toks)
    return blocks


def is_number(tok):
    try:
        float(tok)
        return True
    except ValueError:
        return False


# --------------------------------------------------------------------------------------------------------------------
# generators
# --------------------------------------------------------------------------------------------------------------------
RELION_LABELS = [
    "rlnCoordinateX", "rlnCoordinateY", "rlnCoordinateZ", "rlnAngleRot", "rlnAngleTilt", "rlnAnglePsi",
    "rlnMicrographName", "rlnImageName", "rlnOpticsGroup", "rlnOpticsGroupName", "rlnClassNumber",
    "rlnOriginXAngst", "rlnOriginYAngst", "rlnOriginZAngst", "rlnTomoName", "rlnTomoParticleId",
    "rlnRandomSubset", "rlnCtfMaxResolution", "rlnDefocusU", "rlnDefocusV", "rlnVoltage", "rlnPixelSize",
]
STOPGAP_LABELS = ["motl_idx", "tomo_num", "object", "subtomo_num", "halfset", "orig_x", "orig_y", "orig_z", "score",
                  "x_shift", "y_shift", "z_shift", "phi", "psi", "the", "class"]
TEXT_ALPHABET = "abcdefghijklmnopqrstuvwxyzABCDEFGHIJKLMNOPQRSTUVWXYZ0123456789_-./@:,;()[]+=%&*!?'\"<>|~^$"
SPECIFIERS = ["data_", "data_particles", "data_optics", "data_stopgap_motivelist", "data_stopgap_wedgelist", "data_general"]


def random_labels(rng, n, stopgap):
    pool = list(STOPGAP_LABELS if stopgap else RELION_LABELS)
    rng.shuffle(pool)
    labels = pool[:n]
    while len(labels) < n:
        labels.append(("col" if stopgap else "rlnExtra") + str(len(labels)) + rng.choice(["", "_x", "Y", "9"]))
    return labels


def text_token(rng):
    kind = rng.randrange(6)
    if kind == 0:
        return rng.choice(["A", "B", "halfA", "opticsGroup1", "TS_001.tomostar", "x"])
    if kind == 1:
        return "%06d@Extract/job%03d/stack_%d.mrcs" % (rng.randrange(10**6), rng.randrange(1000), rng.randrange(99))
    if kind == 2:
        return "tomo_%d/%s.mrc" % (rng.randrange(500), "".join(rng.choice("abcxyz") for _ in range(rng.randrange(1, 30))))
    first = rng.choice("abcdefghijklmnopqrstuvwxyzABCDEFGHIJKLMNOPQRSTUVWXYZ/.-@")  # never '_' / '#'
    tok = first + "".join(rng.choice(TEXT_ALPHABET) for _ in range(rng.randrange(0, 25)))
    if is_number(tok) or tok.lower() in ("nan", "inf", "-inf", "infinity", "-infinity", ".nan", ".inf"):
        tok = "t" + tok
    return tok


def random_column(rng, nprng, n_rows):
    kind = rng.randrange(9)
    if kind == 0:
        return nprng.integers(-5, 2000, size=n_rows).astype(np.int64), "int"
    if kind == 1:
        return np.arange(1, n_rows + 1, dtype=np.int64), "int"
    if kind == 2:
        return nprng.integers(-(2**40), 2**40, size=n_rows).astype(np.int64), "int"
    if kind == 3:
        return nprng.uniform(-180, 180, size=n_rows), "float"
    if kind == 4:
        # floats of very different magnitude (exponent notation on both ends, values that round to 0 / -0)
        return nprng.standard_normal(n_rows) * 10.0 ** nprng.integers(-9, 15, size=n_rows), "float"
    if kind == 5:
        # floats holding whole numbers and ties of the rounding
        base = nprng.integers(-1000, 1000, size=n_rows).astype(float)
        return base + nprng.choice([0.0, 0.5, 0.0000005, 0.1234565, 1e-7], size=n_rows), "float"
    if kind == 6:
        vals = [text_token(rng) for _ in range(n_rows)]
        return np.array(vals, dtype=object), "text"
    if kind == 7:
        # text column in which some tokens look like numbers but one does not
        vals = [rng.choice(["1", "2.5", "-3", "1e5", text_token(rng)]) for _ in range(n_rows)]
        vals[rng.randrange(n_rows)] = text_token(rng)
        return np.array(vals, dtype=object), "text"
    # a constant text column
    return np.array([rng.choice(["opticsGroup1", "A", "none"])] * n_rows, dtype=object), "text"


def random_case(rng, nprng):
    n_blocks = rng.randrange(1, 5)
    frames, specs, kinds = [], [], []
    for b in range(n_blocks):
        spec = rng.choice(SPECIFIERS)
        stopgap = "stopgap" in spec
        n_cols = rng.choice([1, 2, 3, 5, 8, 13, 20, 30]) if rng.random() < 0.5 else rng.randrange(1, 31)
        empty = b == n_blocks - 1 and rng.random() < 0.15
        n_rows = 0 if empty else (rng.choice([1, 2, 3, 200]) if rng.random() < 0.3 else rng.randrange(1, 60))
        labels = random_labels(rng, n_cols, stopgap)
        data, ks = {}, []
        for lab in labels:
            if n_rows == 0:
                data[lab] = np.array([], dtype=rng.choice([np.int64, np.float64, object]))
                ks.append("empty")
            else:
                col, k = random_column(rng, nprng, n_rows)
                data[lab] = col
                ks.append(k)
        df = pd.DataFrame(data, columns=labels)
        if rng.random() < 0.3 and n_rows > 0:
            # text columns stored the pandas-3 way
            for lab, k in zip(labels, ks):
                if k == "text":
                    df[lab] = df[lab].astype("str")
        if rng.random() < 0.2 and n_rows > 1:
            # a table that was selected from a larger one: the index is not 0..n-1
            df.index = nprng.permutation(n_rows) * 3 + 7
        frames.append(df)
        specs.append(spec)
        kinds.append(ks)
    return frames, specs, kinds


# --------------------------------------------------------------------------------------------------------------------
# comparisons
# --------------------------------------------------------------------------------------------------------------------
def same_frames(a, b):
    if len(a) != len(b):
        return False
    for x, y in zip(a, b):
        if list(x.columns) != list(y.columns) or list(x.index) != list(y.index):
            return False
        if [str(t) for t in x.dtypes] != [str(t) for t in y.dtypes]:
            return False
        if not x.equals(y):
            return False
    return True


def tok_list(tokens):
    return [(t.token_type, t.value, t.location) for t in tokens]


def expected_cell(value, kind):
    """text of one cell as the property states it: round(6), str, left-justified to 10 (trailing blanks are not tokens)."""
    if kind == "float":
        return str(float(np.round(value, 6)))
    if kind == "int":
        return str(int(value))
    return str(value)


def check_roundtrip(tag, frames, specs, kinds, number_columns, tmpdir, write_fn, read_fn):
    originals = [f.copy(deep=True) for f in frames]
    caller_list = list(frames)  # the list handed over (the original replaces its entries by rounded tables)
    path = os.path.join(tmpdir, f"{tag}.star")
    write_fn(caller_list, path, specifiers=list(specs), number_columns=number_columns)

    # the caller's tables are untouched
    for f, o in zip(frames, originals):
        check(same_frames([f], [o]), f"{tag}: a table of the caller was modified by write")

    with open(path, "rb") as fh:
        raw = fh.read()
    text = raw.decode()

    # 1. the text, independent tokenizer
    blocks = independent_blocks(text)
    check([b[0] for b in blocks] == list(specs), f"{tag}: block names in the text {[b[0] for b in blocks]} != {specs}")
    for (name, labels, rows), f, ks in zip(blocks, frames, kinds):
        check(labels == list(f.columns), f"{tag}/{name}: labels in the text differ")
        check(len(rows) == len(f), f"{tag}/{name}: {len(rows)} rows in the text, {len(f)} in the table")
        for r, (row, (_, src)) in enumerate(zip(rows, f.iterrows())):
            exp = [expected_cell(src[c], k) for c, k in zip(f.columns, ks)]
            if row != exp:
                check(False, f"{tag}/{name}: row {r} in the text {row} != {exp}")
                break
    # header style
    stop_or_plain = [("stopgap" in s) or not number_columns for s in specs]
    label_lines = [ln for ln in text.split("\n") if ln.startswith("_")]
    it = iter(label_lines)
    for f, plain in zip(frames, stop_or_plain):
        for i, c in enumerate(f.columns, 1):
            ln = next(it)
            check(ln == (f"_{c}" if plain else f"_{c} #{i}"), f"{tag}: label line {ln!r}")

    # 2. reading back
    got_frames, got_specs, got_comments = read_fn(path)
    check(got_specs == list(specs), f"{tag}: specifiers read {got_specs} != {specs}")
    check(len(got_frames) == len(frames), f"{tag}: number of frames")
    for g, f, ks, s in zip(got_frames, frames, kinds, specs):
        check(list(g.columns) == list(f.columns), f"{tag}/{s}: columns read back differ")
        check(len(g) == len(f), f"{tag}/{s}: {len(g)} rows read, {len(f)} written")
        check(list(g.index) == list(range(len(f))), f"{tag}/{s}: index of the table read")
        if len(g) != len(f) or list(g.columns) != list(f.columns):
            continue
        for c, k in zip(f.columns, ks):
            if k == "empty":
                continue
            gv = g[c]
            if k == "text":
                check(not pd.api.types.is_numeric_dtype(gv), f"{tag}/{s}/{c}: text column read as {gv.dtype}")
                check([str(v) for v in gv] == [str(v) for v in f[c]], f"{tag}/{s}/{c}: text values changed")
            elif k == "int":
                check(pd.api.types.is_integer_dtype(gv), f"{tag}/{s}/{c}: integer column read as {gv.dtype}")
                check(np.array_equal(gv.to_numpy(), f[c].to_numpy()), f"{tag}/{s}/{c}: integer values changed")
            else:
                check(pd.api.types.is_numeric_dtype(gv), f"{tag}/{s}/{c}: float column read as {gv.dtype}")
                exp = np.round(f[c].to_numpy(dtype=float), 6)
                # pandas' text -> float conversion may be off by one unit in the last place: equal to 1e-12 relative, far below 1e-6
                check(np.allclose(np.asarray(gv, dtype=float), exp, rtol=1e-12, atol=1e-12), f"{tag}/{s}/{c}: float values differ from round(6)")
    return raw, caller_list, (got_frames, got_specs, got_comments)


# --------------------------------------------------------------------------------------------------------------------
# hand-built texts
# --------------------------------------------------------------------------------------------------------------------
def build_text(rng, nprng):
    """-> text, expected [(name, labels, rows)] ; comments / blank lines only in the permitted places."""
    n_blocks = rng.randrange(1, 5)
    eol = rng.choice(["\n", "\r\n"])
    lines = []
    expected = []

    def filler(maxn=3):
        for _ in range(rng.randrange(0, maxn + 1)):
            lines.append(rng.choice(["", "   ", "\t", "# a comment", "#", "   # indented comment _rlnX loop_ data_y", "# version 30001"]))

    for b in range(n_blocks):
        filler()
        name = rng.choice(SPECIFIERS)
        stopgap = "stopgap" in name
        n_cols = rng.randrange(1, 12)
        n_rows = rng.randrange(1, 25)
        if b == n_blocks - 1 and rng.random() < 0.15:
            n_rows = 0
        labels = random_labels(rng, n_cols, stopgap)
        lines.append(rng.choice(["", " ", "\t"]) + name + rng.choice(["", "  ", "\t", " # block comment"]))
        filler(2)
        lines.append(rng.choice(["", "  "]) + "loop_" + rng.choice(["", " ", "\t "]))
        numbered = rng.random() < 0.6
        for i, lab in enumerate(labels, 1):
            ln = rng.choice(["", " "]) + "_" + lab
            if numbered:
                ln += rng.choice([" ", "\t", "   ", ""]) + f"#{i}" + rng.choice(["", " "])
            else:
                ln += rng.choice(["", " ", "\t"])
            lines.append(ln)
        if n_rows > 0:
            filler(2)
        cols = []
        for _ in labels:
            col, k = random_column(rng, nprng, max(n_rows, 1))
            cols.append([expected_cell(v, k) for v in col][:n_rows])
        rows = [[c[r] for c in cols] for r in range(n_rows)]
        for row in rows:
            sep = [rng.choice([" ", "  ", "\t", " \t ", "      ", "\t\t"]) for _ in row]
            ln = rng.choice(["", " ", "\t", "   "]) + "".join(t + s for t, s in zip(row, sep[:-1] + [""]))
            ln += rng.choice(["", " ", "\t", "    "])
            lines.append(ln)
        expected.append((name, labels, rows))
        # at least one blank / comment line separates blocks
        if b < n_blocks - 1:
            lines.append(rng.choice(["", " ", "# next block", "\t"]))
    filler(2)
    text = eol.join(lines)
    if rng.random() < 0.6:
        text += eol
    return text, expected


def check_text(tag, text, expected, tmpdir, read_fn):
    path = os.path.join(tmpdir, f"{tag}.star")
    with open(path, "w", newline="") as fh:
        fh.write(text)
    # the independent tokenizer finds what was put in (universal newlines of open() turn CRLF into LF)
    ind = independent_blocks(text.replace("\r\n", "\n"))
    check([(n, l, r) for n, l, r in ind] == expected, f"{tag}: independent tokenizer disagrees with the construction")
    frames, specs, comments = read_fn(path)
    check(specs == [e[0] for e in expected], f"{tag}: specifiers {specs}")
    check(len(frames) == len(expected), f"{tag}: number of blocks")
    for f, (name, labels, rows) in zip(frames, expected):
        check(list(f.columns) == labels, f"{tag}/{name}: labels {list(f.columns)} != {labels}")
        check(len(f) == len(rows), f"{tag}/{name}: {len(f)} rows read, {len(rows)} in the text")
        if len(f) != len(rows) or list(f.columns) != labels or not rows:
            continue
        for j, lab in enumerate(labels):
            toks = [r[j] for r in rows]
            col = f[lab]
            if all(is_number(t) for t in toks):
                check(pd.api.types.is_numeric_dtype(col), f"{tag}/{name}/{lab}: numeric tokens read as {col.dtype}")
                check(np.allclose(np.asarray(col, dtype=float), np.array([float(t) for t in toks]), rtol=1e-12, atol=1e-12), f"{tag}/{name}/{lab}: numbers differ")
                if all(t.lstrip("-").isdigit() for t in toks):
                    check(pd.api.types.is_integer_dtype(col), f"{tag}/{name}/{lab}: integers read as {col.dtype}")
            else:
                check(not pd.api.types.is_numeric_dtype(col), f"{tag}/{name}/{lab}: text tokens read as {col.dtype}")
                check([str(v) for v in col] == toks, f"{tag}/{name}/{lab}: text tokens changed")
    return frames, specs, comments


FIXED_TEXTS = [
    # relion 3.1 style, numbered labels, comment and version line
    ("\n# version 30001\n\ndata_optics\n\nloop_\n_rlnOpticsGroup #1\n_rlnOpticsGroupName #2\n_rlnVoltage #3\n"
     "           1 opticsGroup1   300.000000\n\n\n# version 30001\n\ndata_particles\n\nloop_\n_rlnCoordinateX #1\n"
     "_rlnImageName #2\n_rlnClassNumber #3\n 10.5 000001@a/b.mrcs 1\n 11.25\t000002@a/b.mrcs\t2\n",
     [("data_optics", ["rlnOpticsGroup", "rlnOpticsGroupName", "rlnVoltage"], [["1", "opticsGroup1", "300.000000"]]),
      ("data_particles", ["rlnCoordinateX", "rlnImageName", "rlnClassNumber"],
       [["10.5", "000001@a/b.mrcs", "1"], ["11.25", "000002@a/b.mrcs", "2"]])]),
    # stopgap style, no final newline
    ("data_stopgap_motivelist\n\nloop_\n_motl_idx\n_halfset\n_score\n\n1\tA\t0.5\n2\tB\t0.25",
     [("data_stopgap_motivelist", ["motl_idx", "halfset", "score"], [["1", "A", "0.5"], ["2", "B", "0.25"]])]),
    # empty last block without final newline
    ("data_\nloop_\n_a #1\n_b #2\n1 2\n\ndata_particles\nloop_\n_x\n_y",
     [("data_", ["a", "b"], [["1", "2"]]), ("data_particles", ["x", "y"], [])]),
    # CRLF, comment right after the labels, trailing blanks
    ("data_\r\n\r\nloop_\r\n_a #1 \r\n_b #2\r\n# rows follow\r\n\r\n 1   x  \r\n 2\ty\t\r\n\r\n",
     [("data_", ["a", "b"], [["1", "x"], ["2", "y"]])]),
    # the same words in different places: 'loop_' / labels inside comments, words repeated across blocks
    ("# loop_ _rlnX data_\ndata_general # _c loop_\n# loop_\nloop_\n_c #1 loop_\n_d #2\nx x\nx y\n\n# data_\ndata_general\nloop_\n_c\n_d\nx 1\ny 2\n",
     [("data_general", ["c", "d"], [["x", "x"], ["x", "y"]]), ("data_general", ["c", "d"], [["x", "1"], ["y", "2"]])]),
]


def fuzz_text(rng):
    n = rng.randrange(0, 120)
    alphabet = ["_", "#", " ", "\t", "\n", "\r", "l", "o", "p", "loop_", "_rln", "data_", "a", "1", ".", "-", "\x0b", " ", " ", "é"]
    return "".join(rng.choice(alphabet) for _ in range(n))


# --------------------------------------------------------------------------------------------------------------------
def run(debug_logging, seed, n_tables, n_texts, n_fuzz, tmpdir):
    rng = random.Random(seed)
    nprng = np.random.default_rng(seed)
    stream = io.StringIO()
    handler = logging.StreamHandler(stream)
    log = logging.getLogger("cryocat")
    old_level = log.level
    if debug_logging:
        log.addHandler(handler)
        log.setLevel(logging.DEBUG)
    try:
        for n in range(n_tables):
            frames, specs, kinds = random_case(rng, nprng)
            number_columns = rng.random() < 0.5
            tag = f"t{seed}_{n}"
            raw_new, list_new, read_new = check_roundtrip(tag, frames, specs, kinds, number_columns, tmpdir, Starfile.write, Starfile.read)
            raw_old, list_old, read_old = check_roundtrip(tag + "_orig", frames, specs, kinds, number_columns, tmpdir, ORIG_write, ORIG_read)
            check(raw_new == raw_old, f"{tag}: bytes written differ from the original write")
            check(same_frames(list_new, list_old), f"{tag}: the caller's list is left in a different state than by the original")
            check(read_new[1] == read_old[1] and read_new[2] == read_old[2], f"{tag}: specifiers / comments differ from the original read")
            check(same_frames(read_new[0], read_old[0]), f"{tag}: frames differ from the original read")
            # cross: new reader on the file of the old writer is covered by equal bytes. Repeated calls on the same objects:
            path2 = os.path.join(tmpdir, tag + "_again.star")
            Starfile.write(list_new, path2, specifiers=specs, number_columns=number_columns)  # list holds the rounded tables now
            with open(path2, "rb") as fh:
                check(fh.read() == raw_new, f"{tag}: second write of the same list gives other bytes")
            again = Starfile.read(os.path.join(tmpdir, tag + ".star"))
            check(same_frames(again[0], read_new[0]) and again[1] == read_new[1] and again[2] == read_new[2], f"{tag}: second read differs")
            # comments + default specifiers + data_id
            comments = [[f"block {i}", "created by demo"] if rng.random() < 0.5 else None for i in range(len(frames))]
            pa, pb = os.path.join(tmpdir, tag + "_c.star"), os.path.join(tmpdir, tag + "_c_orig.star")
            Starfile.write(list(frames), pa, specifiers=specs, comments=comments, number_columns=number_columns)
            ORIG_write(list(frames), pb, specifiers=specs, comments=comments, number_columns=number_columns)
            with open(pa, "rb") as fa, open(pb, "rb") as fb:
                check(fa.read() == fb.read(), f"{tag}: bytes written with comments differ")
            ra, rb = Starfile.read(pa), ORIG_read(pb)
            check(ra[1] == rb[1] == list(specs), f"{tag}: specifiers with comments")
            check(ra[2] == rb[2] == [c if c is not None else [] for c in comments], f"{tag}: comments read back {ra[2]}")
            check(same_frames(ra[0], rb[0]) and same_frames(ra[0], read_new[0]), f"{tag}: frames with comments")
            k = rng.randrange(len(frames))
            one_new, one_old = Starfile.read(pa, data_id=k), ORIG_read(pb, data_id=k)
            check(same_frames([one_new[0]], [one_old[0]]) and one_new[1:] == one_old[1:], f"{tag}: data_id={k}")
            obj = Starfile(pa)
            check(same_frames(obj.frames, ra[0]) and obj.specifiers == ra[1] and obj.comments == ra[2], f"{tag}: Starfile(path)")
            for p in (path2, pa, pb, os.path.join(tmpdir, tag + ".star"), os.path.join(tmpdir, tag + "_orig.star")):
                os.remove(p)

        texts = [(f"fixed{seed}_{i}", t, e) for i, (t, e) in enumerate(FIXED_TEXTS)]
        for n in range(n_texts):
            t, e = build_text(rng, nprng)
            texts.append((f"x{seed}_{n}", t, e))
        for tag, text, expected in texts:
            new = check_text(tag, text, expected, tmpdir, Starfile.read)
            old = check_text(tag + "_orig", text, expected, tmpdir, ORIG_read)
            check(same_frames(new[0], old[0]) and new[1] == old[1] and new[2] == old[2], f"{tag}: read differs from the original read")
            a, b, c = tok_list(Token.tokenize(text)), tok_list(ORIG_tokenize(text)), tok_list(Token.tokenize(text))
            check(a == b, f"{tag}: tokens differ from the original tokenizer")
            check(a == c, f"{tag}: second tokenization of the same text differs")
            os.remove(os.path.join(tmpdir, tag + ".star"))
            os.remove(os.path.join(tmpdir, tag + "_orig.star"))

        # tokenizer outside the quantifier as well: arbitrary text, same tokens or same exception
        for n in range(n_fuzz):
            text = fuzz_text(rng)
            try:
                a = tok_list(Token.tokenize(text))
            except Exception as e:  # noqa
                a = ("raised", type(e).__name__, str(e))
            try:
                b = tok_list(ORIG_tokenize(text))
            except Exception as e:  # noqa
                b = ("raised", type(e).__name__, str(e))
            check(a == b, f"fuzz {seed}/{n}: tokens of {text!r} differ from the original tokenizer")
    finally:
        if debug_logging:
            log.removeHandler(handler)
            log.setLevel(old_level)
    return stream.getvalue()


def main():
    quick = "--quick" in sys.argv
    rng_state = random.getstate()
    np_state = np.random.get_state()
    err_state = np.geterr()
    with tempfile.TemporaryDirectory() as tmpdir:
        for seed in ([1] if quick else [1, 2, 3]):
            for debug in (False, True):
                out = run(debug, seed, 15 if quick else 60, 30 if quick else 120, 200 if quick else 1500, tmpdir)
                check(debug or out == "", "log output although logging was not switched on")
        check(os.listdir(tmpdir) == [], f"files left behind: {os.listdir(tmpdir)[:5]}")
    check(random.getstate() == rng_state, "global random state was changed")
    st = np.random.get_state()
    check(st[0] == np_state[0] and np.array_equal(st[1], np_state[1]) and st[2:] == np_state[2:], "numpy random state was changed")
    check(np.geterr() == err_state, "numpy error state was changed")
    if FAILS:
        print(f"FAIL ({len(FAILS)} checks failed)")
        sys.exit(1)
    print("PASS")


if __name__ == "__main__":
    main()
