import sys, os

sys.path.insert(0, os.getcwd())

import contextlib
import decimal
import io
import tempfile
import warnings

import numpy as np
import pandas as pd

from cryocat import cryomotl
from cryocat.cryomotl import StopgapMotl, EmMotl, Motl

warnings.filterwarnings("ignore")

# ---------------------------------------------------------------------------------------------------------------
# independent statement of the property (written down here, not taken from the module)
# ---------------------------------------------------------------------------------------------------------------
RENAME = [
    ("score", "score"),
    ("subtomo_id", "subtomo_num"),
    ("tomo_id", "tomo_num"),
    ("object_id", "object"),
    ("x", "orig_x"),
    ("y", "orig_y"),
    ("z", "orig_z"),
    ("shift_x", "x_shift"),
    ("shift_y", "y_shift"),
    ("shift_z", "z_shift"),
    ("phi", "phi"),
    ("psi", "psi"),
    ("theta", "the"),
    ("class", "class"),
]
assert len(RENAME) == 14
SG_COLUMNS = ["motl_idx", "tomo_num", "object", "subtomo_num", "halfset", "orig_x", "orig_y", "orig_z", "score",
              "x_shift", "y_shift", "z_shift", "phi", "psi", "the", "class"]
MOTL_COLUMNS = ["score", "geom1", "geom2", "subtomo_id", "tomo_id", "object_id", "subtomo_mean", "x", "y", "z",
                "shift_x", "shift_y", "shift_z", "geom3", "geom4", "geom5", "phi", "psi", "theta", "class"]


# ---------------------------------------------------------------------------------------------------------------
# text of the ORIGINAL functions (HEAD d4d8304), kept here for the output comparison
# ---------------------------------------------------------------------------------------------------------------
ORIG_PAIRS = {
    "subtomo_id": "subtomo_num", "tomo_id": "tomo_num", "object_id": "object", "x": "orig_x", "y": "orig_y",
    "z": "orig_z", "score": "score", "shift_x": "x_shift", "shift_y": "y_shift", "shift_z": "z_shift",
    "phi": "phi", "psi": "psi", "theta": "the", "class": "class",
}


def orig_sg_df_reset_index(stopgap_df, reset_index=False):
    if reset_index:
        stopgap_df["motl_idx"] = range(1, stopgap_df.shape[0] + 1)

    return stopgap_df


def orig_convert_to_sg_motl(motl_df, reset_index=False):
    stopgap_df = pd.DataFrame(data=np.zeros((motl_df.shape[0], 16)), columns=SG_COLUMNS)

    for em_key, star_key in ORIG_PAIRS.items():
        stopgap_df[star_key] = motl_df[em_key].values

    stopgap_df["halfset"] = np.where(motl_df["subtomo_id"].mod(2).eq(0).to_numpy(), "A", "B")
    stopgap_df["motl_idx"] = stopgap_df["subtomo_num"]

    stopgap_df = orig_sg_df_reset_index(stopgap_df, reset_index)

    return stopgap_df


# ---------------------------------------------------------------------------------------------------------------
# input generation
# ---------------------------------------------------------------------------------------------------------------
def random_motl_df(rng, n, id_mode, index_mode):
    df = pd.DataFrame(np.zeros((n, 20)), columns=MOTL_COLUMNS)
    for c in MOTL_COLUMNS:
        scale = rng.choice([1.0, 10.0, 1e3, 1e5])
        df[c] = rng.uniform(-scale, scale, n)
    df["tomo_id"] = rng.integers(1, 40, n).astype(float)
    df["object_id"] = rng.integers(0, 500, n).astype(float)
    df["class"] = rng.integers(-3, 9, n).astype(float)
    df["x"] = rng.uniform(0, 4000, n)
    df["y"] = rng.uniform(0, 4000, n)
    df["z"] = rng.uniform(0, 2000, n)
    for c in ["shift_x", "shift_y", "shift_z"]:
        df[c] = rng.uniform(-5, 5, n)
    if id_mode == "sequential":
        ids = np.arange(1, n + 1)
    elif id_mode == "shuffled":
        ids = rng.permutation(np.arange(1, 5 * n + 1))[:n]
    elif id_mode == "descending":
        ids = np.arange(3 * n, 0, -3)[:n]
    elif id_mode == "repeated":
        ids = rng.integers(1, max(2, n // 2 + 1), n)
    elif id_mode == "all_same":
        ids = np.full(n, 7)
    elif id_mode == "large":
        ids = rng.integers(10**6, 10**9, n)
    elif id_mode == "zero_negative":
        ids = rng.integers(-50, 50, n)
    else:
        raise ValueError(id_mode)
    df["subtomo_id"] = np.asarray(ids, dtype=float)
    # a few exact edge values
    if n >= 4:
        df.loc[0, "x"] = 10.5
        df.loc[0, "shift_x"] = 0.0
        df.loc[1, "y"] = 11.0
        df.loc[1, "shift_y"] = 0.5
        df.loc[2, "z"] = 12.0
        df.loc[2, "shift_z"] = -0.5
        df.loc[3, "score"] = 0.0
        df.loc[3, "phi"] = -0.0
    if index_mode == "shuffled":
        df.index = rng.permutation(n)
    elif index_mode == "offset":
        df.index = np.arange(100, 100 + n)
    return df


def snapshot(df):
    return (df.copy(deep=True), list(df.index), list(df.columns), [str(t) for t in df.dtypes],
            df.to_numpy(dtype=float, copy=True).tobytes())


def assert_untouched(df, snap, what):
    ref, idx, cols, dts, raw = snap
    assert list(df.index) == idx, f"{what}: index of the input changed"
    assert list(df.columns) == cols, f"{what}: columns of the input changed"
    assert [str(t) for t in df.dtypes] == dts, f"{what}: dtypes of the input changed"
    assert df.to_numpy(dtype=float, copy=True).tobytes() == raw, f"{what}: values of the input changed"
    pd.testing.assert_frame_equal(df, ref, check_exact=True)


def expected_halfset(ids):
    return ["A" if (int(v) % 2 == 0) else "B" for v in ids]


def check_sg_table(sg, motl_df, reset_index, what):
    n = motl_df.shape[0]
    assert list(sg.columns) == SG_COLUMNS, f"{what}: columns {list(sg.columns)}"
    assert sg.shape == (n, 16), f"{what}: shape"
    assert list(sg.index) == list(range(n)), f"{what}: index"
    for em, st in RENAME:
        a = np.asarray(sg[st], dtype=float)
        b = np.asarray(motl_df[em].to_numpy(), dtype=float)
        assert a.shape == b.shape and np.array_equal(a, b), f"{what}: field {em}->{st} not copied unchanged / in order"
    assert list(sg["halfset"]) == expected_halfset(motl_df["subtomo_id"].to_numpy()), f"{what}: halfset"
    if reset_index:
        assert list(sg["motl_idx"]) == list(range(1, n + 1)), f"{what}: motl_idx 1..N"
    else:
        assert np.array_equal(np.asarray(sg["motl_idx"], dtype=float),
                              np.asarray(motl_df["subtomo_id"].to_numpy(), dtype=float)), f"{what}: motl_idx"


def parse_star(path):
    """independent reader of the one-table STOPGAP star file"""
    with open(path) as f:
        lines = [ln.strip() for ln in f.read().split("\n")]
    lines = [ln for ln in lines if ln and not ln.startswith("#")]
    assert lines[0] == "data_stopgap_motivelist", lines[0]
    assert lines[1] == "loop_", lines[1]
    labels = []
    k = 2
    while k < len(lines) and lines[k].startswith("_"):
        labels.append(lines[k].split()[0][1:])
        k += 1
    rows = [ln.split() for ln in lines[k:]]
    for r in rows:
        assert len(r) == len(labels), "row width"
    return labels, rows


def half_up(v):
    return float(decimal.Decimal(float(v)).to_integral_value(rounding=decimal.ROUND_HALF_UP))


def expected_after_update(motl_df):
    exp = motl_df.copy(deep=True)
    for c, s in (("x", "shift_x"), ("y", "shift_y"), ("z", "shift_z")):
        tot = motl_df[c].to_numpy() + motl_df[s].to_numpy()
        new = np.array([half_up(t) for t in tot])
        exp[c] = new
        exp[s] = tot - new
    return exp


def close_star(a, b):
    a = np.asarray(a, dtype=float)
    b = np.asarray(b, dtype=float)
    return a.shape == b.shape and np.all(np.abs(a - b) <= 1.0e-6 + 1e-12 * np.abs(b))


def main():
    rng = np.random.default_rng(20260928)
    id_modes = ["sequential", "shuffled", "descending", "repeated", "all_same", "large", "zero_negative"]
    index_modes = ["default", "shuffled", "offset"]
    sizes = [1, 2, 3, 4, 5, 17, 64, 150, 299, 300]
    sink = io.StringIO()
    n_mem = 0
    n_file = 0

    # ---- in-memory export: property, comparison with the original text, inputs untouched, repeated calls
    for trial in range(140):
        n = sizes[trial % len(sizes)] if trial < 40 else int(rng.integers(1, 301))
        id_mode = id_modes[trial % len(id_modes)]
        index_mode = index_modes[(trial // 7) % len(index_modes)]
        df = random_motl_df(rng, n, id_mode, index_mode)
        snap = snapshot(df)
        for rep in range(2):  # repeated calls on the same object
            for reset in (False, True):
                what = f"trial {trial} n={n} ids={id_mode} index={index_mode} reset={reset} rep={rep}"
                with contextlib.redirect_stdout(sink):
                    sg = StopgapMotl.convert_to_sg_motl(df, reset)
                assert_untouched(df, snap, what)
                check_sg_table(sg, df, reset, what)
                ref = orig_convert_to_sg_motl(df, reset)
                assert_untouched(df, snap, what + " (orig)")
                pd.testing.assert_frame_equal(sg, ref, check_exact=True, check_dtype=True, check_index_type=True,
                                              check_column_type=True)
                assert [str(t) for t in sg.dtypes] == [str(t) for t in ref.dtypes], what
                # the result must not share memory with the input: writing to it leaves the input alone
                sg.loc[:, "orig_x"] = -1.0
                sg.loc[:, "motl_idx"] = -1.0
                assert_untouched(df, snap, what + " (after writing to the result)")
                n_mem += 1

    # ---- StopgapMotl(df) -> .df / EmMotl <-> StopgapMotl in memory (renaming the other way round)
    for trial in range(30):
        n = int(rng.integers(1, 301))
        df = random_motl_df(rng, n, id_modes[trial % len(id_modes)], "default")
        snap = snapshot(df)
        with contextlib.redirect_stdout(sink):
            sg_tab = StopgapMotl.convert_to_sg_motl(df, False)
            sg_snap = sg_tab.copy(deep=True)
            m = StopgapMotl(sg_tab)  # stopgap table -> particle list
            m2 = cryomotl.emmotl2stopgap(df)
            m3 = cryomotl.stopgap2emmotl(sg_tab)
        pd.testing.assert_frame_equal(sg_tab, sg_snap, check_exact=True)
        assert_untouched(df, snap, f"mem2 {trial}")
        for em, st in RENAME:
            for obj, name in ((m, "StopgapMotl(sg)"), (m2, "emmotl2stopgap"), (m3, "stopgap2emmotl")):
                assert np.array_equal(np.asarray(obj.df[em], dtype=float), df[em].to_numpy()), f"{name}: {em}"

    # ---- via-file paths
    tmpdir = tempfile.mkdtemp(prefix="c04a_")
    for trial in range(36):
        n = sizes[trial % len(sizes)] if trial < 10 else int(rng.integers(1, 301))
        id_mode = id_modes[trial % len(id_modes)]
        df = random_motl_df(rng, n, id_mode, "default")
        snap = snapshot(df)
        for update in (False, True):
            for reset in (False, True):
                what = f"file trial {trial} n={n} ids={id_mode} update={update} reset={reset}"
                path = os.path.join(tmpdir, f"m_{trial}_{int(update)}_{int(reset)}.star")
                exp = expected_after_update(df) if update else df
                with contextlib.redirect_stdout(sink):
                    m = StopgapMotl(df)
                    m.write_out(path, update_coord=update, reset_index=reset)
                    if trial % 3 == 0:  # writing twice from the same object gives the same file
                        raw1 = open(path, "rb").read()
                        m.write_out(path, update_coord=False, reset_index=reset)
                        assert open(path, "rb").read() == raw1, what + ": second write differs"
                assert_untouched(df, snap, what)
                labels, rows = parse_star(path)
                assert labels == SG_COLUMNS, what
                assert len(rows) == n, what
                col = {lab: [r[i] for r in rows] for i, lab in enumerate(labels)}
                for em, st in RENAME:
                    assert close_star([float(v) for v in col[st]], exp[em].to_numpy()), f"{what}: file field {st}"
                assert col["halfset"] == expected_halfset(exp["subtomo_id"].to_numpy()), what + ": file halfset"
                if reset:
                    assert [float(v) for v in col["motl_idx"]] == [float(i) for i in range(1, n + 1)], what
                else:
                    assert close_star([float(v) for v in col["motl_idx"]], exp["subtomo_id"].to_numpy()), what
                # the file written with the original text of the conversion is byte-identical
                ref_path = path + ".ref"
                ref_sg = orig_convert_to_sg_motl(m.df, reset)
                ref_sg.fillna(0, inplace=True)
                from cryocat import starfileio
                starfileio.Starfile.write([ref_sg], ref_path, specifiers=["data_stopgap_motivelist"])
                assert open(ref_path, "rb").read() == open(path, "rb").read(), what + ": file differs from original"
                # load it back
                with contextlib.redirect_stdout(sink):
                    back = StopgapMotl(path)
                    back2 = cryomotl.stopgap2emmotl(path)
                assert back.df.shape[0] == n, what
                for em, st in RENAME:
                    assert close_star(back.df[em].to_numpy(), exp[em].to_numpy()), f"{what}: loaded field {em}"
                    assert close_star(back2.df[em].to_numpy(), exp[em].to_numpy()), f"{what}: loaded(em) field {em}"
                assert list(back.sg_df["halfset"]) == expected_halfset(exp["subtomo_id"].to_numpy()), what
                n_file += 1

    print(f"in-memory conversions checked: {n_mem}, via-file conversions checked: {n_file}, "
          f"log lines emitted by the conversion: {len(sink.getvalue().splitlines())}")
    print("PASS")


if __name__ == "__main__":
    try:
        main()
    except AssertionError as e:
        print("FAIL:", e)
        sys.exit(1)
