"""C20 demo, change (c): measure_thickness_cpu accepts max_matches_per_point=None (no limit on the candidates per source
point); every number, the default 25 included, takes the old route unchanged.

Run as:  cd /tmp/wt7/C20 && /venv/bin/python /tmp/seedsT/C20/c/demo.py
Checks the property C20 (one-to-one, forward, within range and cone, greedy, rigid motion, voxel scaling, direction)
against a dense float64 computation without KD-tree, the numba candidate kernel against the same computation, and the
current measure_thickness_cpu against the ORIGINAL text (kept below) bit for bit for the default and for explicit limits.
Where the tree under test accepts None, the result must be the original's with a limit no source reaches, and the property
must then hold on meshes with more than 25 candidates per source as well.  PASS / exit 0 when all hold.
"""
import sys, os

sys.path.insert(0, os.getcwd())

import io
import inspect
import logging
import contextlib
import numpy as np

from cryocat import memthick

LOG = logging.getLogger("c20demo")
LOG.setLevel(logging.CRITICAL)
LOG.propagate = False

FAILS = []
COUNTS = {}


def check(cond, msg):
    COUNTS["checks"] = COUNTS.get("checks", 0) + 1
    if not cond:
        FAILS.append(msg)
        if len(FAILS) <= 20:
            print("FAIL:", msg)


# ----------------------------------------------------------------------------------------------------------------
# the ORIGINAL text of measure_thickness_cpu and process_matches_cpu2cpu (cryocat/memthick.py at HEAD, 1437-1614).
# It is executed in a copy of the module's globals, so the original driver calls the original post-processing.
# ----------------------------------------------------------------------------------------------------------------
ORIG_SRC = r'''
def measure_thickness_cpu(
    points,
    normals,
    surface1_mask,
    surface2_mask,
    voxel_size,
    max_thickness_nm=8.0,
    max_angle_degrees=5.0,
    direction="1to2",
    num_threads=None,
    logger=None,
    max_matches_per_point=25,
):
    """CPU-based thickness measurement with parallelization."""
    log_msg = lambda msg: logger.info(msg) if logger else print(msg)

    # Set number of threads if specified
    if num_threads is not None:
        numba.set_num_threads(num_threads)
        log_msg(f"Using {num_threads} CPU threads")
    else:
        log_msg(f"Using all available CPU threads (numba default)")

    # Switch source and target surfaces if direction is 2to1
    if direction == "2to1":
        log_msg("Measuring thickness from surface 2 to surface 1...")
        source_mask, target_mask = surface2_mask, surface1_mask
    else:
        log_msg("Measuring thickness from surface 1 to surface 2...")
        source_mask, target_mask = surface1_mask, surface2_mask

    n_points = len(points)
    max_angle_cos = np.cos(np.radians(max_angle_degrees))

    # Convert max thickness from nm to voxels
    max_thickness_voxels = max_thickness_nm / voxel_size

    log_msg(f"Starting CPU thickness measurement with {n_points} points...")
    log_msg(f"Source points: {np.sum(source_mask)}, Target points: {np.sum(target_mask)}")
    log_msg(f"Max thickness: {max_thickness_nm} nm ({max_thickness_voxels:.2f} voxels)")
    log_msg(f"Max angle: {max_angle_degrees} degrees")

    # Get indices of target points
    target_indices = np.where(target_mask)[0]
    log_msg(f"Number of target points: {len(target_indices)}")

    # Get target points
    target_points = points[target_indices]

    # Get source points and indices
    source_indices = np.where(source_mask)[0]
    source_points = points[source_indices]

    log_msg(f"Number of source points: {len(source_points)}")

    # Use SciPy's KDTree for CPU implementation
    log_msg("Using SciPy KDTree implementation with query_ball_point")

    # Build KD-tree
    log_msg("Building KD-tree for target points...")
    target_tree = ScipyKDTree(target_points)

    # Pre-filter matches using ball query
    log_msg("Pre-filtering potential matches using KD-tree query_ball_point...")
    start_time = time.time()

    # Query ball point for each source point
    log_msg(f"Querying KD-tree for {len(source_points)} source points...")
    neighbor_lists = target_tree.query_ball_point(source_points, max_thickness_voxels)

    # Process the results
    flat_matches = []
    for i, neighbors in enumerate(neighbor_lists):
        source_idx = source_indices[i]
        source_normal = normals[source_idx]
        source_point = points[source_idx]

        valid_matches = 0

        for n in neighbors:
            # Get original index
            target_idx = target_indices[n]
            target_point = points[target_idx]

            # Vector from source to target
            dx = target_point[0] - source_point[0]
            dy = target_point[1] - source_point[1]
            dz = target_point[2] - source_point[2]

            # Distance
            dist = np.sqrt(dx * dx + dy * dy + dz * dz)

            # Project vector onto normal
            proj = dx * source_normal[0] + dy * source_normal[1] + dz * source_normal[2]

            # Only consider points in the direction of the normal
            if proj > 0:
                # Calculate lateral distance
                lateral_dx = dx - proj * source_normal[0]
                lateral_dy = dy - proj * source_normal[1]
                lateral_dz = dz - proj * source_normal[2]
                lateral_dist_sq = lateral_dx**2 + lateral_dy**2 + lateral_dz**2

                # Check if within cone angle
                if proj > max_angle_cos * dist:
                    flat_matches.append((dist, source_idx, target_idx))
                    valid_matches += 1

                    # Limit matches per point
                    if valid_matches >= max_matches_per_point:
                        break

    log_msg(f"KD-tree pre-filtering completed in {time.time() - start_time:.2f} seconds")
    log_msg(f"Found {len(flat_matches)} potential matches across all source points")

    # Process matches to ensure one-to-one matching
    log_msg("Processing matches to ensure one-to-one matching...")
    thickness_results, valid_mask, point_pairs = process_matches_cpu2cpu(flat_matches, n_points, voxel_size)

    log_msg(f"Found {np.sum(valid_mask)} valid thickness measurements")
    if np.sum(valid_mask) > 0:
        log_msg(f"Mean thickness: {np.mean(thickness_results[valid_mask]):.2f} nm")
        log_msg(
            f"Min: {np.min(thickness_results[valid_mask]):.2f} nm, Max: {np.max(thickness_results[valid_mask]):.2f} nm"
        )

    return thickness_results, valid_mask, point_pairs


def process_matches_cpu2cpu(flat_matches, n_points, voxel_size):
    """
    Process matches on CPU to ensure one-to-one matching and convert to physical units.

    Parameters
    ----------
    flat_matches : list
        List of tuples (distance, source_idx, target_idx)
    n_points : int
        Total number of points
    voxel_size : float
        Voxel size for scaling

    Returns
    -------
    thickness_results : ndarray
        Thickness measurements in physical units
    valid_mask : ndarray
        Boolean mask for valid measurements
    point_pairs : ndarray
        Indices of paired points
    """
    # Create arrays for final results (still in voxel units)
    thickness_results = np.zeros(n_points, dtype=np.float32)
    valid_mask = np.zeros(n_points, dtype=np.bool_)
    point_pairs = np.zeros(n_points, dtype=np.int32)

    # Sort matches by distance
    flat_matches.sort()

    # Track assigned points
    source_assigned = set()
    target_assigned = set()

    # Assign matches
    for dist, source_idx, target_idx in flat_matches:
        if source_idx not in source_assigned and target_idx not in target_assigned:
            # Assign match (still in voxel units)
            thickness_results[source_idx] = dist
            valid_mask[source_idx] = True
            point_pairs[source_idx] = target_idx

            source_assigned.add(source_idx)
            target_assigned.add(target_idx)

    # Convert thickness results to physical units before returning
    thickness_results = thickness_results * voxel_size

    return thickness_results, valid_mask, point_pairs
'''

_orig_ns = dict(vars(memthick))
exec(compile(ORIG_SRC, "<orig memthick 1437-1614>", "exec"), _orig_ns)
orig_measure = _orig_ns["measure_thickness_cpu"]
orig_process = _orig_ns["process_matches_cpu2cpu"]
new_measure = memthick.measure_thickness_cpu
new_process = memthick.process_matches_cpu2cpu


def run(fn, *args, **kw):
    """call fn, return ('ok', result) or ('exc', type name); stdout of the print-logger is swallowed"""
    buf = io.StringIO()
    try:
        with contextlib.redirect_stdout(buf):
            res = fn(*args, **kw)
        return "ok", res, buf.getvalue()
    except Exception as e:  # noqa
        return "exc", type(e).__name__, buf.getvalue()


def same_result(a, b):
    """bitwise identical triples (values, dtypes, shapes)"""
    if a[0] != b[0]:
        return False
    if a[0] == "exc":
        return a[1] == b[1]
    for x, y in zip(a[1], b[1]):
        x = np.asarray(x)
        y = np.asarray(y)
        if x.dtype != y.dtype or x.shape != y.shape or not np.array_equal(x, y):
            return False
    return True


# ----------------------------------------------------------------------------------------------------------------
# instance generator: two roughly parallel sheets (flat / curved / tilted) with jitter, noisy unit normals
# ----------------------------------------------------------------------------------------------------------------
def random_rotation(rng):
    q = rng.normal(size=4)
    q /= np.linalg.norm(q)
    w, x, y, z = q
    return np.array(
        [
            [1 - 2 * (y * y + z * z), 2 * (x * y - z * w), 2 * (x * z + y * w)],
            [2 * (x * y + z * w), 1 - 2 * (x * x + z * z), 2 * (y * z - x * w)],
            [2 * (x * z - y * w), 2 * (y * z + x * w), 1 - 2 * (x * x + y * y)],
        ]
    )


def surface(kind, xy, par):
    x, y = xy[:, 0], xy[:, 1]
    if kind == "flat":
        z = np.zeros_like(x)
        gx = np.zeros_like(x)
        gy = np.zeros_like(x)
    elif kind == "tilted":
        z = par[0] * x + par[1] * y
        gx = np.full_like(x, par[0])
        gy = np.full_like(x, par[1])
    else:  # curved
        A, w = par[2], par[3]
        z = A * np.sin(x / w) + A * np.cos(y / w)
        gx = A / w * np.cos(x / w)
        gy = -A / w * np.sin(y / w)
    n = np.stack([-gx, -gy, np.ones_like(x)], axis=1)
    n /= np.linalg.norm(n, axis=1, keepdims=True)
    return z, n


def make_instance(rng, n_total=None, labelling=None, dtype=np.float64):
    n_total = int(rng.integers(20, 601)) if n_total is None else n_total
    n1 = int(rng.integers(max(1, n_total // 4), max(2, 3 * n_total // 4)))
    n2 = n_total - n1
    kind = rng.choice(["flat", "tilted", "curved"])
    spacing = rng.uniform(1.2, 3.0)
    L = spacing * np.sqrt(max(n1, n2))
    par = (rng.uniform(-0.4, 0.4), rng.uniform(-0.4, 0.4), rng.uniform(0.5, 3.0), rng.uniform(4.0, 12.0))
    gap = rng.uniform(3.0, 8.0)
    jitter = rng.choice([0.0, 0.05, 0.3])
    xy1 = rng.uniform(0, L, (n1, 2))
    xy2 = rng.uniform(0, L, (n2, 2))
    z1, nn1 = surface(kind, xy1, par)
    z2, nn2 = surface(kind, xy2, par)
    P1 = np.column_stack([xy1, z1])
    P2 = np.column_stack([xy2, z2]) + gap * nn2
    P = np.vstack([P1, P2]) + rng.normal(scale=jitter, size=(n_total, 3)) if jitter else np.vstack([P1, P2])
    N = np.vstack([nn1, -nn2])
    # angular noise of the normals (up to some degrees), then exact re-normalisation
    noise = np.radians(rng.choice([0.0, 1.0, 4.0]))
    N = N + np.tan(noise) * rng.normal(size=N.shape) * 0.7
    N /= np.linalg.norm(N, axis=1, keepdims=True)
    s1 = np.zeros(n_total, bool)
    s1[:n1] = True
    s2 = ~s1
    labelling = rng.choice(["sheets", "sheets", "swapped", "noisy", "holes", "overlap"]) if labelling is None else labelling
    if labelling == "swapped":
        s1, s2 = s2, s1
        N = -N
    elif labelling == "noisy":
        flip = rng.random(n_total) < 0.15
        s1, s2 = np.where(flip, s2, s1), np.where(flip, s1, s2)
    elif labelling == "holes":
        drop = rng.random(n_total) < 0.2
        s1 = s1 & ~drop
        s2 = s2 & ~drop
    elif labelling == "overlap":
        both = rng.random(n_total) < 0.1
        s1 = s1 | both
        s2 = s2 | both
    # arbitrary order of the points
    perm = rng.permutation(n_total)
    P, N, s1, s2 = P[perm], N[perm], s1[perm], s2[perm]
    # arbitrary pose
    if rng.random() < 0.6:
        R = random_rotation(rng)
        P = P @ R.T + rng.uniform(-50, 50, 3)
        N = N @ R.T
    P = np.ascontiguousarray(P.astype(dtype))
    N = np.ascontiguousarray(N)
    voxel = float(rng.choice([0.5, 1.0, 0.87, 1.35, 7.84, 13.3]))
    r = gap * rng.uniform(0.8, 1.5)
    max_nm = float(r * voxel)
    max_deg = float(rng.choice([rng.uniform(1, 30), float(rng.integers(1, 31))]))
    direction = str(rng.choice(["1to2", "2to1"]))
    return dict(P=P, N=N, s1=s1, s2=s2, voxel=voxel, max_nm=max_nm, max_deg=max_deg, direction=direction)


# ----------------------------------------------------------------------------------------------------------------
# independent computation (dense, float64, no KD-tree): admissible pairs with margins, greedy assignment
# ----------------------------------------------------------------------------------------------------------------
def dense(inst, strict_radius=False):
    P = np.asarray(inst["P"], dtype=np.float64)
    N = np.asarray(inst["N"], dtype=np.float64)
    if inst["direction"] == "2to1":
        sm, tm = inst["s2"], inst["s1"]
    else:
        sm, tm = inst["s1"], inst["s2"]
    src = np.nonzero(sm)[0]
    tgt = np.nonzero(tm)[0]
    r = inst["max_nm"] / inst["voxel"]
    D = P[tgt][None, :, :] - P[src][:, None, :]
    dist = np.linalg.norm(D, axis=2)
    proj = np.einsum("stk,sk->st", D, N[src])
    with np.errstate(invalid="ignore", divide="ignore"):
        cosang = np.where(dist > 0, proj / np.where(dist > 0, dist, 1.0), -1.0)
    ang = np.degrees(np.arccos(np.clip(cosang, -1, 1)))
    return src, tgt, r, dist, proj, ang


def greedy(src, tgt, dist, adm):
    ii, jj = np.nonzero(adm)
    cand = sorted(zip(dist[ii, jj].tolist(), src[ii].tolist(), tgt[jj].tolist()))
    us, ut, pairs = set(), set(), {}
    for d, s, t in cand:
        if s not in us and t not in ut:
            us.add(s)
            ut.add(t)
            pairs[s] = (t, d)
    return pairs, cand


def check_property(inst, res, tag, eps_rel=1e-9, capless=False):
    """the statement of C20 checked on the result triple `res` of measure_thickness_cpu for instance `inst`"""
    thick, valid, pairs = res
    n = len(inst["P"])
    f32 = inst["P"].dtype == np.float32
    eps = 2e-4 if f32 else eps_rel
    src, tgt, r, dist, proj, ang = dense(inst)
    max_deg = inst["max_deg"]
    check(thick.shape == (n,) and valid.shape == (n,) and pairs.shape == (n,), f"{tag}: shapes")
    check(valid.dtype == np.bool_, f"{tag}: mask dtype")
    vs = np.nonzero(valid)[0]
    spos = {int(s): k for k, s in enumerate(src)}
    tpos = {int(t): k for k, t in enumerate(tgt)}
    # only sources are matched, only to targets, no target twice; unmatched entries are 0
    check(all(int(s) in spos for s in vs), f"{tag}: matched point that is not a source")
    check(all(int(pairs[s]) in tpos for s in vs), f"{tag}: partner that is not a target")
    check(len(set(pairs[vs].tolist())) == len(vs), f"{tag}: a target used twice")
    check(np.all(thick[~valid] == 0) and np.all(pairs[~valid] == 0), f"{tag}: unmatched entries not zero")
    if FAILS:
        return None
    # per pair: distance * voxel, within range, ahead, in the cone
    for s in vs:
        i, j = spos[int(s)], tpos[int(pairs[s])]
        d = dist[i, j]
        check(abs(thick[s] - d * inst["voxel"]) <= 1e-5 * max(1.0, d * inst["voxel"]) + (eps * d * inst["voxel"]), f"{tag}: thickness != distance*voxel at {s}")
        check(thick[s] <= inst["max_nm"] * (1 + 1e-6), f"{tag}: thickness above maximum at {s}")
        check(d <= r * (1 + eps), f"{tag}: distance above maximum at {s}")
        check(proj[i, j] > 0, f"{tag}: target behind the source at {s}")
        check(ang[i, j] <= max_deg + (0.05 if f32 else 1e-6), f"{tag}: pair outside the cone at {s}: {ang[i, j]} > {max_deg}")
    # admissible with a margin / possibly admissible
    tol_ang = 0.05 if f32 else 1e-6
    adm_sure = (dist < r * (1 - eps)) & (proj > 0) & (ang < max_deg - tol_ang)
    adm_any = (dist <= r * (1 + eps)) & (proj > 0) & (ang <= max_deg + tol_ang)
    ncand = adm_any.sum(axis=1).max() if adm_any.size else 0
    COUNTS["maxcand"] = max(COUNTS.get("maxcand", 0), int(ncand))
    if ncand >= 25 and not capless:
        COUNTS["capped"] = COUNTS.get("capped", 0) + 1
        return None  # outside the quantifier (fewer than 25 candidates per source point)
    s_un = np.array([not valid[s] for s in src], dtype=bool)
    used_t = set(pairs[vs].tolist())
    t_un = np.array([int(t) not in used_t for t in tgt], dtype=bool)
    # no admissible pair of two unmatched points is left over
    left = adm_sure & s_un[:, None] & t_un[None, :]
    check(not left.any(), f"{tag}: admissible pair of two unmatched points left over")
    # no matched source has a closer admissible unmatched target
    for s in vs:
        i, j = spos[int(s)], tpos[int(pairs[s])]
        closer = adm_sure[i] & t_un & (dist[i] < dist[i, j] * (1 - eps))
        check(not closer.any(), f"{tag}: matched source {s} has a closer admissible unmatched target")
    # greedy by increasing distance: on robust instances (no border cases, no near ties) the assignment is unique
    robust = not (adm_any & ~adm_sure).any()
    ref_pairs, cand = greedy(src, tgt, dist, adm_sure)
    ds = np.array([c[0] for c in cand])
    if len(ds) > 1 and np.min(np.diff(ds)) <= eps * max(1.0, ds.max()):
        robust = False
    if robust:
        COUNTS["robust"] = COUNTS.get("robust", 0) + 1
        got = {int(s): int(pairs[s]) for s in vs}
        check(got == {s: t for s, (t, d) in ref_pairs.items()}, f"{tag}: pairing differs from the greedy reference")
    COUNTS["pairs"] = COUNTS.get("pairs", 0) + len(vs)
    return robust


def call(fn, inst, **over):
    a = dict(inst)
    a.update(over)
    extra = {k: a[k] for k in a if k not in ("P", "N", "s1", "s2", "voxel", "max_nm", "max_deg", "direction")}
    return run(fn, a["P"], a["N"], a["s1"], a["s2"], a["voxel"], a["max_nm"], a["max_deg"], a["direction"], logger=LOG, **extra)


def full_check(inst, tag):
    """property on the current tree + comparison current vs. original text"""
    keep = [inst["P"].copy(), inst["N"].copy(), inst["s1"].copy(), inst["s2"].copy()]
    new = call(new_measure, inst)
    old = call(orig_measure, inst)
    check(new[0] == "ok", f"{tag}: raised {new[1]}")
    check(same_result(new, old), f"{tag}: result differs from the original function")
    if new[0] != "ok":
        return None
    robust = check_property(inst, new[1], tag)
    # repeated call on the same objects, inputs untouched
    again = call(new_measure, inst)
    check(same_result(new, again), f"{tag}: second call differs")
    check(all(np.array_equal(x, y) for x, y in zip(keep, [inst["P"], inst["N"], inst["s1"], inst["s2"]])), f"{tag}: inputs modified")
    # direction '2to1' swaps the roles of the surfaces
    other = "2to1" if inst["direction"] == "1to2" else "1to2"
    sw = call(new_measure, inst, s1=inst["s2"], s2=inst["s1"], direction=other)
    check(same_result(new, sw), f"{tag}: direction does not swap the roles")
    # voxel size: scale by a power of two -> same pairs, thickness * 2 (exact in float32)
    v2 = call(new_measure, inst, voxel=inst["voxel"] * 2, max_nm=inst["max_nm"] * 2)
    check(v2[0] == "ok" and np.array_equal(v2[1][1], new[1][1]) and np.array_equal(v2[1][2], new[1][2]) and np.array_equal(v2[1][0], new[1][0] * 2), f"{tag}: voxel scaling (x2)")
    if robust:
        v3 = call(new_measure, inst, voxel=inst["voxel"] * 1.7, max_nm=inst["max_nm"] * 1.7)
        check(v3[0] == "ok" and np.array_equal(v3[1][1], new[1][1]) and np.array_equal(v3[1][2], new[1][2]) and np.allclose(v3[1][0], new[1][0] * 1.7, rtol=1e-5), f"{tag}: voxel scaling (x1.7)")
    return robust, new[1]


def rigid_check(rng, inst, res, tag):
    R = random_rotation(rng)
    t = rng.uniform(-30, 30, 3)
    moved = dict(inst)
    moved["P"] = np.ascontiguousarray((np.asarray(inst["P"], np.float64) @ R.T + t))
    moved["N"] = np.ascontiguousarray(inst["N"] @ R.T)
    m = call(new_measure, moved)
    check(m[0] == "ok" and np.array_equal(m[1][1], res[1]) and np.array_equal(m[1][2], res[2]) and np.allclose(m[1][0], res[0], rtol=1e-5, atol=1e-5), f"{tag}: not invariant under rigid motion")


# ----------------------------------------------------------------------------------------------------------------
# numba candidate kernel: same candidates as the dense computation (radius strict there), in target order
# ----------------------------------------------------------------------------------------------------------------
def kernel_check(inst, tag):
    P = np.ascontiguousarray(inst["P"], dtype=np.float64)
    N = np.ascontiguousarray(inst["N"], dtype=np.float64)
    sm, tm = (inst["s2"], inst["s1"]) if inst["direction"] == "2to1" else (inst["s1"], inst["s2"])
    sm = np.ascontiguousarray(sm, dtype=np.bool_)
    tm = np.ascontiguousarray(tm, dtype=np.bool_)
    tidx = np.nonzero(tm)[0]
    n = len(P)
    r = inst["max_nm"] / inst["voxel"]
    c = np.cos(np.radians(inst["max_deg"]))
    md = np.zeros((n, 25))
    mi = np.full((n, 25), -1, dtype=np.int64)
    mc = np.zeros(n, dtype=np.int64)
    memthick.find_matches_parallel(P, N, sm, tm, tidx, r, c, md, mi, mc)
    src, tgt, r, dist, proj, ang = dense(inst)
    eps = 1e-9
    sure = (dist < r * (1 - eps)) & (proj > 0) & (ang < inst["max_deg"] - 1e-6)
    anyy = (dist <= r * (1 + eps)) & (proj > 0) & (ang <= inst["max_deg"] + 1e-6)
    check(np.all(mc[~sm] == 0), f"{tag}: kernel counts at non-sources")
    for k, s in enumerate(src):
        got = mi[s, : mc[s]].tolist()
        lo = tgt[sure[k]].tolist()
        hi = set(tgt[anyy[k]].tolist())
        if len(hi) >= 25:
            continue
        check(got == sorted(got), f"{tag}: kernel candidates not in target order at {s}")
        check(set(lo) <= set(got) <= hi, f"{tag}: kernel candidates differ from the dense computation at {s}")
        for q, t in enumerate(got):
            check(abs(md[s, q] - dist[k, list(tgt).index(t)]) <= 1e-9 * max(1.0, md[s, q]), f"{tag}: kernel distance at {s}")
    return md, mi, mc


def cpu_candidates_equal_kernel(inst, tag):
    """pairs of the CPU driver == greedy assignment over the kernel's candidates (radius not hit exactly)"""
    md, mi, mc = kernel_check(inst, tag)
    cand = []
    for s in range(len(mc)):
        for q in range(mc[s]):
            cand.append((md[s, q], s, int(mi[s, q])))
    cand.sort()
    us, ut, pr = set(), set(), {}
    for d, s, t in cand:
        if s not in us and t not in ut:
            us.add(s)
            ut.add(t)
            pr[s] = t
    res = call(new_measure, inst)
    if res[0] == "ok" and inst["P"].dtype == np.float64 and (mc.max() if len(mc) else 0) < 25:
        vs = np.nonzero(res[1][1])[0]
        check({int(s): int(res[1][2][s]) for s in vs} == pr, f"{tag}: CPU pairs != greedy over the numba kernel's candidates")


# ----------------------------------------------------------------------------------------------------------------
# edge cases built by hand
# ----------------------------------------------------------------------------------------------------------------
def hand_instances():
    out = []
    z = np.array([0.0, 0.0, 1.0])
    # exact thresholds / poles: source at the origin, normal +z
    P = np.array(
        [
            [0, 0, 0],  # source
            [0, 0, 4],  # exactly at the maximum distance, on the axis (angle 0)
            [0, 0, -2],  # behind (angle 180)
            [3, 0, 0],  # at 90 degrees (proj == 0)
            [1, 0, 3],  # 18.43 degrees off
            [0, 0, 0],  # coincident with the source (dist 0)
            [0, 0, 4.0000001],  # just outside
            [0.5, 0, 3.5],  # 8.13 degrees
        ],
        dtype=np.float64,
    )
    N = np.tile(z, (len(P), 1))
    s1 = np.zeros(len(P), bool)
    s1[0] = True
    for deg in (1.0, 8.0, 8.2, 18.0, 18.5, 30.0):
        for dirn, a, b in (("1to2", s1, ~s1), ("2to1", ~s1, s1)):
            out.append(dict(P=P, N=N, s1=a, s2=b, voxel=1.0, max_nm=4.0, max_deg=deg, direction=dirn))
            out.append(dict(P=P, N=N, s1=a, s2=b, voxel=0.5, max_nm=2.0, max_deg=deg, direction=dirn))
    # integer grids (exact ties in the distance: order decided by the source, then the target index)
    g = np.array([[x, y, zz] for zz in (0, 3) for x in range(5) for y in range(4)])
    Ng = np.where(g[:, 2:3] == 0, 1.0, -1.0) * z
    m1 = g[:, 2] == 0
    for pts in (g.astype(np.int64), g.astype(np.int32), g.astype(np.float64), g.astype(np.float32)):
        for deg in (1.0, 20.0, 30.0):
            for dirn in ("1to2", "2to1"):
                out.append(dict(P=pts, N=Ng, s1=m1, s2=~m1, voxel=1.0, max_nm=3.5, max_deg=deg, direction=dirn))
    # single source / single target / nothing in reach / empty surfaces / all points in both surfaces
    rng = np.random.default_rng(5)
    base = make_instance(rng, n_total=40, labelling="sheets")
    one = np.zeros(40, bool)
    one[np.nonzero(base["s1"])[0][0]] = True
    out.append(dict(base, s1=one))
    one2 = np.zeros(40, bool)
    one2[np.nonzero(base["s2"])[0][-1]] = True
    out.append(dict(base, s2=one2))
    out.append(dict(base, s1=one, s2=one2))
    out.append(dict(base, max_nm=1e-3))
    out.append(dict(base, s1=np.zeros(40, bool)))
    out.append(dict(base, s2=np.zeros(40, bool)))
    out.append(dict(base, s1=np.zeros(40, bool), s2=np.zeros(40, bool)))
    out.append(dict(base, s1=np.ones(40, bool), s2=np.ones(40, bool)))
    # masks given as 0/1 integers (np.where / np.sum treat them as truth values)
    out.append(dict(base, s1=base["s1"].astype(np.int32), s2=base["s2"].astype(np.int32)))
    return out


def main_common(seed, n_random):
    rng = np.random.default_rng(seed)
    n_rob = 0
    for k, inst in enumerate(hand_instances()):
        tag = f"hand[{k}]"
        if np.asarray(inst["s1"]).dtype != np.bool_:
            new, old = call(new_measure, inst), call(orig_measure, inst)
            check(same_result(new, old), f"{tag}: integer masks: differs from the original")
            continue
        full_check(inst, tag)
    for k in range(n_random):
        dtype = np.float32 if k % 7 == 3 else np.float64
        n_total = (20, 21, 600, 599)[k] if k < 4 else None
        inst = make_instance(rng, n_total=n_total, dtype=dtype)
        tag = f"rand[{k}] n={len(inst['P'])} {inst['direction']} deg={inst['max_deg']:.3f}"
        out = full_check(inst, tag)
        if out is None:
            continue
        robust, res = out
        if robust and dtype == np.float64:
            n_rob += 1
            rigid_check(rng, inst, res, tag)
        if k % 3 == 0 and dtype == np.float64:
            cpu_candidates_equal_kernel(inst, tag)
    # print-logger and thread-count branches
    inst = make_instance(rng, n_total=60)
    a = run(new_measure, inst["P"], inst["N"], inst["s1"], inst["s2"], inst["voxel"], inst["max_nm"], inst["max_deg"], inst["direction"])
    b = run(orig_measure, inst["P"], inst["N"], inst["s1"], inst["s2"], inst["voxel"], inst["max_nm"], inst["max_deg"], inst["direction"])
    check(same_result(a, b) and a[2].splitlines()[:3] == b[2].splitlines()[:3], "print logger branch differs")
    # keyword call exactly as process_membrane_segmentation / measure_membrane_thickness do it
    a = run(new_measure, inst["P"], inst["N"], inst["s1"], inst["s2"], voxel_size=inst["voxel"], max_thickness_nm=inst["max_nm"], max_angle_degrees=inst["max_deg"], direction=inst["direction"], num_threads=None, logger=LOG)
    check(same_result(a, b), "keyword call differs")
    # defaults (8 nm, 5 degrees, 1to2, 25 candidates)
    a = run(new_measure, inst["P"], inst["N"], inst["s1"], inst["s2"], inst["voxel"], logger=LOG)
    b = run(orig_measure, inst["P"], inst["N"], inst["s1"], inst["s2"], inst["voxel"], logger=LOG)
    check(same_result(a, b), "defaults differ")
    return n_rob


def dense_instances(rng, count):
    """more than 25 candidates per source (outside the quantifier of the property; only new == original is asked)"""
    for k in range(count):
        n = int(rng.integers(150, 500))
        P = np.vstack([np.column_stack([rng.uniform(0, 6, (n, 2)), np.zeros(n)]), np.column_stack([rng.uniform(0, 6, (n, 2)), np.full(n, 5.0)])])
        P += rng.normal(scale=0.05, size=P.shape)
        N = np.vstack([np.tile([0, 0, 1.0], (n, 1)), np.tile([0, 0, -1.0], (n, 1))])
        s1 = np.arange(2 * n) < n
        yield dict(P=P, N=N, s1=s1, s2=~s1, voxel=1.0, max_nm=float(rng.uniform(6, 9)), max_deg=float(rng.uniform(20, 30)), direction=str(rng.choice(["1to2", "2to1"])))


# ----------------------------------------------------------------------------------------------------------------
# specific to change (c): the limit on the candidates per source point
# ----------------------------------------------------------------------------------------------------------------
def main():
    n_rob = main_common(seed=2003, n_random=130)
    rng = np.random.default_rng(79)
    sig = inspect.signature(new_measure)
    check(list(sig.parameters) == list(inspect.signature(orig_measure).parameters), "parameter list changed")
    check(all(sig.parameters[k].default == v.default or (sig.parameters[k].default is v.default) for k, v in inspect.signature(orig_measure).parameters.items()), "a default changed")
    # does the tree under test accept None?  (the unmodified one compares the count with None and raises)
    probe = next(dense_instances(np.random.default_rng(1), 1))
    accepts_none = call(new_measure, probe, max_matches_per_point=None)[0] == "ok"
    print("max_matches_per_point=None accepted:", accepts_none)
    # explicit limits and the default: the old route, bit for bit, also where the limit cuts candidates off
    for k, inst in enumerate(dense_instances(rng, 8)):
        default_new, default_old = call(new_measure, inst), call(orig_measure, inst)
        check(default_new[0] == "ok" and same_result(default_new, default_old), f"dense[{k}] default limit: differs from the original")
        for cap in (25, 1, 2, 3, 7, 24, 26, 1000, 0, -1, 2.5, float("inf"), np.int64(4), True, False):
            a = call(new_measure, inst, max_matches_per_point=cap)
            b = call(orig_measure, inst, max_matches_per_point=cap)
            check(a[0] == "ok" and same_result(a, b), f"dense[{k}] cap={cap!r}: differs from the original")
        check(same_result(call(new_measure, inst, max_matches_per_point=25), default_new), f"dense[{k}]: 25 is not the default")
        if accepts_none:
            free = call(new_measure, inst, max_matches_per_point=None)
            big = call(orig_measure, inst, max_matches_per_point=10**9)
            check(free[0] == "ok" and same_result(free, big), f"dense[{k}]: None differs from a limit no source reaches")
            if free[0] == "ok":
                check_property(inst, free[1], f"dense[{k}] no limit", capless=True)
    # sparse instances (inside the quantifier: fewer than 25 candidates): None, 25 and the original all agree
    for k in range(40):
        inst = make_instance(rng, n_total=int(rng.integers(20, 300)), dtype=np.float32 if k % 5 == 0 else np.float64)
        old = call(orig_measure, inst)
        new = call(new_measure, inst)
        check(new[0] == "ok" and same_result(new, old), f"sparse[{k}]: default differs from the original")
        if accepts_none and new[0] == "ok":
            free = call(new_measure, inst, max_matches_per_point=None)
            src, tgt, r, dist, proj, ang = dense(inst)
            ncand = ((dist <= r * (1 + 1e-3)) & (proj > 0) & (ang <= inst["max_deg"] + 0.1)).sum(axis=1).max()
            if ncand < 25:
                check(same_result(free, new), f"sparse[{k}]: None differs from the default although no source has 25 candidates")
            check_property(inst, free[1], f"sparse[{k}] no limit", capless=True)
    print(f"checks: {COUNTS.get('checks')}, pairs checked: {COUNTS.get('pairs')}, robust instances: {COUNTS.get('robust')}, "
          f"rigid-motion runs: {n_rob}, max candidates per source: {COUNTS.get('maxcand')}, capped instances skipped: {COUNTS.get('capped', 0)}")
    if FAILS:
        print(f"FAIL ({len(FAILS)} failed checks)")
        sys.exit(1)
    print("PASS")


if __name__ == "__main__":
    main()
