"""C06 / change b -- loop state in the quaternion / cone-sampling helpers of geom.py.

Run as:  cd /tmp/wt13/C06 && /venv/bin/python /tmp/seedsW/C06/b/demo.py

quaternion_log walks over zip(q, q_norm, v_norm) instead of indexing three arrays with a running row number;
number_of_cone_rotations collects the psi steps per circle and sums them with the same start value instead of
growing a running total.

1. The property (rotation geometry primitives agree with SO(3) ground truth) is tested against an
   independent computation: rotation matrices built by hand from the zxz Euler angles, relative rotation angle
   from trace / skew part, z-axis as third matrix column.  The helpers touched here are tied to the property:
   the quaternion logarithm of q1^-1 q2 has a vector part of length angular_distance / 2, and the cone samples
   (number_of_cone_rotations -> sample_cone -> generate_angles -> normals_to_euler_angles) are normals whose
   Euler angles must give back the same z-axis.
2. The functions of the tree (patched or not) are compared bit for bit with the ORIGINAL function text kept below.
3. The caller's inputs are checked to be untouched.
"""
import os
import sys

sys.path.insert(0, os.getcwd())

import io
import contextlib
import itertools
import warnings

import numpy as np
import pandas as pd
from scipy.spatial.transform import Rotation as srot

warnings.filterwarnings("ignore")  # gimbal lock warnings of scipy

from cryocat import geom

FAILS = []


def check(cond, msg):
    if not cond:
        FAILS.append(msg)
        if len(FAILS) < 30:
            print("FAIL:", msg)


# --------------------------------------------------------------------------------------------------------------
# original text of the functions touched by change b (taken from HEAD b1093bd), and of their callers
# --------------------------------------------------------------------------------------------------------------
ORIGINAL = '''
def quaternion_log(q):
    v_norm = np.linalg.norm(q[:, :3], axis=1)
    q_norm = np.linalg.norm(q, axis=1)

    tolerance = 10e-14

    new_scalar = []
    new_vector = []

    for i, _ in enumerate(q):
        if q_norm[i] < tolerance:
            # 0 quaternion - undefined
            new_scalar.append(0.0)
            new_vector.append([0.0, 0.0, 0.0])

        elif v_norm[i] < tolerance:
            # real quaternions - no imaginary part
            new_scalar.append(np.log(q_norm[i]))
            new_vector.append([0, 0, 0])
        else:
            vec = q[i, :3] / v_norm[i]
            new_scalar.append(np.log(q_norm[i]))
            vector = np.arccos(q[i, 3] / q_norm[i])
            vector = vec * vector
            new_vector.append(vector)

    new_vector = np.vstack(new_vector)

    new_scalar = np.array(new_scalar).reshape(q.shape[0], 1)
    return np.hstack([new_vector, new_scalar])


def number_of_cone_rotations(cone_angle, cone_sampling):
    # Theta steps
    theta_max = cone_angle / 2
    temp_steps = theta_max / cone_sampling
    theta_array = np.linspace(0, theta_max, round(temp_steps) + 1)
    arc = 2.0 * np.pi * (cone_sampling / 360.0)

    number_of_rotations = 2  # starting and ending angle

    # Generate psi angles
    for i, theta in enumerate(theta_array[(theta_array > 0) & (theta_array < 180)]):
        radius = np.sin(theta * np.pi / 180.0)  # Radius of circle
        circ = 2.0 * np.pi * radius  # Circumference
        number_of_rotations += np.ceil(circ / arc) + 1  # Number of psi steps

    return number_of_rotations


def sample_cone(cone_angle, cone_sampling, center=None, radius=1.0):

    if center is None:
        center = np.array([0.0, 0.0, 0.0])

    number_of_points = number_of_cone_rotations(cone_angle, cone_sampling)

    # golden angle in radians
    phi = np.pi * (3 - np.sqrt(5))
    cone_size = cone_angle / 180.0

    north_pole = [0.0, 0.0, radius]
    if center is not None:
        north_pole = north_pole + center
    sampled_points = [north_pole]
    for i in np.arange(1, number_of_points, 1):
        # z goes from 1 to -1 for 360 degrees (i.e., a full sphere), is less
        z = 1 - (i / (number_of_points - 1)) * cone_size

        sp_radius = np.sqrt(1 - z * z)

        # golden angle increment
        theta = phi * i
        x = np.cos(theta) * sp_radius
        y = np.sin(theta) * sp_radius

        x = x * radius + center[0]
        y = y * radius + center[1]
        z = z * radius + center[2]

        sampled_points.append(np.array([x, y, z]))

    return np.stack(sampled_points, axis=0)


def generate_angles(
    cone_angle,
    cone_sampling,
    inplane_angle=360.0,
    inplane_sampling=None,
    starting_angles=None,
    symmetry=1.0,
    angle_order="zxz",
):
    points = sample_cone(cone_angle, cone_sampling)
    angles = normals_to_euler_angles(points, output_order=angle_order)
    angles[:, 0] = 0.0

    starting_phi = 0.0

    cone_rotations = srot.from_euler(angle_order, angles=angles, degrees=True)

    if starting_angles is not None:
        starting_rot = srot.from_euler(angle_order, angles=starting_angles, degrees=True)
        cone_rotations = starting_rot * cone_rotations  # swapped order w.r.t. the quat_mult in matlab!
        starting_phi = starting_angles[0]

    cone_angles = cone_rotations.as_euler(angle_order, degrees=True)
    cone_angles = cone_angles[:, 1:3]

    # Calculate phi angles
    if inplane_sampling is None:
        inplane_sampling = cone_sampling

    if inplane_angle != 360.0:
        phi_max = min(360.0 / symmetry, inplane_angle)
    else:
        phi_max = inplane_angle / symmetry

    phi_steps = phi_max / inplane_sampling
    phi_array = np.linspace(0, phi_max, round(phi_steps) + 1)
    phi_array = phi_array[:-1]  # Final angle is redundant

    if phi_array.size == 0:
        phi_array = np.array([[0.0]])

    n_phi = np.size(phi_array)
    phi_array = phi_array + starting_phi

    # Generate angle list
    angular_array = np.concatenate(
        [
            np.tile(phi_array[:, np.newaxis], (cone_angles.shape[0], 1)),
            np.repeat(cone_angles, n_phi, axis=0),
        ],
        axis=1,
    )

    return angular_array
'''
ORIG = dict(vars(geom))
exec(compile(ORIGINAL, "<original geom>", "exec"), ORIG)


# --------------------------------------------------------------------------------------------------------------
# independent SO(3) ground truth
# --------------------------------------------------------------------------------------------------------------
def _rz(a):
    c, s = np.cos(np.radians(a)), np.sin(np.radians(a))
    return np.array([[c, -s, 0.0], [s, c, 0.0], [0.0, 0.0, 1.0]])


def _rx(a):
    c, s = np.cos(np.radians(a)), np.sin(np.radians(a))
    return np.array([[1.0, 0.0, 0.0], [0.0, c, -s], [0.0, s, c]])


def matrix_zxz(angles):
    """extrinsic zxz: first phi about z, then theta about x, then psi about z"""
    phi, theta, psi = angles
    return _rz(psi) @ _rx(theta) @ _rz(phi)


def matrices(angles):
    return np.stack([matrix_zxz(a) for a in np.atleast_2d(angles)])


def rotation_angle(m):
    """rotation angle (degrees) of one rotation matrix, from the skew part and the trace"""
    skew = np.array([m[2, 1] - m[1, 2], m[0, 2] - m[2, 0], m[1, 0] - m[0, 1]])
    return np.degrees(np.arctan2(0.5 * np.linalg.norm(skew), 0.5 * (np.trace(m) - 1.0)))


def truth_angular(m1, m2):
    return np.array([rotation_angle(a.T @ b) for a, b in zip(m1, m2)])


def truth_cone(m1, m2):
    out = []
    for a, b in zip(m1, m2):
        za, zb = a[:, 2], b[:, 2]
        out.append(np.degrees(np.arctan2(np.linalg.norm(np.cross(za, zb)), np.dot(za, zb))))
    return np.array(out)


TOL = 1e-4  # degrees; 2*acos(|q1.q2|) has sqrt(eps) resolution near 0


# --------------------------------------------------------------------------------------------------------------
# input families of the quantifier
# --------------------------------------------------------------------------------------------------------------
rng = np.random.default_rng(20606)


def random_angles(n):
    return np.column_stack(
        [rng.uniform(-180, 180, n), np.degrees(np.arccos(rng.uniform(-1, 1, n))), rng.uniform(-180, 180, n)]
    )


def families():
    fam = {}
    fam["random"] = (random_angles(200), random_angles(200))
    base = random_angles(100)
    fam["near_identical"] = (base, base + rng.normal(0, 1e-5, base.shape))
    fam["equal"] = (base, base.copy())
    # antipodal: second = first composed with a 180 degree turn about a random axis
    axes = rng.normal(size=(100, 3))
    axes /= np.linalg.norm(axes, axis=1, keepdims=True)
    flipped = (srot.from_euler("zxz", base, degrees=True) * srot.from_rotvec(np.pi * axes)).as_euler(
        "zxz", degrees=True
    )
    fam["antipodal"] = (base, flipped)
    gl = np.column_stack([rng.uniform(-180, 180, 60), rng.choice([0.0, 180.0], 60), rng.uniform(-180, 180, 60)])
    fam["gimbal"] = (gl, random_angles(60))
    fam["gimbal_both"] = (gl, gl[::-1].copy())
    cube = srot.create_group("O").as_euler("zxz", degrees=True)
    pairs = np.array(list(itertools.product(range(24), range(24))))
    fam["cube"] = (cube[pairs[:, 0]], cube[pairs[:, 1]])
    lat = np.array(list(itertools.product(np.arange(0, 360, 45), np.arange(0, 181, 45), np.arange(0, 360, 45))), float)
    idx = rng.integers(0, len(lat), size=(400, 2))
    fam["lattice"] = (lat[idx[:, 0]], lat[idx[:, 1]])
    fam["single"] = (random_angles(1), random_angles(1))
    fam["batch500"] = (random_angles(500), random_angles(500))
    return fam


def same(a, b):
    """bit for bit comparison of possibly nested results"""
    if isinstance(a, tuple) or isinstance(b, tuple):
        return isinstance(a, tuple) and isinstance(b, tuple) and len(a) == len(b) and all(same(x, y) for x, y in zip(a, b))
    if a is None or b is None:
        return a is None and b is None
    if isinstance(a, str) or isinstance(b, str):
        return a == b
    a_, b_ = np.asarray(a), np.asarray(b)
    return type(a) is type(b) and a_.dtype == b_.dtype and a_.shape == b_.shape and np.array_equal(a_, b_, equal_nan=True)


def call(fun, *args, **kwargs):
    """result or exception type, plus what was printed"""
    buf = io.StringIO()
    with contextlib.redirect_stdout(buf):
        try:
            res = fun(*args, **kwargs)
        except Exception as err:  # noqa: BLE001
            res = ("raised", type(err).__name__)
    return res, buf.getvalue()


# --------------------------------------------------------------------------------------------------------------
# 1. the property
# --------------------------------------------------------------------------------------------------------------
def property_checks():
    for name, (a1, a2) in families().items():
        a1_keep, a2_keep = a1.copy(), a2.copy()
        m1, m2 = matrices(a1), matrices(a2)
        r1 = srot.from_euler("zxz", a1, degrees=True)
        r2 = srot.from_euler("zxz", a2, degrees=True)
        q1_keep, q2_keep = r1.as_quat().copy(), r2.as_quat().copy()
        # my matrices are the matrices scipy uses
        check(np.allclose(np.atleast_3d(r1.as_matrix()).reshape(-1, 3, 3), m1, atol=1e-12), f"{name}: convention")

        for first, second in ((r1, r2), (a1, a2)):  # Rotation objects and Euler arrays
            ang, dist = geom.angular_distance(first, second)
            truth = truth_angular(m1, m2)
            check(ang.shape == (len(m1),), f"{name}: one distance per pair")
            check(np.all(ang >= 0.0) and np.all(ang <= 180.0), f"{name}: range [0,180]")
            check(np.allclose(ang, truth, atol=TOL), f"{name}: distance equals relative rotation angle {np.abs(ang - truth).max()}")
            back, _ = geom.angular_distance(second, first)
            check(np.allclose(ang, back, atol=1e-9), f"{name}: symmetric")
            check(np.all(dist >= 0.0) and np.all(dist <= 1.0 + 1e-12), f"{name}: chordal part in [0,1]")
            check(np.allclose(dist, np.where(np.sin(np.radians(truth / 2)) ** 2 < 10e-8, 0, np.sin(np.radians(truth / 2)) ** 2), atol=1e-6),
                  f"{name}: 1-(q1.q2)^2 = sin^2(angle/2)")
        self_d, _ = geom.angular_distance(r1, r1)
        check(np.all(self_d <= TOL), f"{name}: zero for equal rotations")
        ang, _ = geom.angular_distance(r1, r2)
        check(np.all((ang <= TOL) == (truth_angular(m1, m2) <= TOL)), f"{name}: zero exactly for equal rotations")

        # invariance under a common rotation, on either side
        g = srot.from_euler("zxz", random_angles(1)[0], degrees=True)
        gs = srot.from_euler("zxz", random_angles(len(m1)), degrees=True)
        for common in (g, gs):
            left, _ = geom.angular_distance(common * r1, common * r2)
            right, _ = geom.angular_distance(r1 * common, r2 * common)
            check(np.allclose(left, ang, atol=TOL), f"{name}: left invariance")
            check(np.allclose(right, ang, atol=TOL), f"{name}: right invariance")

        # triangle inequality with a third rotation
        a3 = random_angles(len(m1))
        r3 = srot.from_euler("zxz", a3, degrees=True)
        d13, _ = geom.angular_distance(r1, r3)
        d32, _ = geom.angular_distance(r3, r2)
        check(np.all(ang <= d13 + d32 + TOL), f"{name}: triangle inequality")

        # cone and in-plane distance
        cone = geom.cone_distance(r1, r2)
        check(np.allclose(cone, truth_cone(m1, m2), atol=TOL), f"{name}: cone distance is the angle of the z-axes")
        inpl = geom.inplane_distance(r1, r2)
        check(np.all(inpl >= 0.0) and np.all(inpl <= 180.0), f"{name}: in-plane range")
        check(np.all(geom.inplane_distance(r1, r1) == 0.0), f"{name}: in-plane zero for equal orientations")
        c2, i2 = geom.cone_inplane_distance(a1, a2)
        check(np.allclose(c2, cone, atol=1e-9) and np.allclose(i2, inpl, atol=1e-9), f"{name}: cone_inplane_distance")
        if len(m1) > 1:
            allr = geom.compare_rotations(a1, a2)
            check(np.allclose(allr[0], ang, atol=1e-9) and np.allclose(allr[1], cone, atol=1e-9)
                  and np.allclose(allr[2], inpl, atol=1e-9), f"{name}: compare_rotations")

        # Euler angles -> normals
        normals = geom.euler_angles_to_normals(a1)
        check(normals.shape == (len(m1), 3), f"{name}: one normal per orientation")
        check(np.allclose(np.linalg.norm(normals, axis=1), 1.0, atol=1e-12), f"{name}: unit normals")
        check(np.allclose(normals, m1[:, :, 2], atol=1e-12), f"{name}: normal is the image of the z-axis")
        check(np.allclose(geom.visualize_angles(a1, plot_rotations=False), m1[:, :, 2], atol=1e-12), f"{name}: visualize_angles")

        # inputs untouched
        check(np.array_equal(a1, a1_keep) and np.array_equal(a2, a2_keep), f"{name}: Euler inputs untouched")
        check(np.array_equal(r1.as_quat(), q1_keep) and np.array_equal(r2.as_quat(), q2_keep), f"{name}: rotations untouched")

    # normals -> Euler angles: any length, axis aligned, +-z
    for n in (1, 2, 17, 500):
        normals = rng.normal(size=(n, 3)) * rng.uniform(1e-3, 1e3, size=(n, 1))
        special = np.array([[1, 0, 0], [-1, 0, 0], [0, 1, 0], [0, -2, 0], [0, 0, 1], [0, 0, -1], [0, 0, 5.0], [0, 0, -0.1]], float)
        normals = np.vstack([normals, special])
        keep = normals.copy()
        for inp in (normals, pd.DataFrame(normals, columns=["x", "y", "z"])):
            ang = geom.normals_to_euler_angles(inp)
            check(ang.shape == (len(normals), 3), "normals_to_euler_angles: one triple per normal")
            z = matrices(ang)[:, :, 2]
            check(np.allclose(z, keep / np.linalg.norm(keep, axis=1, keepdims=True), atol=1e-9), "normals_to_euler_angles: z-axis is the normal")
            check(np.allclose(geom.euler_angles_to_normals(ang), z, atol=1e-9), "round trip normals")
        check(np.array_equal(normals, keep), "normals untouched")


# --------------------------------------------------------------------------------------------------------------
# 1b. the helpers touched by change b, tied to the same ground truth
# --------------------------------------------------------------------------------------------------------------
def independent_number_of_cone_rotations(cone_angle, cone_sampling):
    """two poles + for every theta step strictly between the poles ceil(360 sin(theta) / sampling) + 1"""
    import math

    n_theta = round((cone_angle / 2) / cone_sampling)
    total = 2
    for k in range(1, n_theta + 1):
        theta = (cone_angle / 2) * k / n_theta
        if 0 < theta < 180:
            total += math.ceil(round(360.0 * math.sin(math.radians(theta)) / cone_sampling, 9)) + 1
    return total


CONE_CASES = [
    (360.0, 30.0), (360.0, 45.0), (360.0, 10.0), (180.0, 15.0), (90.0, 7.0), (60.0, 60.0), (30.0, 4.0), (10.0, 2.5),
    (45.0, 90.0),  # no theta step between the poles: the loop does not run at all
    (0.0, 10.0),  # empty cone
    (1.0, 5.0),  # rounds to zero steps
    (360, 20), (120, 13),  # integers
    (np.float64(200.0), np.float32(11.0)),
    (359.9, 17.3), (400.0, 25.0),  # theta beyond 180 is left out
]


def helper_property_checks():
    # quaternion logarithm of the relative rotation: |vector part| = angular distance / 2, scalar part = log 1 = 0
    for name, (a1, a2) in families().items():
        r1 = srot.from_euler("zxz", a1, degrees=True)
        r2 = srot.from_euler("zxz", a2, degrees=True)
        m1, m2 = matrices(a1), matrices(a2)
        q1 = np.array(r1.inv().as_quat(), ndmin=2)
        q2 = np.array(r2.as_quat(), ndmin=2)
        k1, k2 = q1.copy(), q2.copy()
        rel = geom.quaternion_mult(q1, q2)
        check(np.allclose(np.abs(np.sum(rel * np.array((r1.inv() * r2).as_quat(), ndmin=2), axis=1)), 1.0, atol=1e-12),
              f"{name}: quaternion_mult is the composition")
        rel_keep = rel.copy()
        logq = geom.quaternion_log(rel)
        check(logq.shape == (len(m1), 4), f"{name}: one logarithm per quaternion")
        half = np.degrees(np.linalg.norm(logq[:, :3], axis=1))
        truth = truth_angular(m1, m2)
        # q and -q are the same rotation: the logarithm gives angle/2 or 180 - angle/2
        check(np.allclose(np.minimum(half, 180.0 - half), truth / 2.0, atol=TOL), f"{name}: |log(q1^-1 q2)| = angle / 2")
        check(np.allclose(logq[:, 3], 0.0, atol=1e-12), f"{name}: log of a unit quaternion has no scalar part")
        check(np.array_equal(rel, rel_keep) and np.array_equal(q1, k1) and np.array_equal(q2, k2), f"{name}: quaternions untouched")

    # number of cone rotations, cone samples and the Euler angles generated from them
    for cone_angle, cone_sampling in CONE_CASES:
        n = geom.number_of_cone_rotations(cone_angle, cone_sampling)
        check(n == independent_number_of_cone_rotations(float(cone_angle), float(cone_sampling)),
              f"number_of_cone_rotations({cone_angle}, {cone_sampling}) = {n}")
        pts = geom.sample_cone(cone_angle, cone_sampling)
        check(pts.shape == (int(n), 3), f"sample_cone({cone_angle}, {cone_sampling}): one point per rotation")
        if cone_angle <= 360:
            check(np.allclose(np.linalg.norm(pts, axis=1), 1.0, atol=1e-9), "sample_cone: points on the unit sphere")
            ang = geom.normals_to_euler_angles(pts)
            check(np.allclose(matrices(ang)[:, :, 2], pts, atol=1e-9), "cone samples: z-axis of the Euler angles is the sample")
            check(np.allclose(geom.euler_angles_to_normals(ang), pts, atol=1e-9), "cone samples: round trip")
            gen = geom.generate_angles(cone_angle, cone_sampling, inplane_sampling=90.0)
            n_phi = len(gen) // len(pts)
            check(len(gen) == n_phi * len(pts), "generate_angles: every cone sample with every in-plane angle")
            check(np.allclose(matrices(gen)[::n_phi, :, 2], pts, atol=1e-9), "generate_angles: z-axes are the cone samples")
            # cone distance of every generated orientation to the pole is the polar angle of its sample
            pole = srot.from_euler("zxz", np.zeros((len(pts), 3)), degrees=True)
            cone = geom.cone_distance(srot.from_euler("zxz", gen[::n_phi], degrees=True), pole)
            check(np.allclose(cone, np.degrees(np.arctan2(np.hypot(pts[:, 0], pts[:, 1]), pts[:, 2])), atol=TOL),
                  "generate_angles: cone distance to the pole")


# --------------------------------------------------------------------------------------------------------------
# 2. tree (patched or clean) against the original text, bit for bit
# --------------------------------------------------------------------------------------------------------------
def quaternion_batches():
    out = {}
    q = rng.normal(size=(200, 4))
    out["random"] = q
    out["unit"] = q / np.linalg.norm(q, axis=1, keepdims=True)
    out["single"] = out["unit"][:1].copy()
    out["zeros"] = np.zeros((3, 4))
    out["real"] = np.array([[0, 0, 0, 1.0], [0, 0, 0, -1.0], [0, 0, 0, 2.5], [0, 0, 0, 1e-20]])
    out["real_int"] = np.array([[0, 0, 0, 1], [0, 0, 0, 3]])
    out["only_zero_int"] = np.zeros((2, 4), dtype=int)
    # groups: hits of all three branches in every order, a zero row after ordinary rows and so on
    mixed = np.vstack([out["unit"][:3], np.zeros((1, 4)), [[0, 0, 0, 1.0]], out["random"][:2], np.zeros((2, 4)), [[0, 0, 0, -4.0]], out["unit"][5:6]])
    out["mixed"] = mixed
    out["mixed_reversed"] = mixed[::-1]  # a view with negative strides
    out["tiny_vector"] = np.array([[1e-15, 0, 0, 1.0], [1e-13, 0, 0, 1.0], [0, 9e-14, 0, 1.0], [1e-14, 1e-14, 1e-14, 1e-14]])
    out["float32"] = out["unit"][:10].astype(np.float32)
    out["int"] = rng.integers(-3, 4, size=(30, 4))
    out["fortran"] = np.asfortranarray(out["unit"][:20])
    out["nan_inf"] = np.array([[np.nan, 0, 0, 1.0], [0, 0, 0, np.inf], [1.0, 2.0, 3.0, 4.0]])
    out["cube"] = srot.create_group("O").as_quat()
    out["batch500"] = rng.normal(size=(500, 4))
    out["empty"] = np.zeros((0, 4))
    out["wrong_rank"] = np.array([0.0, 0.0, 0.0, 1.0])
    out["wide"] = rng.normal(size=(4, 6))
    return out


def differential_checks():
    n_cmp = 0
    for name, q in quaternion_batches().items():
        keep = q.copy()
        for repeat in range(2):  # repeated calls on the same object
            with np.errstate(all="ignore"):
                new = call(geom.quaternion_log, q)
                old = call(ORIG["quaternion_log"], q)
            check(same(new[0], old[0]) and new[1] == old[1], f"quaternion_log differs on {name}")
            n_cmp += 1
        check(np.array_equal(q, keep, equal_nan=True), f"quaternion_log touched its input ({name})")

    grid = list(CONE_CASES)
    for _ in range(300):
        grid.append((float(rng.uniform(0, 400)), float(rng.uniform(0.5, 95))))
    for _ in range(60):
        grid.append((int(rng.integers(0, 361)), int(rng.integers(1, 91))))
    grid += [(360.0, 0.0), (360.0, np.float64(0.0)), (-90.0, 10.0), (90.0, -10.0), (np.nan, 10.0)]  # error / odd paths
    for cone_angle, cone_sampling in grid:
        with np.errstate(all="ignore"):
            new = call(geom.number_of_cone_rotations, cone_angle, cone_sampling)
            old = call(ORIG["number_of_cone_rotations"], cone_angle, cone_sampling)
        check(same(new[0], old[0]) and new[1] == old[1], f"number_of_cone_rotations differs on {(cone_angle, cone_sampling)}: {new[0]} / {old[0]}")
        n_cmp += 1

    for cone_angle, cone_sampling in CONE_CASES + grid[len(CONE_CASES):len(CONE_CASES) + 40]:
        for kwargs in ({}, {"center": np.array([3.0, -2.0, 7.5]), "radius": 12.0}, {"center": np.array([1, 2, 3]), "radius": 2}):
            ckeep = None if "center" not in kwargs else kwargs["center"].copy()
            new = call(geom.sample_cone, cone_angle, cone_sampling, **kwargs)
            old = call(ORIG["sample_cone"], cone_angle, cone_sampling, **kwargs)
            check(same(new[0], old[0]), f"sample_cone differs on {(cone_angle, cone_sampling, kwargs)}")
            n_cmp += 1
            if ckeep is not None:
                check(np.array_equal(kwargs["center"], ckeep), "sample_cone touched the center")
        if cone_angle <= 360:
            start = np.array([30.0, 40.0, 50.0])
            for kwargs in ({}, {"inplane_sampling": 60.0, "symmetry": 3.0}, {"starting_angles": start, "inplane_angle": 90.0},
                           {"angle_order": "zzx"}):
                np.random.seed(7)
                new = call(geom.generate_angles, cone_angle, cone_sampling, **kwargs)
                np.random.seed(7)
                old = call(ORIG["generate_angles"], cone_angle, cone_sampling, **kwargs)
                check(same(new[0], old[0]), f"generate_angles differs on {(cone_angle, cone_sampling, kwargs)}")
                n_cmp += 1
            check(np.array_equal(start, [30.0, 40.0, 50.0]), "generate_angles touched the starting angles")
    return n_cmp


if __name__ == "__main__":
    property_checks()
    helper_property_checks()
    n = differential_checks()
    if FAILS:
        print(f"FAIL ({len(FAILS)} checks)")
        sys.exit(1)
    print(f"PASS (property holds on all families; {n} bit-for-bit comparisons with the original text)")
