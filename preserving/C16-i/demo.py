import os
import sys

sys.path.insert(0, os.getcwd())

import contextlib
import io
import inspect
import tempfile
import textwrap
import warnings

import numpy as np
import pandas as pd
import mrcfile
import emfile

warnings.filterwarnings("ignore")

import cryocat
from cryocat import tiltstack, ioutils, cryomap

assert os.path.abspath(cryocat.__file__).startswith(os.getcwd()), cryocat.__file__

FAILS = []


def check(cond, msg):
    if not cond:
        FAILS.append(msg)
        if len(FAILS) < 30:
            print("FAIL:", msg)


def quiet(fn, *args, **kwargs):
    with contextlib.redirect_stdout(io.StringIO()):
        return fn(*args, **kwargs)


# ---------------------------------------------------------------- independent reference
A_, B_, C_ = 0.245, -1.665, 2.81


def q_grid(h, w, ps, dose):
    """Attenuation on the UNSHIFTED DFT grid, computed from fftfreq (independent of the code under test)."""
    fy = np.fft.fftfreq(h, d=ps)  # cycles per Angstrom
    fx = np.fft.fftfreq(w, d=ps)
    f = np.sqrt(fx[None, :] ** 2 + fy[:, None] ** 2)
    q = np.ones((h, w))
    nz = f > 0
    q[nz] = np.exp(-dose / (2.0 * (A_ * f[nz] ** B_ + C_)))
    return q


def ref_filter(stack_zyx, ps, doses):
    out = np.empty(stack_zyx.shape, dtype=float)
    for i in range(stack_zyx.shape[0]):
        h, w = stack_zyx.shape[1:]
        ft = np.fft.fft2(stack_zyx[i].astype(float))
        out[i] = np.fft.ifft2(ft * q_grid(h, w, ps, float(doses[i]))).real
    return out


def run(stack_zyx, ps, doses, order_in="zyx", order_out="zyx", output_file=None):
    """Call dose_filter on an array given in zyx, presenting it in the requested order; returns zyx."""
    arr = stack_zyx if order_in == "zyx" else np.ascontiguousarray(stack_zyx.transpose(2, 1, 0))
    keep = arr.copy()
    res = quiet(
        tiltstack.dose_filter, arr, ps, doses, output_file=output_file, input_order=order_in, output_order=order_out
    )
    check(np.array_equal(arr, keep, equal_nan=True), "input stack was modified")
    if order_out != "zyx":
        res = res.transpose(2, 1, 0)
    return res


def rand_case(rng, n=None):
    n = int(rng.integers(1, 11)) if n is None else n
    h = int(rng.integers(4, 65))
    w = int(rng.integers(4, 65))
    ps = float(rng.uniform(0.5, 10.0))
    doses = rng.uniform(0.0, 300.0, size=n)
    kind = rng.integers(0, 4)
    if kind == 0:
        doses = np.sort(doses)
    elif kind == 1:
        doses = np.sort(doses)[::-1].copy()
    if rng.random() < 0.3:
        doses[int(rng.integers(0, n))] = 0.0
    if rng.random() < 0.2:
        doses[int(rng.integers(0, n))] = 300.0
    stack = rng.normal(loc=rng.uniform(-5, 5), scale=rng.uniform(0.1, 20), size=(n, h, w))
    return stack, ps, doses


def property_suite(seed=12345, n_random=120):
    rng = np.random.default_rng(seed)
    sizes_seen = set()
    for it in range(n_random):
        stack, ps, doses = rand_case(rng)
        n, h, w = stack.shape
        sizes_seen.add((h % 2, w % 2))
        oi = ["zyx", "xyz"][int(rng.integers(0, 2))]
        oo = ["zyx", "xyz"][int(rng.integers(0, 2))]
        dose_arg = doses if rng.random() < 0.5 else [float(d) for d in doses]
        res = run(stack, ps, dose_arg, oi, oo)
        tag = f"case {it} n={n} h={h} w={w} ps={ps:.3f} {oi}->{oo}"
        check(res.shape == stack.shape, tag + " shape")
        check(res.dtype == stack.dtype, tag + " dtype")
        ref = ref_filter(stack, ps, doses)
        scale = np.abs(stack).max()
        check(np.allclose(res, ref, rtol=0, atol=1e-10 * scale), tag + " filtered stack differs from the formula")
        # every frequency component of every image
        for i in range(n):
            fin = np.fft.fft2(stack[i])
            fout = np.fft.fft2(res[i])
            q = q_grid(h, w, ps, doses[i])
            tol = 1e-10 * np.abs(fin).max()
            check(np.allclose(fout, fin * q, rtol=0, atol=tol), tag + f" image {i}: DFT != input DFT * q")
            check(abs(fout[0, 0] - fin[0, 0]) <= tol, tag + f" image {i}: zero frequency changed")
            check(abs(res[i].mean() - stack[i].mean()) <= 1e-10 * scale, tag + f" image {i}: mean changed")
            check(np.all(np.abs(fout) <= np.abs(fin) + tol), tag + f" image {i}: power increased")
        # repeated call on the same objects
        res2 = run(stack, ps, dose_arg, oi, oo)
        check(np.array_equal(res, res2), tag + " repeated call differs")

        if it % 4 == 0:
            # zero dose is the identity
            z = run(stack, ps, np.zeros(n), oi, oo)
            check(np.allclose(z, stack, rtol=0, atol=1e-11 * scale), tag + " zero dose not identity")
            # linearity
            other = rng.normal(size=stack.shape) * 3 + 1
            al, be = rng.uniform(-3, 3, size=2)
            lhs = run(al * stack + be * other, ps, doses, oi, oo)
            rhs = al * res + be * run(other, ps, doses, oi, oo)
            check(np.allclose(lhs, rhs, rtol=0, atol=1e-9 * (scale + 10)), tag + " not linear")
            # more dose attenuates more
            extra = rng.uniform(0, 300 - doses.max(), size=n) if doses.max() < 300 else np.zeros(n)
            more = run(stack, ps, doses + extra, oi, oo)
            for i in range(n):
                fa = np.abs(np.fft.fft2(res[i]))
                fb = np.abs(np.fft.fft2(more[i]))
                check(np.all(fb <= fa + 1e-10 * fa.max()), tag + f" image {i}: more dose attenuates less")
            # composition d1 then d2 == d1 + d2
            d1 = doses * rng.uniform(0, 1, size=n)
            d2 = doses - d1
            two = run(run(stack, ps, d1, oi, oo), ps, d2, oi, oo)
            check(np.allclose(two, res, rtol=0, atol=1e-9 * scale), tag + " d1 then d2 != d1+d2")
    check(len(sizes_seen) == 4, "not all even/odd combinations seen")

    # pure plane waves
    for it in range(60):
        n = int(rng.integers(1, 11))
        h = int(rng.integers(4, 65))
        w = int(rng.integers(4, 65))
        ps = float(rng.uniform(0.5, 10.0))
        doses = rng.uniform(0, 300, size=n)
        yy, xx = np.mgrid[0:h, 0:w]
        stack = np.empty((n, h, w))
        exp = np.empty((n, h, w))
        for i in range(n):
            kx = int(rng.integers(-(w // 2), (w - 1) // 2 + 1))
            ky = int(rng.integers(-(h // 2), (h - 1) // 2 + 1))
            if it == 0:
                kx, ky = 0, 0
            ph = rng.uniform(0, 2 * np.pi)
            amp = rng.uniform(0.5, 5)
            stack[i] = amp * np.cos(2 * np.pi * (kx * xx / w + ky * yy / h) + ph)
            f = np.sqrt((kx / (w * ps)) ** 2 + (ky / (h * ps)) ** 2)
            g = 1.0 if f == 0 else np.exp(-doses[i] / (2 * (0.245 * f**-1.665 + 2.81)))
            exp[i] = g * stack[i]
        oi = ["zyx", "xyz"][it % 2]
        res = run(stack, ps, doses, oi, "xyz")
        check(np.allclose(res, exp, rtol=0, atol=1e-10), f"plane wave case {it} h={h} w={w}")

    # edge sizes, float32 stacks, integer doses, constant images
    for h, w in [(4, 4), (4, 5), (5, 4), (5, 5), (64, 64), (63, 64), (64, 63), (4, 64), (64, 5)]:
        for n in (1, 2, 10):
            stack = rng.normal(size=(n, h, w)) + 2
            doses = rng.integers(0, 301, size=n)
            res = run(stack, 0.5 if n == 1 else 10.0, doses, "xyz", "zyx")
            check(np.allclose(res, ref_filter(stack, 0.5 if n == 1 else 10.0, doses), rtol=0, atol=1e-10), f"edge {h}x{w} n={n}")
            s32 = stack.astype(np.float32)
            res32 = run(s32, 1.7, doses, "zyx", "xyz")
            check(res32.dtype == np.float32, "float32 dtype kept")
            check(np.allclose(res32, ref_filter(s32, 1.7, doses), rtol=0, atol=2e-5), f"edge float32 {h}x{w} n={n}")
            const = np.full((n, h, w), -3.25)
            check(np.allclose(run(const, 2.0, doses), const, rtol=0, atol=1e-12), "constant image changed")


def file_suite(seed=777):
    """Stack and doses given as files; filtered stack written out."""
    rng = np.random.default_rng(seed)
    with tempfile.TemporaryDirectory() as td:
        for it in range(12):
            ext = ["mrc", "em", "st", "ali", "rec"][it % 5]
            stack, ps, doses = rand_case(rng, n=int(rng.integers(2, 11)))
            stack = stack.astype(np.float32)
            n, h, w = stack.shape
            path = os.path.join(td, f"stack_{it}.{ext}")
            if ext == "em":
                emfile.write(path, stack, overwrite=True)
            else:
                with mrcfile.new(path, overwrite=True) as m:
                    m.set_data(stack)
            dose_txt = os.path.join(td, f"dose_{it}.txt")
            np.savetxt(dose_txt, doses, fmt="%.6f")
            d32 = np.loadtxt(dose_txt, dtype=np.float32, ndmin=1)
            dose_csv = os.path.join(td, f"dose_{it}.csv")
            removed = rng.random(n + 3) < 0.0
            removed[[1, n + 1, n + 2]] = True
            full = np.zeros(n + 3)
            full[~removed] = doses
            full[removed] = 999.0
            pd.DataFrame({"CorrectedDose": full, "Removed": removed}).to_csv(dose_csv)
            out_path = os.path.join(td, f"out_{it}." + ("em" if ext == "em" else "mrc"))
            ref = ref_filter(stack, ps, d32)
            for dose_arg in (doses, dose_txt, dose_csv):
                res = quiet(
                    tiltstack.dose_filter, path, ps, dose_arg, output_file=out_path, input_order="xyz", output_order="zyx"
                )
                check(res.shape == stack.shape and res.dtype == np.float32, f"file case {it} shape/dtype")
                check(np.allclose(res, ref, rtol=0, atol=3e-4 * np.abs(stack).max()), f"file case {it} ({ext}) wrong")
                if ext == "em":
                    back = emfile.read(out_path)[1]
                else:
                    with mrcfile.open(out_path) as m:
                        back = np.array(m.data)
                check(np.array_equal(back, res), f"file case {it}: written stack differs from the returned one")
            # the file itself is left untouched
            if ext == "em":
                again = emfile.read(path)[1]
            else:
                with mrcfile.open(path) as m:
                    again = np.array(m.data)
            check(np.array_equal(again, stack), f"file case {it}: input file changed")


def finish():
    if FAILS:
        print(f"{len(FAILS)} check(s) failed")
        print("FAIL")
        sys.exit(1)
    print("PASS")
    sys.exit(0)


# ---------------------------------------------------------------- original constructor (copy of the text at HEAD)
ORIG_INIT = '''
def orig_init(self, tilt_stack, input_order="xyz", output_order="xyz"):

    if not isinstance(tilt_stack, np.ndarray):  # if loading necessary, load in zyx
        self.data = cryomap.read(tilt_stack, transpose=False)
        if self.data.shape == 2:
            self.data = np.expand_dims(
                self.data, axis=0
            )  # ensure that it will always have three dimensions, for z=1 mrc returns 2d array
    else:
        self.data = tilt_stack.copy()
        if self.data.shape == 2:
            if input_order == "xyz":
                self.data = np.expand_dims(self.data, axis=2)  # ensure that it will always have three dimensions
            else:
                self.data = np.expand_dims(self.data, axis=0)  # ensure that it will always have three dimensions

        if input_order == "xyz":
            self.data = self.data.transpose(2, 1, 0)

    self.data_type = self.data.dtype

    self.input_order = input_order
    self.current_order = "zyx"
    self.output_order = output_order

    self.n_tilts, self.height, self.width = self.data.shape
'''
exec(ORIG_INIT, tiltstack.__dict__)
CurTiltStack = tiltstack.TiltStack
OrigTiltStack = type("OrigTiltStack", (CurTiltStack,), {"__init__": tiltstack.orig_init})


def same_object_state(a, b, src, tag):
    check(set(vars(a)) == set(vars(b)), tag + f" attribute names {set(vars(a)) ^ set(vars(b))}")
    for k in ("data_type", "input_order", "current_order", "output_order", "n_tilts", "height", "width"):
        check(getattr(a, k) == getattr(b, k) and type(getattr(a, k)) is type(getattr(b, k)), tag + " attribute " + k)
    check(type(a.data) is type(b.data), tag + " data type")
    check(a.data.dtype == b.data.dtype and a.data.shape == b.data.shape, tag + " dtype/shape")
    check(a.data.strides == b.data.strides, tag + " memory layout")
    for fl in ("C_CONTIGUOUS", "F_CONTIGUOUS", "WRITEABLE", "OWNDATA", "ALIGNED"):
        check(a.data.flags[fl] == b.data.flags[fl], tag + " flag " + fl)
    check(np.array_equal(a.data, b.data, equal_nan=True), tag + " values")
    if isinstance(src, np.ndarray):
        check(not np.shares_memory(a.data, src) and not np.shares_memory(b.data, src), tag + " shares memory with input")
    for nd in (None, a.data * 2.5):
        x, y = a.correct_order(nd), b.correct_order(nd)
        check(x.shape == y.shape and x.dtype == y.dtype and x.strides == y.strides and np.array_equal(x, y), tag + " correct_order")


def outcome(fn, *a, **k):
    try:
        return ("ok", fn(*a, **k))
    except Exception as e:  # noqa
        return ("exc", type(e), str(e))


def helper_suite():
    rng = np.random.default_rng(99)
    for it in range(300):
        n, h, w = int(rng.integers(1, 11)), int(rng.integers(4, 65)), int(rng.integers(4, 65))
        base = rng.normal(size=(n, h, w)) * 10
        dt = [np.float64, np.float32, np.int16, np.uint8, np.float16][it % 5]
        base = base.astype(dt)
        forms = [
            base,
            np.asfortranarray(base),
            base.transpose(2, 1, 0),
            base[:, ::-1, :],
            base[:, 1:, :-1],
            np.broadcast_to(base[:1], base.shape),
        ]
        ro = base.copy()
        ro.setflags(write=False)
        forms.append(ro)
        for fi, arr in enumerate(forms):
            for oi in ("xyz", "zyx", "other"):
                for oo in ("xyz", "zyx"):
                    a, b = OrigTiltStack(arr, oi, oo), CurTiltStack(arr, oi, oo)
                    same_object_state(a, b, arr, f"array case {it}.{fi} {oi}->{oo}")
        # default arguments
        same_object_state(OrigTiltStack(base), CurTiltStack(base), base, f"array case {it} defaults")
    # impossible inputs fail in the same way
    for badv in (np.zeros((4, 5)), np.zeros(7), np.zeros((2, 3, 4, 5)), None, 3, [[1.0]], "nofile.txt", "missing.mrc"):
        for oi in ("xyz", "zyx"):
            o, c = outcome(OrigTiltStack, badv, oi), outcome(CurTiltStack, badv, oi)
            check(o[0] == "exc" and c[0] == "exc" and o[1:] == c[1:], f"bad input {badv!r}: {o} vs {c}")
    # files
    with tempfile.TemporaryDirectory() as td:
        for it in range(10):
            n, h, w = int(rng.integers(2, 11)), int(rng.integers(4, 65)), int(rng.integers(4, 65))
            stack = (rng.normal(size=(n, h, w)) * 7).astype([np.float32, np.int16][it % 2])
            ext = ["mrc", "em", "st", "ali", "rec"][it % 5]
            path = os.path.join(td, f"s{it}.{ext}")
            if ext == "em":
                emfile.write(path, stack, overwrite=True)
            else:
                with mrcfile.new(path, overwrite=True) as m:
                    m.set_data(stack)
            for oi in ("xyz", "zyx"):
                a, b = OrigTiltStack(path, oi, "zyx"), CurTiltStack(path, oi, "zyx")
                same_object_state(a, b, path, f"file case {it} {ext}")
                check(np.array_equal(b.data, stack), f"file case {it}: not the file's voxels")
                for t, nm in ((a, "o"), (b, "c")):
                    t.write_out(os.path.join(td, f"w{nm}{it}.mrc"))
                with mrcfile.open(os.path.join(td, f"wo{it}.mrc")) as m1, mrcfile.open(os.path.join(td, f"wc{it}.mrc")) as m2:
                    check(np.array_equal(m1.data, m2.data) and m1.data.dtype == m2.data.dtype, "written stacks differ")

        # dose_filter with the original constructor substituted: bit-identical output
        for it in range(40):
            stack, ps, doses = rand_case(rng)
            if it % 3 == 0:
                stack = stack.astype(np.float32)
            oi, oo = ["zyx", "xyz"][it % 2], ["zyx", "xyz"][(it // 2) % 2]
            cur = run(stack, ps, doses, oi, oo)
            tiltstack.TiltStack = OrigTiltStack
            try:
                old = run(stack, ps, doses, oi, oo)
            finally:
                tiltstack.TiltStack = CurTiltStack
            check(cur.dtype == old.dtype and cur.strides == old.strides and np.array_equal(cur, old), f"dose_filter differs {it}")


property_suite()
file_suite()
helper_suite()
finish()
