import os, sys

sys.path.insert(0, os.getcwd())

import contextlib, io, itertools, shutil, tempfile, textwrap, warnings
import numpy as np
import mrcfile

from cryocat import tiltstack, cryomap, ioutils

assert os.path.abspath(tiltstack.__file__).startswith(os.getcwd()), "run from the worktree"

FAILS = []
N_CHECKS = [0]
TMP = tempfile.mkdtemp(prefix="c15demo_")
ORDERS = ("xyz", "zyx")


def check(cond, msg):
    N_CHECKS[0] += 1
    if not cond:
        FAILS.append(msg)
        if len(FAILS) <= 20:
            print("FAIL:", msg)


def quiet(fn, *args, **kwargs):
    """call a cryoCAT function with its progress prints swallowed"""
    with contextlib.redirect_stdout(io.StringIO()):
        return fn(*args, **kwargs)


def same(a, b):
    a = np.asarray(a)
    b = np.asarray(b)
    if a.shape != b.shape or a.dtype != b.dtype:
        return False
    if a.dtype.kind in "fc":
        return bool(np.array_equal(a, b, equal_nan=True))
    return bool(np.array_equal(a, b))


def outcome(fn, *args, **kwargs):
    """('ok', value) or ('raise', exception type, message) -- for original-vs-patched comparisons"""
    try:
        with warnings.catch_warnings():
            warnings.simplefilter("ignore")
            return ("ok", quiet(fn, *args, **kwargs))
    except Exception as err:  # noqa: BLE001 - the type is what is compared
        return ("raise", type(err), str(err))


def same_outcome(o1, o2):
    if o1[0] != o2[0]:
        return False
    if o1[0] == "raise":
        return o1[1] is o2[1] and o1[2] == o2[2]
    v1, v2 = o1[1], o2[1]
    if isinstance(v1, tuple):
        return isinstance(v2, tuple) and len(v1) == len(v2) and all(same(x, y) for x, y in zip(v1, v2))
    return same(v1, v2)


def read_raw(path):
    """independent reader: the voxels of an MRC file exactly as stored (n, y, x)"""
    with mrcfile.open(path, permissive=True) as m:
        return np.array(m.data)


def make_stack(rng, n, h, w, dtype, integral=False):
    """canonical stack S[n, y, x]"""
    if dtype == np.int16:
        s = rng.integers(-3000, 3000, size=(n, h, w)).astype(np.int16)
        s[rng.random((n, h, w)) < 0.1] = 0
    else:
        if integral:
            s = rng.integers(-500, 500, size=(n, h, w)).astype(np.float32)
        else:
            s = (rng.standard_normal((n, h, w)) * 50).astype(np.float32)
        s[rng.random((n, h, w)) < 0.1] = 0.0
    return s


class Presenter:
    """hands the same canonical stack to the code as array (either axis order) or as MRC file"""

    def __init__(self, stack, tag):
        self.stack = stack
        self.tag = tag
        self.path = os.path.join(TMP, f"in_{tag}.mrc")
        mrcfile.write(self.path, stack, overwrite=True)

    def give(self, as_file, input_order):
        if as_file:
            return self.path
        if input_order == "xyz":
            return np.ascontiguousarray(self.stack.transpose(2, 1, 0))
        return self.stack.copy()


def to_canonical(result, output_order):
    return result.transpose(2, 1, 0) if output_order == "xyz" else result


def ref_bin(stack, b):
    """block means with zero padding up to a multiple of b, cast like the code casts (astype of the stack's dtype)"""
    n, h, w = stack.shape
    hp, wp = -(-h // b) * b, -(-w // b) * b
    padded = np.zeros((n, hp, wp), dtype=np.float64)
    padded[:, :h, :w] = stack
    out = np.zeros((n, hp // b, wp // b), dtype=np.float64)
    for i in range(hp // b):
        for j in range(wp // b):
            out[:, i, j] = padded[:, i * b : (i + 1) * b, j * b : (j + 1) * b].sum(axis=(1, 2)) / (b * b)
    return out


def angles_without_ties(rng, n, kind):
    if kind == 0:  # random order, mixed signs, contains an exact zero
        a = rng.permutation(np.arange(n) - n // 2) * 3.0
    elif kind == 1:  # already ascending
        a = np.sort(rng.uniform(-70, 70, n))
    elif kind == 2:  # descending
        a = np.sort(rng.uniform(-70, 70, n))[::-1].copy()
    elif kind == 3:  # dose-symmetric like 0, 3, -3, 6, -6 ...
        a = np.array([((i + 1) // 2) * 3.0 * (1 if i % 2 else -1) for i in range(n)])
    else:  # integer angles
        a = rng.permutation(np.arange(n) * 2 - n)
    assert len(np.unique(a)) == n
    return a


def property_run(seed, n, h, w, dtype, integral=False):
    """all operations of the property on one stack, over input_order x output_order x array/file x output file"""
    rng = np.random.default_rng(seed)
    S = make_stack(rng, n, h, w, dtype, integral)
    tag = f"{seed}_{n}_{h}_{w}_{np.dtype(dtype).name}"
    pres = Presenter(S, tag)
    angle_kind = seed % 5
    angles = angles_without_ties(rng, n, angle_kind)
    if seed % 3 == 0:
        tlt_in = os.path.join(TMP, f"a_{tag}.tlt")
        np.savetxt(tlt_in, np.asarray(angles, dtype=float), fmt="%.4f")
        angles_for_ref = np.loadtxt(tlt_in, dtype=np.float32, ndmin=1)
    elif seed % 3 == 1:
        tlt_in = list(angles)
        angles_for_ref = angles
    else:
        tlt_in = np.asarray(angles)
        angles_for_ref = angles
    assert len(set(np.asarray(angles_for_ref).tolist())) == n
    order_ref = sorted(range(n), key=lambda i: angles_for_ref[i])

    # index subsets: first, last, first+last, random, all but one, repeated entries, unsorted
    subsets = [[0], [n - 1], [0, n - 1], sorted(rng.choice(n, size=max(1, n // 3), replace=False).tolist())]
    subsets.append([i for i in range(n) if i != n // 2])
    subsets.append([n - 1, 0, n - 1])
    subset = subsets[seed % len(subsets)]

    b = [1, 2, 3, 4][seed % 4]
    nw = [None, w, 1, max(1, w - 1), max(1, w // 2), max(1, w - 3)][seed % 6]
    nh = [h, None, max(1, h // 2), 1, max(1, h - 1), max(1, h - 2)][seed % 6]
    flip_axes = [["x"], ["y"], ["z"], "x", ["x", "y"], ["z", "x", "y"]][seed % 6]

    results = {}
    for as_file, io_, oo, with_out in itertools.product((False, True), ORDERS, ORDERS, (False, True)):
        cfg = f"[{tag} file={as_file} in={io_} out={oo} write={with_out}]"
        kw = dict(input_order=io_, output_order=oo)

        def outp(name):
            return os.path.join(TMP, f"out_{name}.mrc") if with_out else None

        def verify(name, got, expected, approx=False):
            gc = to_canonical(got, oo)
            check(got.dtype == S.dtype, f"{name} dtype {got.dtype} {cfg}")
            if approx:
                check(gc.shape == expected.shape and np.allclose(gc, expected, rtol=1e-5, atol=1e-3), f"{name} values {cfg}")
            else:
                check(same(gc, expected), f"{name} returned array {cfg}")
            if with_out:
                stored = read_raw(outp(name))
                check(same(stored, gc), f"{name} written file differs from returned result {cfg}")
                os.remove(outp(name))
            key = name
            if key in results and approx:
                # float32 block sums depend on the memory layout in the last bit (x,y,n input is a transposed view)
                agree = results[key].shape == gc.shape and np.allclose(results[key], gc, rtol=1e-5, atol=1e-3)
                check(agree, f"{name} differs between presentations {cfg}")
            elif key in results:
                check(same(results[key], gc), f"{name} differs between presentations {cfg}")
            else:
                results[key] = np.array(gc)

        given = pres.give(as_file, io_)
        given_copy = None if as_file else given.copy()

        # sorting
        got = quiet(tiltstack.sort_tilts_by_angle, given, tlt_in, output_file=outp("sort"), **kw)
        verify("sort", got, S[order_ref])

        # removing, 0- and 1-based
        keep = [i for i in range(n) if i not in set(subset)]
        if keep:
            got = quiet(tiltstack.remove_tilts, given, list(subset), numbered_from_1=False, output_file=outp("rm0"), **kw)
            verify("rm0", got, S[keep])
            got = quiet(
                tiltstack.remove_tilts, given, np.asarray(subset) + 1, numbered_from_1=True, output_file=outp("rm1"), **kw
            )
            verify("rm1", got, S[keep])
            got = quiet(tiltstack.remove_tilts, given, [i + 1 for i in subset], output_file=outp("rm1d"), **kw)
            verify("rm1d", got, S[keep])

        # even / odd
        prefix = os.path.join(TMP, "out_eo") if with_out else None
        ev, od = quiet(tiltstack.split_stack_even_odd, given, output_file_prefix=prefix, **kw)
        evc, odc = to_canonical(ev, oo), to_canonical(od, oo)
        merged = np.empty_like(S)
        check(evc.shape[0] == (n + 1) // 2 and odc.shape[0] == n // 2, f"even/odd counts {cfg}")
        if evc.shape[0] == (n + 1) // 2 and odc.shape[0] == n // 2:
            merged[0::2] = evc
            merged[1::2] = odc
            check(same(merged, S), f"even/odd do not interleave back {cfg}")
        check(ev.dtype == S.dtype and od.dtype == S.dtype, f"even/odd dtype {cfg}")
        if with_out:
            check(same(read_raw(prefix + "_even.mrc"), evc), f"even file {cfg}")
            check(same(read_raw(prefix + "_odd.mrc"), odc), f"odd file {cfg}")
            os.remove(prefix + "_even.mrc")
            os.remove(prefix + "_odd.mrc")

        # flipping: concrete definition, twice = identity, each single axis
        got = quiet(tiltstack.flip_along_axes, given, flip_axes, output_file=outp("flip"), **kw)
        exp = S
        for a in flip_axes if isinstance(flip_axes, list) else [flip_axes]:
            exp = {"x": exp[:, ::-1, :], "y": exp[:, :, ::-1], "z": exp[::-1, :, :]}[a]
        verify("flip", got, exp)
        for a in ("x", "y", "z"):
            once = quiet(tiltstack.flip_along_axes, given, a, **kw)
            twice = quiet(tiltstack.flip_along_axes, np.ascontiguousarray(once), [a], input_order=oo, output_order=oo)
            check(same(to_canonical(twice, oo), S), f"flip {a} twice is not the identity {cfg}")
            both = quiet(tiltstack.flip_along_axes, given, [a, a], **kw)
            check(same(to_canonical(both, oo), S), f"flip [{a},{a}] is not the identity {cfg}")
            axis_np = {"x": 1, "y": 2, "z": 0}[a]
            check(same(to_canonical(once, oo), np.flip(S, axis=axis_np)), f"flip {a} {cfg}")

        # centred crop
        cw = w if nw is None else nw
        ch = h if nh is None else nh
        sw, sh = w // 2 - cw // 2, h // 2 - ch // 2
        got = quiet(tiltstack.crop, given, new_width=nw, new_height=nh, output_file=outp("crop"), **kw)
        verify("crop", got, S[:, sh : sh + ch, sw : sw + cw])

        # binning
        got = quiet(tiltstack.bin, given, b, output_file=outp("bin"), **kw)
        means = ref_bin(S, b)
        if S.dtype == np.int16 or integral:
            # sums of whole numbers are exact in any order, so the block mean is one well-defined double
            verify("bin", got, means.astype(S.dtype))
        else:
            verify("bin", got, means.astype(S.dtype), approx=True)

        # the caller's array is left alone
        if not as_file:
            check(same(given, given_copy), f"input array modified {cfg}")
    # the input file is left alone
    check(same(read_raw(pres.path), S), f"input file modified [{tag}]")
    os.remove(pres.path)


def property_suite():
    rng = np.random.default_rng(20240615)
    cases = [
        (2, 4, 5, np.float32),
        (2, 5, 4, np.int16),
        (3, 4, 40, np.int16),
        (3, 40, 4, np.float32),
        (25, 7, 6, np.int16),
        (25, 6, 9, np.float32),
        (5, 12, 9, np.int16),
        (6, 9, 12, np.float32),
        (4, 8, 6, np.int16),
        (7, 11, 10, np.float32),
    ]
    for _ in range(14):
        n = int(rng.integers(2, 26))
        h = int(rng.integers(4, 41))
        w = int(rng.integers(4, 41))
        if h == w:
            w = w + 1 if w < 40 else w - 1
        cases.append((n, h, w, [np.float32, np.int16][int(rng.integers(0, 2))]))
    for seed, (n, h, w, dt) in enumerate(cases):
        if n * h * w > 9000:  # keep the run short: shrink the number of tilts, not the image shape
            n = max(2, 9000 // (h * w))
        property_run(seed, n, h, w, dt, integral=(seed % 2 == 0))


def original(module, source):
    """the original function text, evaluated in a copy of the module's namespace"""
    ns = dict(vars(module))
    exec(textwrap.dedent(source), ns)
    return ns


def finish():
    shutil.rmtree(TMP, ignore_errors=True)
    if FAILS:
        print(f"FAIL ({len(FAILS)} of {N_CHECKS[0]} checks)")
        sys.exit(1)
    print(f"PASS ({N_CHECKS[0]} checks)")
    sys.exit(0)


# ---------------------------------------------------------------------------------------------------------------------
# change (c): emptiness tests in ioutils.tlt_load / ioutils.indices_load written as truth-value tests
# ---------------------------------------------------------------------------------------------------------------------
ORIGINAL_LOADERS = '''
def tlt_load(input_tlt, sort_angles=True):
    if isinstance(input_tlt, np.ndarray):
        if input_tlt.size == 0:
            raise ValueError(f"The input tilt data is empty!")
        else:
            return input_tlt
    elif isinstance(input_tlt, list):
        if len(input_tlt) == 0:
            raise ValueError(f"The input tilt data is empty")
        else:
            return np.asarray(input_tlt)
    elif isinstance(input_tlt, str):
        if input_tlt.endswith(".mdoc"):
            tilt_data = mdoc.Mdoc(input_tlt)
            tilts = tilt_data.get_image_feature("TiltAngle").values
        elif input_tlt.endswith(".xml"):
            tilts = get_data_from_warp_xml(input_tlt, "Angles", node_level=1)
        else:
            tilts = one_value_per_line_read(input_tlt)

        if sort_angles:
            tilts = np.sort(tilts)

        return tilts
    else:
        raise ValueError("Error: the dose has to be either ndarray or path to csv, mdoc, or tlt file!")


def indices_load(input_data, numbered_from_1=True):
    if isinstance(input_data, str):
        if input_data.endswith(".csv"):
            df = pd.read_csv(input_data)
            if "Removed" in df.columns:
                df = df[~df["Removed"]]
            # indices = df.index[df["ToBeRemoved"]].to_numpy(dtype=int)
            indices = df["ToBeRemoved"].to_numpy().nonzero()[0]
            numbered_from_1 = False  # Always from 0
        else:
            indices = np.loadtxt(input_data, dtype=int)

    elif isinstance(input_data, list) or isinstance(input_data, np.ndarray):
        indices = np.asarray(input_data)
        if len(indices) == 0:
            raise ValueError(f"Input indices can't be empty")
    else:
        raise ValueError(f"Input data must be either path to a valid file either list/array")

    if numbered_from_1:
        indices = indices - 1

    return indices
'''


class ListSubclass(list):
    pass


def compare_loaders_with_original():
    ns = original(ioutils, ORIGINAL_LOADERS)
    orig_tlt, orig_idx = ns["tlt_load"], ns["indices_load"]

    tlt_file = os.path.join(TMP, "c_angles.tlt")
    np.savetxt(tlt_file, np.array([3.0, 0.0, -3.0, 6.0, -6.0]), fmt="%.2f")
    tlt_zero = os.path.join(TMP, "c_zero.tlt")
    np.savetxt(tlt_zero, np.array([0.0]), fmt="%.2f")
    tlt_empty = os.path.join(TMP, "c_empty.tlt")
    open(tlt_empty, "w").close()
    idx_file = os.path.join(TMP, "c_idx.txt")
    np.savetxt(idx_file, np.array([1, 3, 4]), fmt="%d")
    idx_single = os.path.join(TMP, "c_idx_single.txt")
    np.savetxt(idx_single, np.array([1]), fmt="%d")
    idx_empty = os.path.join(TMP, "c_idx_empty.txt")
    open(idx_empty, "w").close()
    csv_file = os.path.join(TMP, "c_idx.csv")
    with open(csv_file, "w") as f:
        f.write("ToBeRemoved,Removed\nTrue,False\nFalse,False\nTrue,True\nTrue,False\n")
    csv_none = os.path.join(TMP, "c_idx_none.csv")
    with open(csv_none, "w") as f:
        f.write("ToBeRemoved\nFalse\nFalse\n")

    # the inputs this idiom is notorious for: containers that are not empty but hold only "false" values, containers
    # that are empty in one sense but not in another, and arrays (whose own truth value is ambiguous)
    values = [
        [],
        [0],
        [0.0],
        [-0.0],
        [0, 0, 0],
        [False],
        [None],
        [np.nan],
        [""],
        [[]],
        [[], []],
        [[0]],
        [1],
        [1, 2, 3],
        [3.0, 0.0, -3.0],
        [5, 1, 5],
        [-1],
        ListSubclass(),
        ListSubclass([0]),
        np.array([]),
        np.array([], dtype=int),
        np.array([0]),
        np.array([0.0]),
        np.array([0, 0]),
        np.array([False]),
        np.array([np.nan]),
        np.array([1, 2, 3]),
        np.array([2.5, -2.5, 0.0], dtype=np.float32),
        np.zeros((0, 3)),  # no rows
        np.zeros((3, 0)),  # three rows, no entries: len 3, size 0
        np.zeros((2, 2)),
        np.array(0),  # 0-d arrays: size 1, no len
        np.array(5),
        np.array(0.0),
        np.int64(0),  # numpy scalars and plain numbers are neither list nor ndarray
        0,
        0.0,
        1,
        None,
        (),
        (0,),
        (1, 2),
        {},
        set(),
        range(0),
        range(3),
        "",
        tlt_file,
        tlt_zero,
        tlt_empty,
        idx_file,
        idx_single,
        idx_empty,
        csv_file,
        csv_none,
        os.path.join(TMP, "c_missing.tlt"),
        os.path.join(TMP, "c_missing.csv"),
    ]

    def same_loader_outcome(o1, o2):
        if o1[0] != o2[0]:
            return False
        if o1[0] == "raise":
            return o1[1] is o2[1] and o1[2] == o2[2]
        v1, v2 = np.asarray(o1[1]), np.asarray(o2[1])
        if v1.shape != v2.shape or v1.dtype != v2.dtype:
            return False
        if v1.dtype == object:
            return v1.tolist() == v2.tolist() or repr(v1.tolist()) == repr(v2.tolist())
        return same(v1, v2)

    for v in values:
        for sort_angles in (True, False):
            o_new = outcome(ioutils.tlt_load, v, sort_angles=sort_angles)
            o_old = outcome(orig_tlt, v, sort_angles=sort_angles)
            check(same_loader_outcome(o_new, o_old), f"tlt_load({v!r}, sort_angles={sort_angles}): {o_new} / {o_old}")
            if isinstance(v, np.ndarray) and o_new[0] == "ok":
                check(o_new[1] is v, "an ndarray of tilts is handed back as it is")
        for from1 in (True, False):
            o_new = outcome(ioutils.indices_load, v, numbered_from_1=from1)
            o_old = outcome(orig_idx, v, numbered_from_1=from1)
            check(same_loader_outcome(o_new, o_old), f"indices_load({v!r}, numbered_from_1={from1}): {o_new} / {o_old}")
        o_new, o_old = outcome(ioutils.indices_load, v), outcome(orig_idx, v)
        check(same_loader_outcome(o_new, o_old), f"indices_load({v!r}): {o_new} / {o_old}")

    # expectations spelled out for the cases that matter to the property
    check(same(ioutils.tlt_load([0.0]), np.array([0.0])), "a single tilt at 0 degrees is not 'empty'")
    check(same(ioutils.tlt_load(np.array([0.0])), np.array([0.0])), "array with a single tilt at 0 degrees")
    check(same(ioutils.indices_load([0], numbered_from_1=False), np.array([0])), "index 0 (numbered from 0)")
    check(same(ioutils.indices_load([1]), np.array([0])), "index 1 (numbered from 1)")
    check(same(ioutils.indices_load(np.array([0, 0]), numbered_from_1=False), np.array([0, 0])), "indices 0, 0")
    for empty in ([], np.array([])):
        check(outcome(ioutils.tlt_load, empty)[:2] == ("raise", ValueError), "empty tilts are refused")
        check(outcome(ioutils.indices_load, empty)[:2] == ("raise", ValueError), "empty indices are refused")

    # through the tilt-stack functions: the first tilt removed by index 0 / 1, a stack whose angles include 0
    rng = np.random.default_rng(3)
    S = make_stack(rng, 4, 5, 6, np.int16)
    for io_, oo in itertools.product(ORDERS, ORDERS):
        given = S.transpose(2, 1, 0) if io_ == "xyz" else S
        got = quiet(tiltstack.remove_tilts, given, [0], numbered_from_1=False, input_order=io_, output_order=oo)
        check(same(to_canonical(got, oo), S[1:]), "remove index 0 (0-based)")
        got = quiet(tiltstack.remove_tilts, given, np.array([1]), input_order=io_, output_order=oo)
        check(same(to_canonical(got, oo), S[1:]), "remove index 1 (1-based)")
        got = quiet(tiltstack.sort_tilts_by_angle, given, [0.0, -3.0, 3.0, -6.0], input_order=io_, output_order=oo)
        check(same(to_canonical(got, oo), S[[3, 1, 0, 2]]), "sort with a 0 degree tilt first")
        got = quiet(tiltstack.sort_tilts_by_angle, given, np.array([0, 1, 2, 3]), input_order=io_, output_order=oo)
        check(same(to_canonical(got, oo), S), "sort of integer angles starting at 0")
        check(outcome(tiltstack.remove_tilts, given, [], input_order=io_, output_order=oo)[:2] == ("raise", ValueError), "rm []")
        check(outcome(tiltstack.sort_tilts_by_angle, given, [], input_order=io_)[:2] == ("raise", ValueError), "sort []")


property_suite()
compare_loaders_with_original()
finish()
