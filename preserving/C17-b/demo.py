import sys, os
sys.path.insert(0, os.getcwd())
import io, random, tempfile, shutil, warnings, contextlib
import numpy as np
import pandas as pd

warnings.simplefilter("ignore")
from cryocat import mdoc as mdoc_mod
from cryocat import ioutils, wedgeutils, starfileio
import emfile

FAILS = []


def check(cond, msg):
    if not cond:
        FAILS.append(msg)
        if len(FAILS) < 15:
            print("FAIL:", msg)


# ----------------------------------------------------------------------------------------------------------------
# generators
# ----------------------------------------------------------------------------------------------------------------
def fmt_num(rng, kind):
    """returns (text, expected parsed python value)"""
    if kind == "int":
        v = rng.randint(0, 99999)
        return str(v), v
    if kind == "float":
        a = rng.randint(0, 999)
        b = rng.randint(0, 9999)
        t = "%d.%d" % (a, b) if rng.random() < 0.8 else "%d.%04d" % (a, b)
        return t, float(t)
    if kind == "neg":
        t = "-%d.%d" % (rng.randint(0, 99), rng.randint(0, 999))
        return t, t  # negative numbers stay text
    if kind == "text":
        t = rng.choice(["12-Mar-21  10:22:33", "4096 4096", "X:\\frames\\ts_01_%03d.tif" % rng.randint(0, 99),
                        "1.5 -2.25", "abc", "1e5", "3.", ".5", "1.2.3", "0 0 0"])
        exp = t
        if t == "3.":
            exp = 3.0
        if t == ".5":
            exp = 0.5
        return t, exp
    raise ValueError(kind)


def gen_mdoc(rng, n_img=None, with_prior=True, section="ZValue", with_datetime=False):
    """returns (text, header dict, titles list, list of image dicts (expected parsed values))"""
    n_img = n_img or rng.randint(1, 80)
    header = {}
    lines = []
    for k in rng.sample(["PixelSpacing", "Voltage", "ImageFile", "ImageSize", "DataMode", "Extra"], rng.randint(1, 6)):
        t, e = fmt_num(rng, rng.choice(["int", "float", "neg", "text"]))
        header[k] = e
        lines.append("%s = %s" % (k, t))
        if rng.random() < 0.3:
            lines.append("")
    lines.append("")
    titles = []
    for i in range(rng.randint(0, 3)):
        t = "T = " + rng.choice(["SerialEM: Digitized on EMBL Krios", "    Tilt axis angle = 85.3, binning = 1  spot = 8  camera = 0",
                                 "note %d" % i])
        titles.append(t.strip())
        lines.append("[%s]" % t)
        lines.append("")
    # fields
    fields = ["TiltAngle", "ExposureDose"]
    if with_prior:
        fields.append("PriorRecordDose")
    extra = ["StagePosition", "Magnification", "Intensity", "SubFramePath", "Defocus", "PixelSpacing", "NumSubFrames"]
    fields += rng.sample(extra, rng.randint(0, len(extra)))
    if with_datetime:
        fields.append("DateTime")
    rng.shuffle(fields)
    kinds = {f: rng.choice(["int", "float", "neg", "text"]) for f in fields}
    kinds["ExposureDose"] = rng.choice(["int", "float"])
    if with_prior:
        kinds["PriorRecordDose"] = rng.choice(["int", "float"])
    zvals = list(range(n_img))
    if rng.random() < 0.3:
        rng.shuffle(zvals)
    imgs = []
    tie = rng.random() < 0.2
    for i in range(n_img):
        img = {section: zvals[i]}
        lines.append("[%s = %d]" % (section, zvals[i]))
        for f in fields:
            if f == "TiltAngle":
                v = round(rng.uniform(-70, 70), rng.choice([0, 1, 2, 4]))
                if tie and i % 3 == 0:
                    v = 3.0
                t = rng.choice(["%g", "%.4f", "%s"]) % v
                if t.endswith(".0") and rng.random() < 0.5:
                    t = t[:-2]
                img[f] = float(t)
                lines.append("%s = %s" % (f, t))
            elif f == "DateTime":
                t = "12-Mar-21  10:%02d:%02d" % (rng.randint(0, 59), i % 60)
                img[f] = t
                lines.append("%s = %s" % (f, t))
            else:
                t, e = fmt_num(rng, kinds[f])
                img[f] = e
                pad = rng.choice(["", " ", "  "])
                lines.append("%s%s =%s%s" % (f, pad, pad + " ", t))
        lines.append("")
        imgs.append(img)
    return "\n".join(lines) + "\n", header, titles, imgs, fields


def same_value(a, b):
    if isinstance(a, str) or isinstance(b, str):
        return type(a) == type(b) and a == b
    if isinstance(a, (bool, np.bool_)) or isinstance(b, (bool, np.bool_)):
        return bool(a) == bool(b)
    return float(a) == float(b) and (isinstance(a, (int, np.integer)) == isinstance(b, (int, np.integer)))


def frames_identical(a, b, what, index_type=True):
    ok = list(a.columns) == list(b.columns) and list(a.index) == list(b.index) and a.shape == b.shape
    check(ok, what + ": columns/index/shape differ")
    if not ok:
        return
    check(list(a.dtypes.astype(str)) == list(b.dtypes.astype(str)), what + ": dtypes differ %s vs %s" % (list(a.dtypes), list(b.dtypes)))
    check(not index_type or type(a.index) == type(b.index), what + ": index type differs")
    for c in a.columns:
        for x, y in zip(a[c].tolist(), b[c].tolist()):
            if not (same_value(x, y) or (x != x and y != y)):
                check(False, what + ": value differs in column %s: %r vs %r" % (c, x, y))
                return


def mdoc_identical(m1, m2, what):
    check(m1.titles == m2.titles, what + ": titles differ")
    check(list(m1.project_info.items()) == list(m2.project_info.items()) and
          [type(v) for v in m1.project_info.values()] == [type(v) for v in m2.project_info.values()], what + ": header differs")
    check(m1.section_id == m2.section_id, what + ": section id differs")
    frames_identical(m1.imgs, m2.imgs, what + ": imgs")


def parse_written(text, section):
    """independent minimal parser of a written mdoc: returns (header lines, title lines, list of (z, [(k, vtext)]))"""
    hdr, titles, secs = [], [], []
    cur = None
    for ln in text.split("\n"):
        if ln.startswith("[" + section + " = "):
            cur = (ln[len(section) + 4:-1], [])
            secs.append(cur)
        elif ln.startswith("["):
            titles.append(ln[1:-1])
        elif ln == "":
            continue
        elif cur is None:
            k, v = ln.split(" = ", 1)
            hdr.append((k, v))
        else:
            k, v = ln.split(" = ", 1)
            cur[1].append((k, v))
    return hdr, titles, secs


def check_mdoc_against_expected(m, header, titles, imgs, fields, section, what):
    check(m.section_id == section, what + ": section")
    check(m.titles == titles, what + ": titles %r vs %r" % (m.titles, titles))
    check(list(m.project_info.keys()) == list(header.keys()), what + ": header keys")
    for k in header:
        check(same_value(m.project_info[k], header[k]), what + ": header value %s: %r vs %r" % (k, m.project_info[k], header[k]))
    check(list(m.imgs.columns) == [section] + fields + ["Removed"], what + ": columns")
    check(list(m.imgs.index) == list(range(len(imgs))), what + ": index")
    check(not m.imgs["Removed"].any(), what + ": Removed flag initial")
    check(str(m.imgs["TiltAngle"].dtype) == "float64", what + ": TiltAngle dtype")
    for i, img in enumerate(imgs):
        for k, v in img.items():
            got = m.imgs[k].iloc[i]
            if not same_value(got, v):
                check(False, what + ": image %d field %s: %r vs %r" % (i, k, got, v))
                return


def write_files(d, name, text):
    p = os.path.join(d, name)
    with open(p, "w") as f:
        f.write(text)
    return p

# ----------------------------------------------------------------------------------------------------------------
# property checks (independent computations)
# ----------------------------------------------------------------------------------------------------------------
def prop_mdoc(rng, d, it):
    section = rng.choice(["ZValue", "FrameSet"]) if it % 4 == 0 else "ZValue"
    n_img = [1, 2, 80][it] if it < 3 else None
    text, header, titles, imgs, fields = gen_mdoc(rng, n_img=n_img, section=section)
    n = len(imgs)
    p = write_files(d, "in_%d.mdoc" % it, text)
    m = mdoc_mod.Mdoc(p)
    check_mdoc_against_expected(m, header, titles, imgs, fields, section, "mdoc read %d" % it)

    # round trip
    p2 = os.path.join(d, "rt_%d.mdoc" % it)
    m.write(p2)
    m2 = mdoc_mod.Mdoc(p2)
    mdoc_identical(m, m2, "mdoc roundtrip %d" % it)
    check_mdoc_against_expected(m2, header, titles, imgs, fields, section, "mdoc re-read %d" % it)
    # second generation text is a fixed point
    p3 = os.path.join(d, "rt2_%d.mdoc" % it)
    m2.write(p3)
    check(open(p2).read() == open(p3).read(), "mdoc written text is not a fixed point %d" % it)
    # overwrite protection
    try:
        m.write(p2)
        check(False, "mdoc write overwrote an existing file")
    except FileExistsError:
        pass
    m.write(p2, overwrite=True)
    check(open(p2).read() == open(p3).read(), "mdoc overwrite text %d" % it)

    # exact text of the written file against an independent serialisation
    hdr, ttl, secs = parse_written(open(p2).read(), section)
    check([k for k, _ in hdr] == list(header.keys()), "written header keys %d" % it)
    check([v for _, v in hdr] == [str(v) for v in header.values()], "written header values %d" % it)
    check(ttl == titles, "written titles %d" % it)
    check(len(secs) == n, "written sections %d" % it)
    for (z, kv), img in zip(secs, imgs):
        check(z == str(img[section]), "written z value")
        check([k for k, _ in kv] == fields, "written fields order")
        check([v for _, v in kv] == [str(img[f]) for f in fields], "written field values %r vs %r" % (kv, img))

    # sorting
    before = m.imgs.copy()
    if section == "ZValue":
        reset = rng.random() < 0.5
        ms = mdoc_mod.Mdoc(p)
        ms.sort_by_tilt(reset_z_value=reset)
        ta = ms.imgs["TiltAngle"].to_numpy()
        check(bool(np.all(np.diff(ta) >= 0)), "sort_by_tilt not ascending %d" % it)
        check(sorted(ms.imgs.index.tolist()) == list(range(n)), "sort_by_tilt is not a permutation %d" % it)
        cols = [c for c in before.columns if not (reset and c == "ZValue")]
        frames_identical(ms.imgs.sort_index()[cols], before[cols], "sort_by_tilt changed more than the order %d" % it, index_type=False)
        if reset:
            check(ms.imgs["ZValue"].tolist() == list(range(n)), "reset_z_value %d" % it)
        po = os.path.join(d, "sorted_%d.mdoc" % it)
        mf = mdoc_mod.sort_mdoc_by_tilt_angles(p, reset_z_value=reset, output_file=po)
        frames_identical(mf.imgs, ms.imgs, "sort_mdoc_by_tilt_angles %d" % it)
        _, _, ssecs = parse_written(open(po).read(), section)
        check([z for z, _ in ssecs] == [str(z) for z in ms.imgs["ZValue"].tolist()], "sorted written order %d" % it)
        tl = ioutils.tlt_load(po, sort_angles=False)
        check(np.array_equal(tl, ta), "tlt_load of sorted mdoc %d" % it)
        tfile = os.path.join(d, "tilts_%d.csv" % it)
        got = mdoc_mod.get_tilt_angles(p, output_file=tfile)
        check(np.array_equal(got, np.array([i["TiltAngle"] for i in imgs])), "get_tilt_angles %d" % it)
        check(np.allclose(np.loadtxt(tfile, ndmin=1), got), "get_tilt_angles file %d" % it)

    # removing images (positions are within the kept images)
    mr = mdoc_mod.Mdoc(p)
    if rng.random() < 0.5 and section == "ZValue":
        mr.sort_by_tilt()
    labels = mr.imgs.index.tolist()
    base = mr.imgs.copy()
    kept = list(labels)
    removed_labels = set()
    for call in range(rng.randint(1, 3)):
        if not kept:
            break
        k = rng.randint(0, min(len(kept), 6))
        pos = sorted(rng.sample(range(len(kept)), k))
        if rng.random() < 0.3:
            rng.shuffle(pos)
        current = list(kept)
        arg = pos if rng.random() < 0.5 else np.array(pos, dtype=int)
        mr.remove_images(arg)
        for q in pos:
            removed_labels.add(current[q])
        kept = [l for l in kept if l not in removed_labels]
        check(mr.kept_images().index.tolist() == kept, "kept_images after remove_images %d" % it)
        check(sorted(mr.removed_images().index.tolist()) == sorted(removed_labels), "removed_images %d" % it)
    cols = [c for c in base.columns if c != "Removed"]
    frames_identical(mr.imgs[cols], base[cols], "remove_images changed more than the flag %d" % it)
    check(mr.imgs["Removed"].tolist() == [l in removed_labels for l in labels], "Removed flags %d" % it)
    pr = os.path.join(d, "rem_%d.mdoc" % it)
    mr.write(pr)
    _, _, rsecs = parse_written(open(pr).read(), section)
    check([z for z, _ in rsecs] == [str(base.loc[l, section]) for l in kept], "written file omits exactly the removed %d" % it)
    for (z, kv), l in zip(rsecs, kept):
        check([v for _, v in kv] == [str(base.loc[l, f]) for f in fields], "written kept image values %d" % it)
    check("Removed" not in open(pr).read(), "Removed flag leaked into file")
    pa = os.path.join(d, "remall_%d.mdoc" % it)
    mr.write(pa, removed=True)
    _, _, asecs = parse_written(open(pa).read(), section)
    check([z for z, _ in asecs] == [str(base.loc[l, section]) for l in labels], "write(removed=True) keeps everything %d" % it)
    if kept:
        mk = mdoc_mod.Mdoc(pr)
        check(mk.imgs[section].tolist() == [base.loc[l, section] for l in kept], "re-read after removal %d" % it)
        check(not mk.imgs["Removed"].any(), "re-read after removal flags %d" % it)
    # module-level function, 1-based file / list input
    k = rng.randint(1, min(n, 5))
    pos1 = sorted(rng.sample(range(1, n + 1), k))
    if rng.random() < 0.5:
        arg = pos1
    else:
        arg = write_files(d, "idx_%d.txt" % it, "\n".join(str(x) for x in pos1) + "\n")
        if k == 1:
            arg = pos1  # np.loadtxt gives a 0-d array for one line: outside the supported input
    pm = os.path.join(d, "remf_%d.mdoc" % it)
    mm = mdoc_mod.remove_images(p, arg, numbered_from_1=True, output_file=pm)
    check(mm.imgs["Removed"].tolist() == [(i + 1) in pos1 for i in range(n)], "remove_images() flags %d" % it)
    _, _, fsecs = parse_written(open(pm).read(), section)
    check([z for z, _ in fsecs] == [str(imgs[i][section]) for i in range(n) if (i + 1) not in pos1], "remove_images() file %d" % it)

    # dose from the mdoc
    if "PriorRecordDose" in fields and section == "ZValue":
        exp_unsorted = np.array([float(i["ExposureDose"]) + float(i["PriorRecordDose"]) for i in imgs])
        got = ioutils.total_dose_load(p, sort_mdoc=False)
        check(np.allclose(np.asarray(got, dtype=float), exp_unsorted, rtol=1e-12, atol=0), "mdoc dose unsorted %d" % it)
        got = np.asarray(ioutils.total_dose_load(p), dtype=float)
        tilts = np.array([i["TiltAngle"] for i in imgs])
        # ties in the tilt angle leave the order inside a tie unspecified: compare as multiset per tilt value
        srt = np.sort(tilts)
        ok = len(got) == n
        for tv in np.unique(tilts):
            ok = ok and np.allclose(np.sort(got[srt == tv]), np.sort(exp_unsorted[tilts == tv]), rtol=1e-12, atol=0)
        check(ok, "mdoc dose sorted %d" % it)
        tl = ioutils.tlt_load(p)
        check(np.array_equal(tl, srt), "tlt_load(mdoc) %d" % it)
        check(np.array_equal(ioutils.tlt_load(p, sort_angles=False), tilts), "tlt_load(mdoc, unsorted) %d" % it)


def num_text(rng, v):
    return rng.choice(["%.6f", "%.2f", "%.4f", "%r"]) % v


def gen_tilts(rng, n):
    lo = rng.uniform(-70, -40)
    step = rng.choice([1.0, 2.0, 3.0, 1.5])
    tilts = [round(lo + i * step + (rng.uniform(-0.2, 0.2) if rng.random() < 0.5 else 0), 2) for i in range(n)]
    tilts = sorted(tilts)
    return tilts


def gen_gctf(rng, n, phase):
    u = [round(rng.uniform(5000, 60000), 6) for _ in range(n)]
    v = [round(rng.uniform(5000, 60000), 6) for _ in range(n)]
    a = [round(rng.uniform(-90, 90), 6) for _ in range(n)]
    ph = [round(rng.uniform(0, 3), 6) for _ in range(n)]
    if rng.random() < 0.3:
        u = [float(int(x)) for x in u]
    cols = ["rlnMicrographName", "rlnCtfImage", "rlnDefocusU", "rlnDefocusV", "rlnDefocusAngle", "rlnVoltage"]
    if phase:
        cols.insert(rng.choice([2, 5, 6]), "rlnPhaseShift")
    if rng.random() < 0.5:
        cols.append("rlnFinalResolution")
    lines = ["data_", "", "loop_"] + ["_%s #%d" % (c, i + 1) for i, c in enumerate(cols)]
    for i in range(n):
        vals = {"rlnMicrographName": "split.mrc.%02d" % (i + 1), "rlnCtfImage": "split.mrc.%02d.ctf:mrc" % (i + 1),
                "rlnDefocusU": "%.6f" % u[i], "rlnDefocusV": "%.6f" % v[i], "rlnDefocusAngle": "%12.6f" % a[i],
                "rlnVoltage": "300.000000", "rlnPhaseShift": "%.6f" % ph[i], "rlnFinalResolution": "%.6f" % rng.uniform(4, 20)}
        lines.append(" ".join(vals[c] for c in cols))
    return "\n".join(lines) + "\n", u, v, a, (ph if phase else [0.0] * n)


def gen_ctffind4(rng, n):
    u = [round(rng.uniform(5000, 60000), 6) for _ in range(n)]
    v = [round(rng.uniform(5000, 60000), 6) for _ in range(n)]
    a = [round(rng.uniform(-90, 90), 6) for _ in range(n)]
    ph = [round(rng.uniform(0, 3), 6) if rng.random() < 0.5 else 0.0 for _ in range(n)]
    lines = ["# Output from CTFFind version 4.1.8, run on 2019-02-25 11:33:34", "# Input file: 031.mrc ; Number of micrographs: %d" % n,
             "# Pixel size: 1.327 Angstroms", "# Box size: 512 pixels", "# Columns: #1 - micrograph number; #2 - defocus 1"][: rng.randint(0, 5)]
    for i in range(n):
        lines.append("%.6f %.6f %.6f %.6f %.6f %.6f %.6f" % (i + 1, u[i], v[i], a[i], ph[i], rng.uniform(0, 0.1), rng.uniform(4, 20)))
    return "\n".join(lines) + "\n", u, v, a, ph


def check_defocus(df, u, v, a, ph, single, what):
    n = len(u)
    check(list(df.columns) == ["defocus1", "defocus2", "astigmatism", "phase_shift", "defocus_mean"], what + ": columns %s" % list(df.columns))
    check(list(df.index) == list(range(n)), what + ": index")
    if list(df.columns) != ["defocus1", "defocus2", "astigmatism", "phase_shift", "defocus_mean"] or len(df) != n:
        return
    rt = 2e-6 if single else 1e-12
    U = np.array(u) * 1e-4
    V = np.array(v) * 1e-4
    check(np.allclose(df["defocus1"].to_numpy(dtype=float), U, rtol=rt, atol=0), what + ": defocus1")
    check(np.allclose(df["defocus2"].to_numpy(dtype=float), V, rtol=rt, atol=0), what + ": defocus2")
    check(np.allclose(df["astigmatism"].to_numpy(dtype=float), np.array(a), rtol=rt, atol=1e-9), what + ": astigmatism")
    check(np.allclose(df["phase_shift"].to_numpy(dtype=float), np.array(ph), rtol=rt, atol=1e-9), what + ": phase_shift")
    check(np.allclose(df["defocus_mean"].to_numpy(dtype=float), (U + V) / 2.0, rtol=rt, atol=0), what + ": defocus_mean")
    want = "float32" if single else "float64"
    check(all(str(t) == want for t in df.dtypes), what + ": dtypes %s" % list(df.dtypes))


def prop_loaders(rng, d, it):
    n = [1, 2, 80][it] if it < 3 else rng.randint(1, 80)
    tilts = gen_tilts(rng, n)
    ext = rng.choice([".tlt", ".rawtlt", ".txt", ".dat"])
    pt = write_files(d, "t_%d%s" % (it, ext), "\n".join(num_text(rng, t) for t in tilts) + "\n")
    got = ioutils.tlt_load(pt)
    check(isinstance(got, np.ndarray) and got.shape == (n,), "tlt_load shape %d" % it)
    check(np.allclose(got, np.array(tilts), rtol=1e-6, atol=1e-6), "tlt_load values %d" % it)
    check(bool(np.all(np.diff(got) >= 0)), "tlt_load ascending %d" % it)
    # descending file gets sorted; unsorted read keeps file order
    pt2 = write_files(d, "tr_%d%s" % (it, ext), "\n".join("%.4f" % t for t in tilts[::-1]) + "\n")
    check(np.allclose(ioutils.tlt_load(pt2), np.array(tilts), rtol=1e-6, atol=1e-6), "tlt_load sorts %d" % it)
    check(np.allclose(ioutils.tlt_load(pt2, sort_angles=False), np.array(tilts[::-1]), rtol=1e-6, atol=1e-6), "tlt_load unsorted %d" % it)
    arr = np.array(tilts)
    check(ioutils.tlt_load(arr) is arr, "tlt_load array passthrough")
    check(np.array_equal(ioutils.tlt_load(list(tilts)), arr), "tlt_load list")

    dose = [round(rng.uniform(0, 150), 2) for _ in range(n)]
    pd_ = write_files(d, "dose_%d.txt" % it, "\n".join(num_text(rng, x) for x in dose) + "\n")
    got = ioutils.total_dose_load(pd_)
    check(got.shape == (n,) and np.allclose(got, np.array(dose), rtol=1e-6, atol=1e-6), "total_dose_load txt %d" % it)
    darr = np.array(dose)
    check(ioutils.total_dose_load(darr) is darr, "dose array passthrough")
    check(np.array_equal(ioutils.total_dose_load(list(dose)), darr), "dose list")
    got = ioutils.one_value_per_line_read(pd_, data_type=np.float64)
    check(got.dtype == np.float64 and np.allclose(got, darr, rtol=1e-12, atol=0), "one_value_per_line_read float64")

    phase = rng.random() < 0.5
    text, u, v, a, ph = gen_gctf(rng, n, phase)
    pg = write_files(d, "g_%d.star" % it, text)
    check_defocus(ioutils.gctf_read(pg), u, v, a, ph, False, "gctf_read %d" % it)
    check_defocus(ioutils.defocus_load(pg), u, v, a, ph, False, "defocus_load gctf %d" % it)
    check_defocus(ioutils.defocus_load(pg, rng.choice(["GCTF", "Gctf", "gctf"])), u, v, a, ph, False, "defocus_load GCTF %d" % it)
    text, u4, v4, a4, ph4 = gen_ctffind4(rng, n)
    pc = write_files(d, "c_%d.txt" % it, text)
    check_defocus(ioutils.ctffind4_read(pc), u4, v4, a4, ph4, True, "ctffind4_read %d" % it)
    check_defocus(ioutils.defocus_load(pc, rng.choice(["ctffind4", "CTFFIND4"])), u4, v4, a4, ph4, True, "defocus_load ctffind4 %d" % it)
    # repeated call gives the same answer, array / frame inputs
    df1 = ioutils.gctf_read(pg)
    df2 = ioutils.gctf_read(pg)
    frames_identical(df1, df2, "gctf_read repeat")
    check(ioutils.defocus_load(df1) is df1, "defocus_load frame passthrough")
    frames_identical(ioutils.defocus_load(df1.to_numpy()), df1, "defocus_load array")
    try:
        ioutils.defocus_load(pg, "unknown")
        check(False, "defocus_load accepted unknown type")
    except ValueError:
        pass
    return dict(n=n, tilts=tilts, dose=dose, gctf=(pg, u, v), ctffind4=(pc, u4, v4), tlt=pt, dosefile=pd_)


SG_COLS = ["tomo_num", "pixelsize", "tomo_x", "tomo_y", "tomo_z", "z_shift", "tilt_angle", "defocus", "exposure",
           "voltage", "amp_contrast", "cs"]


def prop_wedge(rng, d, it):
    wd = os.path.join(d, "w%d" % it)
    os.makedirs(wd)
    n_tomo = [1, 5][it] if it < 2 else rng.randint(1, 5)
    tomos = sorted(rng.sample(range(1, 999), n_tomo))
    if rng.random() < 0.3:
        rng.shuffle(tomos)
    nested = rng.random() < 0.5
    ctf_type = rng.choice([None, "gctf", "ctffind4"])
    with_dose = rng.random() < 0.6
    pixel = round(rng.uniform(0.5, 12), 3)
    volt, amp, cs = rng.choice([(300.0, 0.07, 2.7), (200.0, 0.1, 2.0), (300, 0.08, 0.001)])
    data = {}
    for t in tomos:
        n = rng.randint(1, 80)
        base = os.path.join(wd, "TS_%03d" % t) if nested else wd
        os.makedirs(base, exist_ok=True)
        tilts = gen_tilts(rng, n)
        write_files(base, "%03d.tlt" % t, "\n".join("%.2f" % x for x in tilts) + "\n")
        rec = dict(n=n, tilts=tilts, dims=[rng.randint(100, 4096), rng.randint(100, 4096), rng.randint(50, 2000)],
                   zs=rng.choice([0.0, round(rng.uniform(-200, 200), 1), float(rng.randint(-50, 50))]))
        if ctf_type == "gctf":
            text, u, v, _, _ = gen_gctf(rng, n, rng.random() < 0.5)
            write_files(base, "%03d_gctf.star" % t, text)
            rec["def"] = (np.array(u) * 1e-4 + np.array(v) * 1e-4) / 2
        elif ctf_type == "ctffind4":
            text, u, v, _, _ = gen_ctffind4(rng, n)
            write_files(base, "%03d_ctffind4.txt" % t, text)
            rec["def"] = (np.array(u) * 1e-4 + np.array(v) * 1e-4) / 2
        if with_dose:
            rec["dose"] = [round(rng.uniform(0, 150), 2) for _ in range(n)]
            write_files(base, "%03d_dose.txt" % t, "\n".join("%.2f" % x for x in rec["dose"]) + "\n")
        write_files(base, "%03d_dim.txt" % t, "%d %d %d\n" % tuple(rec["dims"]))
        write_files(base, "%03d_zs.txt" % t, "%s\n" % rec["zs"])
        data[t] = rec
    pre = os.path.join(wd, "TS_$xxx/") if nested else wd + "/"
    tlt_fmt = pre + "$xxx.tlt"
    ctf_fmt = None if ctf_type is None else pre + ("$xxx_gctf.star" if ctf_type == "gctf" else "$xxx_ctffind4.txt")
    dose_fmt = pre + "$xxx_dose.txt" if with_dose else None

    dim_mode = rng.choice(["array4", "file", "single"])
    zs_mode = rng.choice(["array2", "file", "scalar"])
    kw = {}
    if dim_mode == "array4":
        kw["tomo_dim"] = np.array([[t] + data[t]["dims"] for t in tomos])
    elif dim_mode == "file":
        kw["tomo_dim_file_format"] = pre + "$xxx_dim.txt"
    else:
        for t in tomos:
            data[t]["dims"] = data[tomos[0]]["dims"]
        kw["tomo_dim"] = rng.choice([list(data[tomos[0]]["dims"]), np.array(data[tomos[0]]["dims"])])
    if zs_mode == "array2":
        kw["z_shift"] = np.array([[t, data[t]["zs"]] for t in tomos])
    elif zs_mode == "file":
        kw["z_shift_file_format"] = pre + "$xxx_zs.txt"
    else:
        z = rng.choice([0.0, 12.5, -30.0, 7.0])
        for t in tomos:
            data[t]["zs"] = z
        kw["z_shift"] = z
    tomo_in = rng.choice(["array", "list", "file"])
    if tomo_in == "file" and tomos == sorted(tomos):
        tomo_arg = write_files(wd, "tomo_list.txt", "\n".join(str(t) for t in tomos) + "\n")
    elif tomo_in == "list":
        tomo_arg = list(tomos)
    else:
        tomo_arg = np.array(tomos)
    out = os.path.join(wd, "wl.star")
    wl = wedgeutils.create_wedge_list_sg_batch(tomo_arg, pixel, tlt_fmt, ctf_file_format=ctf_fmt, ctf_file_type=ctf_type or "gctf",
                                               dose_file_format=dose_fmt, voltage=volt, amp_contrast=amp, cs=cs, output_file=out, **kw)
    exp_cols = [c for c in SG_COLS if not (c == "defocus" and ctf_type is None) and not (c == "exposure" and not with_dose)]
    what = "sg_batch %d (%s,%s,%s,%s)" % (it, ctf_type, with_dose, dim_mode, zs_mode)
    check(list(wl.columns) == exp_cols, what + ": columns %s" % list(wl.columns))
    total = sum(data[t]["n"] for t in tomos)
    check(list(wl.index) == list(range(total)), what + ": index")
    exp = {c: [] for c in SG_COLS}
    for t in tomos:
        r = data[t]
        for i in range(r["n"]):
            exp["tomo_num"].append(t); exp["pixelsize"].append(pixel)
            exp["tomo_x"].append(r["dims"][0]); exp["tomo_y"].append(r["dims"][1]); exp["tomo_z"].append(r["dims"][2])
            exp["z_shift"].append(r["zs"]); exp["tilt_angle"].append(r["tilts"][i])
            exp["defocus"].append(r["def"][i] if "def" in r else np.nan)
            exp["exposure"].append(r["dose"][i] if "dose" in r else np.nan)
            exp["voltage"].append(volt); exp["amp_contrast"].append(amp); exp["cs"].append(cs)
    if list(wl.columns) == exp_cols and len(wl) == total:
        for c in exp_cols:
            rt = 2e-6 if c in ("tilt_angle", "defocus", "exposure") else 1e-12
            check(np.allclose(wl[c].to_numpy(dtype=float), np.array(exp[c], dtype=float), rtol=rt, atol=1e-7 if rt > 1e-9 else 0),
                  what + ": column %s" % c)
    # the written star file holds the same table
    back = starfileio.Starfile.read(out)[0][0]
    check(list(back.columns) == exp_cols and len(back) == total, what + ": star columns")
    if list(back.columns) == exp_cols and len(back) == total:
        for c in exp_cols:
            check(np.allclose(back[c].to_numpy(dtype=float), wl[c].to_numpy(dtype=float), rtol=1e-5, atol=1e-5), what + ": star column %s" % c)

    # single-tomogram function equals the block of the batch table
    t = rng.choice(tomos)
    r = data[t]
    base = os.path.join(wd, "TS_%03d" % t) if nested else wd
    single_kw = {}
    mode = rng.choice(["files", "arrays"])
    if mode == "files":
        tl_arg = os.path.join(base, "%03d.tlt" % t)
        ctf_arg = None if ctf_type is None else os.path.join(base, "%03d_%s" % (t, "gctf.star" if ctf_type == "gctf" else "ctffind4.txt"))
        dose_arg = os.path.join(base, "%03d_dose.txt" % t) if with_dose else None
        dim_arg = os.path.join(base, "%03d_dim.txt" % t) if dim_mode == "file" else list(r["dims"])
        zs_arg = os.path.join(base, "%03d_zs.txt" % t) if zs_mode == "file" else r["zs"]
    else:
        tl_arg = np.array(r["tilts"], dtype=np.float32)
        ctf_arg = None
        if ctf_type is not None:
            ctf_arg = np.zeros((r["n"], 5))
            ctf_arg[:, 4] = r["def"]
            if rng.random() < 0.5:
                ctf_arg = pd.DataFrame(ctf_arg, columns=["defocus1", "defocus2", "astigmatism", "phase_shift", "defocus_mean"])
        dose_arg = np.array(r["dose"]) if with_dose else None
        dim_arg = np.array(r["dims"])
        zs_arg = rng.choice([r["zs"], [r["zs"]], np.array([r["zs"]])])
    outs = os.path.join(wd, "wl_single.star")
    ws = wedgeutils.create_wedge_list_sg(t, dim_arg, pixel, tl_arg, z_shift=zs_arg, ctf_file=ctf_arg, ctf_file_type=ctf_type or "gctf",
                                         dose_file=dose_arg, voltage=volt, amp_contrast=amp, cs=cs, output_file=outs)
    blk = wl[wl["tomo_num"] == t].reset_index(drop=True)
    what = "sg single %d (%s)" % (it, mode)
    check(list(ws.columns) == exp_cols, what + ": columns")
    check(list(ws.index) == list(range(r["n"])), what + ": index")
    if list(ws.columns) == exp_cols and len(ws) == r["n"]:
        for c in exp_cols:
            check(np.allclose(ws[c].to_numpy(dtype=float), blk[c].to_numpy(dtype=float), rtol=2e-6, atol=1e-7), what + ": column %s" % c)
    check(len(starfileio.Starfile.read(outs)[0][0]) == r["n"], what + ": star file rows")

    # EM wedge list
    oute = os.path.join(wd, "wl.em")
    we = wedgeutils.create_wedge_list_em_batch(tomo_arg, tlt_fmt, output_file=oute)
    check(list(we.columns) == ["tomo_num", "min_angle", "max_angle"], "em_batch columns")
    check(list(we.index) == list(range(n_tomo)), "em_batch index")
    check(we["tomo_num"].tolist() == tomos, "em_batch tomo_num")
    check(np.allclose(we["min_angle"].to_numpy(dtype=float), [min(data[t]["tilts"]) for t in tomos], rtol=1e-6, atol=1e-6), "em_batch min")
    check(np.allclose(we["max_angle"].to_numpy(dtype=float), [max(data[t]["tilts"]) for t in tomos], rtol=1e-6, atol=1e-6), "em_batch max")
    lem = emfile.read(oute)[1]
    check(lem.shape == (1, n_tomo, 3) and lem.dtype == np.float32 and
          np.array_equal(lem[0], we.to_numpy().astype(np.single)), "em file content")
    oute2 = os.path.join(wd, "wl2.em")
    w2 = wedgeutils.wedge_list_sg_to_em(out, oute2)
    order = sorted(tomos)
    check(list(w2.columns) == ["tomo_id", "min_tilt_angle", "max_tilt_angle"], "sg_to_em columns")
    check(w2["tomo_id"].tolist() == order, "sg_to_em ids")
    check(np.allclose(w2["min_tilt_angle"].to_numpy(dtype=float), [min(data[t]["tilts"]) for t in order], rtol=1e-5, atol=1e-5), "sg_to_em min")
    check(np.allclose(w2["max_tilt_angle"].to_numpy(dtype=float), [max(data[t]["tilts"]) for t in order], rtol=1e-5, atol=1e-5), "sg_to_em max")
    lem2 = emfile.read(oute2)[1]
    check(lem2.shape == (1, n_tomo, 3) and lem2.dtype == np.float32 and
          np.array_equal(lem2[0], w2.to_numpy().astype(np.single)), "sg_to_em file")
    oute3 = os.path.join(wd, "wl3.em")
    w3 = wedgeutils.wedge_list_sg_to_em(wl, oute3, write_out=False)
    check(not os.path.exists(oute3), "sg_to_em wrote although write_out=False")
    frames_identical(w3, wedgeutils.wedge_list_sg_to_em(wl.copy(), oute3, write_out=False), "sg_to_em repeat")
    return dict(tomo_arg=tomo_arg, pixel=pixel, tlt_fmt=tlt_fmt, ctf_fmt=ctf_fmt, ctf_type=ctf_type or "gctf", dose_fmt=dose_fmt,
                volt=volt, amp=amp, cs=cs, kw=kw, wd=wd, wl=wl, we=we, out=out, single=(t, dim_arg, pixel, tl_arg, zs_arg, ctf_arg, dose_arg))


def run_all(seed, n_mdoc=40, n_load=30, n_wedge=30, extra=None):
    rng = random.Random(seed)
    d = tempfile.mkdtemp(prefix="c17demo_")
    try:
        with contextlib.redirect_stdout(io.StringIO()):
            for it in range(n_mdoc):
                prop_mdoc(rng, d, it)
            loads = [prop_loaders(rng, d, it) for it in range(n_load)]
            wedges = [prop_wedge(rng, d, it) for it in range(n_wedge)]
            if extra is not None:
                extra(rng, d, loads, wedges)
    finally:
        shutil.rmtree(d, ignore_errors=True)
    for f in FAILS[:6]:
        print("FAIL:", f)
    for f in sorted(set(x.split(":")[0].rstrip("0123456789 ") for x in FAILS))[:15]:
        print("FAIL kind:", f)
    if FAILS:
        print("FAILED (%d checks)" % len(FAILS))
        sys.exit(1)
    print("PASS")

# ----------------------------------------------------------------------------------------------------------------
# change (b): ioutils.defocus_load / gctf_read / ctffind4_read -- comparison with the original implementation
# ----------------------------------------------------------------------------------------------------------------
sf = starfileio
get_number_of_lines_with_character = ioutils.get_number_of_lines_with_character
warp_ctf_read = ioutils.warp_ctf_read


def orig_defocus_load(input_data, file_type="gctf"):
    if isinstance(input_data, pd.DataFrame):
        defocus_df = input_data
    elif isinstance(input_data, str):
        if file_type.lower() == "gctf":
            defocus_df = orig_gctf_read(input_data)
        elif file_type.lower() == "ctffind4":
            defocus_df = orig_ctffind4_read(input_data)
        elif file_type.lower() == "warp":
            defocus_df = warp_ctf_read(input_data)
        else:
            raise ValueError(f"The file type {file_type} is not supported.")
    else:  # isinstance(input_data, np.ndarray):
        df_columns = ["defocus1", "defocus2", "astigmatism", "phase_shift", "defocus_mean"]
        defocus_df = pd.DataFrame(input_data, columns=df_columns)

    return defocus_df


def orig_gctf_read(file_path):
    gctf_df = sf.Starfile.read(file_path, data_id=0)[0]

    # extract columns number 2, 3, 4 to new df
    if "rlnPhaseShift" in gctf_df.columns:
        converted_gctf = gctf_df[["rlnDefocusU", "rlnDefocusV", "rlnDefocusAngle", "rlnPhaseShift"]].astype(float)
    else:
        converted_gctf = gctf_df[["rlnDefocusU", "rlnDefocusV", "rlnDefocusAngle"]].astype(float)
        converted_gctf["rlnPhaseShift"] = 0.0

    converted_gctf.iloc[:, 0:2] = converted_gctf.iloc[:, 0:2] * 10e-5
    converted_gctf = converted_gctf.rename(
        columns={
            "rlnDefocusU": "defocus1",
            "rlnDefocusV": "defocus2",
            "rlnDefocusAngle": "astigmatism",
            "rlnPhaseShift": "phase_shift",
        }
    )

    converted_gctf["defocus_mean"] = (converted_gctf["defocus1"] + converted_gctf["defocus2"]).values / 2.0

    return converted_gctf


def orig_ctffind4_read(file_path):
    rows_to_skip = get_number_of_lines_with_character(file_path, "#")
    ctf = pd.read_csv(file_path, skiprows=rows_to_skip, header=None, dtype=np.float32, sep=r"\s+")
    converted_ctf = ctf.iloc[:, 1:5].copy()
    converted_ctf.loc[:, converted_ctf.columns[0:2]] *= 10e-5
    converted_ctf.columns = ["defocus1", "defocus2", "astigmatism", "phase_shift"]

    converted_ctf["defocus_mean"] = (converted_ctf["defocus1"] + converted_ctf["defocus2"]).values / 2.0
    return converted_ctf


def strictly_identical(a, b, what):
    frames_identical(a, b, what)
    check(a.to_numpy().tobytes() == b.to_numpy().tobytes(), what + ": not bitwise identical")
    check(a.columns.dtype == b.columns.dtype and a.columns.name == b.columns.name and type(a.columns) == type(b.columns),
          what + ": columns index differs (%s vs %s)" % (a.columns.dtype, b.columns.dtype))
    check(a.index.dtype == b.index.dtype and a.index.name == b.index.name, what + ": index dtype/name")
    for c in a.columns:
        check(a[c].to_numpy().tobytes() == b[c].to_numpy().tobytes(), what + ": column %s bytes" % c)
    # results are independent, writable frames
    a2 = a.copy()
    b2 = b.copy()
    a2.iloc[0, 0] = 1.0
    b2.iloc[0, 0] = 1.0
    check(a2.equals(b2), what + ": after assignment")


def outcome(fn, *a, **k):
    try:
        return ("ok", fn(*a, **k))
    except Exception as e:  # noqa
        return ("err", type(e).__name__)


def extra_b(rng, d, loads, wedges):
    files = [(l["gctf"][0], l["ctffind4"][0]) for l in loads]
    for it in range(40):
        n = rng.choice([1, 2, 3, 41, 80])
        text = gen_gctf(rng, n, rng.random() < 0.5)[0]
        if it % 5 == 0:  # integer-valued / negative / exponent notation columns
            text = text.replace(".", "") if it % 10 == 0 else text.replace("300.000000", "-3.0e2")
        pg = write_files(d, "xb_%d.star" % it, text)
        text = gen_ctffind4(rng, n)[0]
        if it % 7 == 0:
            text = text.replace(" ", "   ").replace("#   ", "# ")
        pc = write_files(d, "xb_%d.txt" % it, text)
        files.append((pg, pc))
    for pg, pc in files:
        a, b = outcome(orig_gctf_read, pg), outcome(ioutils.gctf_read, pg)
        check(a[0] == b[0], "gctf_read outcome differs for %s: %r %r" % (pg, a, b))
        if a[0] == b[0] == "ok":
            strictly_identical(a[1], b[1], "gctf_read orig vs current")
            strictly_identical(orig_defocus_load(pg), ioutils.defocus_load(pg), "defocus_load gctf orig vs current")
            strictly_identical(orig_defocus_load(pg, "GCTF"), ioutils.defocus_load(pg, "GCTF"), "defocus_load GCTF orig vs current")
            arr = a[1].to_numpy()
            strictly_identical(orig_defocus_load(arr), ioutils.defocus_load(arr), "defocus_load array orig vs current")
            strictly_identical(orig_defocus_load(arr.tolist()), ioutils.defocus_load(arr.tolist()), "defocus_load list orig vs current")
            check(ioutils.defocus_load(b[1], "nonsense") is b[1], "defocus_load frame passthrough ignores the type")
        a, b = outcome(orig_ctffind4_read, pc), outcome(ioutils.ctffind4_read, pc)
        check(a[0] == b[0], "ctffind4_read outcome differs for %s: %r %r" % (pc, a, b))
        if a[0] == b[0] == "ok":
            strictly_identical(a[1], b[1], "ctffind4_read orig vs current")
            strictly_identical(orig_defocus_load(pc, "CtfFind4"), ioutils.defocus_load(pc, "CtfFind4"), "defocus_load ctffind4 orig vs current")
        for ft in ("star", "", "gctf ", "warp2"):
            check(outcome(orig_defocus_load, pg, ft) == outcome(ioutils.defocus_load, pg, ft) == ("err", "ValueError"), "unsupported type %r" % ft)
        check(outcome(orig_defocus_load, pg, None)[1] == outcome(ioutils.defocus_load, pg, None)[1], "file_type None")
    # fixtures of the project
    for ts in ("017", "018"):
        pg = os.path.join("tests", "test_data", "TS_" + ts, ts + "_gctf.star")
        pc = os.path.join("tests", "test_data", "TS_" + ts, ts + "_ctffind4.txt")
        px = os.path.join("tests", "test_data", "TS_" + ts, ts + ".xml")
        if os.path.isfile(pg):
            strictly_identical(orig_gctf_read(pg), ioutils.gctf_read(pg), "fixture gctf")
            strictly_identical(orig_ctffind4_read(pc), ioutils.ctffind4_read(pc), "fixture ctffind4")
            strictly_identical(orig_defocus_load(px, "warp"), ioutils.defocus_load(px, "Warp"), "fixture warp")


run_all(1702, n_mdoc=8, n_load=30, n_wedge=12, extra=extra_b)
