"""C05 demo: pose bookkeeping (x+shift and orientation transform rigidly).

Runs random histories (up to 6 operations) of update_coordinates / scale_coordinates / shift_positions /
apply_rotation / flip_handedness on random particle lists and checks
  (1) the property against an independent numpy model (hand-written zxz matrices, explicit positions), and
  (2) bit-for-bit agreement of the worktree's Motl with a reference class that carries the ORIGINAL text of
      the six anchor functions (kept below), including repeated calls on the same object and calls after
      the table was edited in place.
Prints PASS and exits 0 when everything holds.
"""
import sys, os

sys.path.insert(0, os.getcwd())

import copy
import decimal
import inspect
import warnings

import numpy as np
import pandas as pd
from scipy.spatial.transform import Rotation as rot

warnings.filterwarnings("ignore")

from cryocat import cryomotl, ioutils
from cryocat.cryomotl import Motl

CHANGE = "a"  # which change this demo accompanies (extra checks at the bottom)

# ----------------------------------------------------------------------------------------------------------
# original text of the anchor functions (HEAD bb2db4f), bound to a reference subclass
# ----------------------------------------------------------------------------------------------------------
ORIGINAL = '''
def apply_rotation(self, rotation):
    if not isinstance(rotation, rot):  # Use `rot` instead of `R`
        raise ValueError("rotation must be an instance of scipy.spatial.transform.Rotation")

    angles = self.df.loc[:, ["phi", "theta", "psi"]].to_numpy()

    angles_rot = rot.from_euler("zxz", angles, degrees=True)
    final_rotation = angles_rot * rotation
    angles = final_rotation.as_euler("zxz", degrees=True)
    self.df.loc[:, ["phi", "theta", "psi"]] = angles

def flip_handedness(self, tomo_dimensions=None):
    self.df.loc[:, "theta"] = -self.df.loc[:, "theta"]

    # Position flip
    if tomo_dimensions is not None:
        dims = ioutils.dimensions_load(tomo_dimensions)
        if dims.shape == (1, 3):
            z_dim = float(dims["z"].iloc[0]) + 1
            self.df.loc[:, "z"] = z_dim - self.df.loc[:, "z"]
            self.df.loc[:, "shift_z"] = -self.df.loc[:, "shift_z"]
        else:
            tomos = dims["tomo_id"].unique()
            for t in tomos:
                z_dim = float(dims.loc[dims["tomo_id"] == t, "z"].iloc[0]) + 1
                self.df.loc[self.df["tomo_id"] == t, "z"] = z_dim - self.df.loc[self.df["tomo_id"] == t, "z"]
                self.df.loc[self.df["tomo_id"] == t, "shift_z"] = -self.df.loc[self.df["tomo_id"] == t, "shift_z"]

def get_angles(self, tomo_number=None):
    if tomo_number is None:
        angles = self.df.loc[:, ["phi", "theta", "psi"]].values
    else:
        angles = self.df.loc[self.df.loc[:, "tomo_id"] == tomo_number, ["phi", "theta", "psi"]].values

    return np.atleast_2d(angles)

def get_coordinates(self, tomo_number=None):
    if tomo_number is None:
        coord = self.df.loc[:, ["x", "y", "z"]].values + self.df.loc[:, ["shift_x", "shift_y", "shift_z"]].values
    else:
        coord = (
            self.df.loc[self.df.loc[:, "tomo_id"] == tomo_number, ["x", "y", "z"]].values
            + self.df.loc[
                self.df.loc[:, "tomo_id"] == tomo_number,
                ["shift_x", "shift_y", "shift_z"],
            ].values
        )

    return coord

def get_rotations(self, tomo_number=None):
    angles = self.get_angles(tomo_number)
    if angles.shape[0] == 0:
        return []  # Return an empty list if angles is empty
    rotations = rot.from_euler("zxz", angles, degrees=True)

    return rotations

def scale_coordinates(self, scaling_factor):
    for coord in ("x", "y", "z"):
        self.df[coord] = self.df[coord] * scaling_factor
        shift_column = "shift_" + coord
        self.df[shift_column] = self.df[shift_column] * scaling_factor

def update_coordinates(self):
    # Python 0.5 rounding: round(1.5) = 2, BUT round(2.5) = 2, while in Matlab round(2.5) = 3
    def round_and_recenter(row):
        new_row = row.copy()
        shifted_x = row["x"] + row["shift_x"]
        shifted_y = row["y"] + row["shift_y"]
        shifted_z = row["z"] + row["shift_z"]
        new_row["x"] = float(decimal.Decimal(shifted_x).to_integral_value(rounding=decimal.ROUND_HALF_UP))
        new_row["y"] = float(decimal.Decimal(shifted_y).to_integral_value(rounding=decimal.ROUND_HALF_UP))
        new_row["z"] = float(decimal.Decimal(shifted_z).to_integral_value(rounding=decimal.ROUND_HALF_UP))
        new_row["shift_x"] = shifted_x - new_row["x"]
        new_row["shift_y"] = shifted_y - new_row["y"]
        new_row["shift_z"] = shifted_z - new_row["z"]
        return new_row

    self.df = self.df.apply(round_and_recenter, axis=1)
    warnings.warn("The coordinates for subtomogram extraction were changed, new extraction is necessary!")

def shift_positions(self, shift, inplace=True):
    def shift_coords(row):
        v = np.array(shift)
        euler_angles = np.array([[row["phi"], row["theta"], row["psi"]]])
        orientations = rot.from_euler(seq="zxz", angles=euler_angles, degrees=True)
        rshifts = orientations.apply(v)

        row["shift_x"] = row["shift_x"] + rshifts[0][0]
        row["shift_y"] = row["shift_y"] + rshifts[0][1]
        row["shift_z"] = row["shift_z"] + rshifts[0][2]
        return row

    if inplace:
        self.df = self.df.apply(shift_coords, axis=1).reset_index(drop=True)
    else:
        new_motl = copy.deepcopy(self)
        new_motl.df = new_motl.df.apply(shift_coords, axis=1).reset_index(drop=True)
        return new_motl
'''
_ns = {"rot": rot, "ioutils": ioutils, "np": np, "decimal": decimal, "warnings": warnings, "copy": copy}
exec(ORIGINAL, _ns)


class RefMotl(Motl):
    pass


for _name in (
    "apply_rotation",
    "flip_handedness",
    "get_angles",
    "get_coordinates",
    "get_rotations",
    "scale_coordinates",
    "update_coordinates",
    "shift_positions",
):
    setattr(RefMotl, _name, _ns[_name])


# ----------------------------------------------------------------------------------------------------------
# independent model
# ----------------------------------------------------------------------------------------------------------
def rz(a):
    c, s = np.cos(np.deg2rad(a)), np.sin(np.deg2rad(a))
    return np.array([[c, -s, 0.0], [s, c, 0.0], [0.0, 0.0, 1.0]])


def rx(a):
    c, s = np.cos(np.deg2rad(a)), np.sin(np.deg2rad(a))
    return np.array([[1.0, 0.0, 0.0], [0.0, c, -s], [0.0, s, c]])


def zxz_matrix(phi, theta, psi):
    # extrinsic z-x-z: first phi about z, then theta about x, then psi about z
    return rz(psi) @ rx(theta) @ rz(phi)


S = np.diag([1.0, 1.0, -1.0])


class Model:
    def __init__(self, df):
        self.pos = df[["x", "y", "z"]].to_numpy(dtype=float) + df[["shift_x", "shift_y", "shift_z"]].to_numpy(dtype=float)
        self.M = np.array([zxz_matrix(p, t, s) for p, t, s in df[["phi", "theta", "psi"]].to_numpy(dtype=float)]).reshape(-1, 3, 3)
        self.tomo = df["tomo_id"].to_numpy()

    def shift(self, s):
        self.pos = self.pos + np.einsum("nij,j->ni", self.M, np.asarray(s, dtype=float))

    def rotate(self, q):
        self.M = self.M @ q

    def scale(self, f):
        self.pos = self.pos * f

    def flip(self, zdims):  # zdims: dict tomo -> dim_z, or float, or None
        self.M = S @ self.M @ S
        if zdims is not None:
            if isinstance(zdims, dict):
                d = np.array([zdims[t] for t in self.tomo], dtype=float)
            else:
                d = float(zdims)
            self.pos = self.pos.copy()
            self.pos[:, 2] = d + 1 - self.pos[:, 2]


def round_half_away(p):
    t = np.trunc(p)
    frac = p - t
    return t + np.where(np.abs(frac) >= 0.5, np.sign(p), 0.0)


fails = []


def check(cond, msg):
    if not cond:
        fails.append(msg)
        if len(fails) < 20:
            print("FAIL:", msg)


def scale_of(a):
    return 1.0 + (np.max(np.abs(a)) if a.size else 0.0)


def check_against_model(m, model, tag):
    pos = m.get_coordinates()
    check(pos.shape == model.pos.shape, f"{tag}: shape of coordinates")
    if pos.shape == model.pos.shape and pos.size:
        check(np.max(np.abs(pos - model.pos)) <= 1e-8 * scale_of(model.pos), f"{tag}: complete position differs from model")
        check(np.allclose(m.get_rotations().as_matrix(), model.M, atol=1e-7), f"{tag}: orientation differs from model")
        # per tomogram accessors agree with the global ones
        for t in np.unique(model.tomo):
            sel = model.tomo == t
            check(np.max(np.abs(m.get_coordinates(t) - model.pos[sel])) <= 1e-8 * scale_of(model.pos), f"{tag}: per-tomo coordinates")
            check(np.allclose(m.get_rotations(t).as_matrix(), model.M[sel], atol=1e-7), f"{tag}: per-tomo rotations")


def frames_identical(a, b):
    try:
        pd.testing.assert_frame_equal(a, b, check_exact=True)
        return True
    except AssertionError:
        return False


# ----------------------------------------------------------------------------------------------------------
# input generators
# ----------------------------------------------------------------------------------------------------------
def make_df(rng, n, flavour):
    df = pd.DataFrame(np.zeros((n, 20)), columns=Motl.motl_columns)
    tomos = rng.choice([1, 2, 5, 17], size=n)
    df["tomo_id"] = tomos.astype(float) if flavour != "intcols" else tomos.astype(int)
    df["subtomo_id"] = np.arange(1, n + 1, dtype=float if flavour != "intcols" else int)
    df["object_id"] = rng.integers(1, 4, size=n).astype(float)
    df["class"] = 1.0 if flavour != "intcols" else 1
    df["score"] = rng.random(n)
    if flavour == "ties":
        xyz = rng.integers(-40, 40, size=(n, 3)).astype(float)
        sh = rng.choice([0.5, -0.5, 1.5, -1.5, 2.5, -2.5, 0.0, 0.25], size=(n, 3))
    elif flavour == "intpos":
        xyz = rng.integers(1, 200, size=(n, 3)).astype(float)
        sh = np.zeros((n, 3))
    else:
        xyz = rng.uniform(-150, 300, size=(n, 3))
        sh = rng.uniform(-6, 6, size=(n, 3))
    df[["x", "y", "z"]] = xyz
    df[["shift_x", "shift_y", "shift_z"]] = sh
    ang = np.column_stack([rng.uniform(-180, 180, n), rng.uniform(0, 180, n), rng.uniform(-180, 180, n)])
    if flavour in ("ties", "special"):
        special = np.array([[0, 0, 0], [30, 0, 40], [10, 180, -20], [90, 90, 90], [-90, 45, 180], [0, 180, 0], [0.0, -60.0, 15.0]], dtype=float)
        k = min(n, len(special))
        ang[:k] = special[:k]
    if flavour == "negtheta":
        ang[:, 1] = rng.uniform(-180, 180, n)
    df[["phi", "theta", "psi"]] = ang
    if flavour == "oddindex":
        df.index = rng.permutation(n) * 3 + 7
    return df


def make_dims(rng, kind):
    zd = {1: 300.0, 2: 451.0, 5: 128.0, 17: 1000.0}
    if kind == "single_list":
        return [1024, 1440, 400], 400.0
    if kind == "single_array":
        return np.array([928.0, 928.0, 333.0]), 333.0
    if kind == "single_df":
        return pd.DataFrame([[100, 200, 57]]), 57.0
    rows = [[t, 1000.0, 1200.0, z] for t, z in zd.items()]
    if kind == "multi_array":
        return np.array(rows), zd
    if kind == "multi_df":
        return pd.DataFrame(rows), zd
    if kind == "multi_df_named":
        return pd.DataFrame(rows, columns=["tomo_id", "x", "y", "z"]), zd
    raise ValueError(kind)


DIM_KINDS = ["single_list", "single_array", "single_df", "multi_array", "multi_df", "multi_df_named"]


def random_op(rng):
    k = rng.choice(["update", "scale", "shift", "shift_copy", "rotate", "flip", "flip_nodim"], p=[0.2, 0.12, 0.2, 0.1, 0.18, 0.15, 0.05])
    if k == "scale":
        return (k, float(rng.choice([0.25, 0.5, 2.0, 4.0, 1.0, rng.uniform(0.1, 8.0)])))
    if k in ("shift", "shift_copy"):
        form = rng.choice(["list", "array", "tuple", "intlist", "zero"])
        v = rng.uniform(-20, 20, 3)
        if form == "list":
            return (k, [float(c) for c in v])
        if form == "array":
            return (k, v)
        if form == "tuple":
            return (k, tuple(float(c) for c in v))
        if form == "intlist":
            return (k, [int(c) for c in rng.integers(-9, 9, 3)])
        return (k, [0, 0, 0])
    if k == "rotate":
        c = rng.integers(0, 4)
        if c == 0:
            return (k, rot.identity())
        if c == 1:
            return (k, rot.from_euler("zxz", [90, 180, 0], degrees=True))
        return (k, rot.random(random_state=int(rng.integers(0, 2**31))))
    if k == "flip":
        return (k, str(rng.choice(DIM_KINDS)))
    return (k, None)


def do_op(m, op, rng_for_dims=None):
    """apply op to Motl m; returns the motl that carries on the history"""
    k, arg = op
    if k == "update":
        m.update_coordinates()
    elif k == "scale":
        m.scale_coordinates(arg)
    elif k == "shift":
        r = m.shift_positions(copy.deepcopy(arg))
        assert r is None
    elif k == "shift_copy":
        before = m.df.copy(deep=True)
        new = m.shift_positions(copy.deepcopy(arg), inplace=False)
        check(type(new) is type(m), "shift_positions(inplace=False) type")
        check(frames_identical(before, m.df), "shift_positions(inplace=False) changed the source motl")
        check(new.df is not m.df, "shift_positions(inplace=False) shares df")
        return new
    elif k == "rotate":
        m.apply_rotation(arg)
    elif k == "flip":
        dims, _ = make_dims(None, arg)
        m.flip_handedness(dims)
    elif k == "flip_nodim":
        m.flip_handedness()
    return m


def model_op(model, op):
    k, arg = op
    if k == "scale":
        model.scale(arg)
    elif k in ("shift", "shift_copy"):
        model.shift(arg)
    elif k == "rotate":
        model.rotate(arg.as_matrix())
    elif k == "flip":
        _, zd = make_dims(None, arg)
        model.flip(zd)
    elif k == "flip_nodim":
        model.flip(None)


# ----------------------------------------------------------------------------------------------------------
# 1. random histories
# ----------------------------------------------------------------------------------------------------------
rng = np.random.default_rng(20505)
FLAVOURS = ["float", "ties", "intpos", "special", "negtheta", "intcols", "oddindex"]
n_hist = 0
for trial in range(140):
    flavour = FLAVOURS[trial % len(FLAVOURS)]
    n = int(rng.choice([1, 2, 3, 7, 12]))
    df0 = make_df(rng, n, flavour)
    m = Motl(df0.copy(deep=True))
    r = RefMotl(df0.copy(deep=True))
    model = Model(df0)
    check_against_model(m, model, f"trial {trial} start")
    ops = [random_op(rng) for _ in range(int(rng.integers(1, 7)))]
    for i, op in enumerate(ops):
        tag = f"trial {trial} ({flavour}) op {i} {op[0]}"
        pos_before = m.get_coordinates().copy()
        m = do_op(m, op)
        r = do_op(r, op)
        model_op(model, op)
        check(frames_identical(m.df, r.df), f"{tag}: table differs from the original implementation")
        check_against_model(m, model, tag)
        if op[0] == "update":
            xyz = m.df[["x", "y", "z"]].to_numpy(dtype=float)
            sh = m.df[["shift_x", "shift_y", "shift_z"]].to_numpy(dtype=float)
            check(np.array_equal(xyz, np.round(xyz)), f"{tag}: x,y,z not integers")
            check(np.all(np.abs(sh) <= 0.5), f"{tag}: |shift| > 0.5")
            check(np.array_equal(xyz, round_half_away(pos_before)), f"{tag}: rounding is not half-up (away from zero)")
            check(np.max(np.abs(m.get_coordinates() - pos_before)) <= 1e-9 * scale_of(pos_before), f"{tag}: update_coordinates moved a particle")
        if op[0] == "rotate":
            check(np.array_equal(m.get_coordinates(), pos_before), f"{tag}: apply_rotation moved a particle")
        # occasionally edit the table in place between operations (history goes on from the edited state)
        if rng.random() < 0.25 and len(m.df):
            j = int(rng.integers(0, len(m.df)))
            col = str(rng.choice(["x", "shift_y", "phi", "theta", "z", "shift_z"]))
            val = float(rng.choice([0.5, -2.5, 33.0, 120.0, -45.0]))
            for obj in (m, r):
                obj.df.iloc[j, obj.df.columns.get_loc(col)] = val
            model = Model(m.df)
            check(frames_identical(m.df, r.df), f"{tag}: edit")
    n_hist += 1

# ----------------------------------------------------------------------------------------------------------
# 2. composition laws on one object, and on the same object again after an in-place edit
# ----------------------------------------------------------------------------------------------------------
for trial in range(30):
    df0 = make_df(rng, int(rng.choice([1, 4, 9])), FLAVOURS[trial % len(FLAVOURS)])
    s1, s2 = rng.uniform(-10, 10, 3), rng.uniform(-10, 10, 3)
    q1, q2 = rot.random(random_state=trial), rot.random(random_state=1000 + trial)
    base = Motl(df0.copy(deep=True))
    for round_no in range(3):
        a = Motl(base.df.copy(deep=True))
        b = Motl(base.df.copy(deep=True))
        a.shift_positions(s1)
        a.shift_positions(s2)
        b.shift_positions(s1 + s2)
        check(np.allclose(a.get_coordinates(), b.get_coordinates(), atol=1e-9), f"compose shift {trial}/{round_no}")
        check(np.array_equal(a.get_angles(), b.get_angles()), f"compose shift angles {trial}/{round_no}")
        a = Motl(base.df.copy(deep=True))
        b = Motl(base.df.copy(deep=True))
        a.apply_rotation(q1)
        a.apply_rotation(q2)
        b.apply_rotation(q1 * q2)
        check(np.allclose(a.get_rotations().as_matrix(), b.get_rotations().as_matrix(), atol=1e-7), f"compose rot {trial}/{round_no}")
        check(np.array_equal(a.get_coordinates(), base.get_coordinates()), f"rot moved {trial}/{round_no}")
        # flip twice restores
        for kind in DIM_KINDS + [None]:
            c = Motl(base.df.copy(deep=True))
            for _ in range(2):
                c.flip_handedness(make_dims(None, kind)[0] if kind else None)
            check(np.allclose(c.df.to_numpy(dtype=float), base.df.to_numpy(dtype=float), atol=1e-9, rtol=0), f"flip twice {kind} {trial}/{round_no}")
            check(list(c.df.columns) == list(base.df.columns) and list(c.df.index) == list(base.df.index), f"flip twice labels {kind}")
        # scale then scale
        f1, f2 = float(rng.uniform(0.2, 5)), float(rng.uniform(0.2, 5))
        d = Motl(base.df.copy(deep=True))
        d.scale_coordinates(f1)
        d.scale_coordinates(f2)
        check(np.allclose(d.get_coordinates(), base.get_coordinates() * f1 * f2, rtol=1e-12, atol=1e-9), f"scale compose {trial}/{round_no}")
        # update twice is idempotent on the complete position and on x,y,z
        e = Motl(base.df.copy(deep=True))
        e.update_coordinates()
        first = e.df.copy(deep=True)
        e.update_coordinates()
        check(np.array_equal(first[["x", "y", "z"]].to_numpy(), e.df[["x", "y", "z"]].to_numpy()), f"update twice {trial}/{round_no}")
        check(np.allclose(e.get_coordinates(), base.get_coordinates(), atol=1e-9), f"update twice pos {trial}/{round_no}")
        # edit base in place and go round again
        if len(base.df):
            base.df.iloc[0, base.df.columns.get_loc("theta")] = float(rng.uniform(0, 180))
            base.df.iloc[-1, base.df.columns.get_loc("shift_z")] = float(rng.choice([0.5, -0.5, 3.5]))
            base.df.iloc[0, base.df.columns.get_loc("phi")] = float(rng.uniform(-180, 180))

# ----------------------------------------------------------------------------------------------------------
# 3. public wrappers / signature sanity (inside the quantifier: positional and documented keyword use)
# ----------------------------------------------------------------------------------------------------------
df0 = make_df(rng, 6, "float")
m1 = Motl(df0.copy(deep=True))
m2 = RefMotl(df0.copy(deep=True))
params = list(inspect.signature(Motl.flip_handedness).parameters)
check(len(params) == 2, "flip_handedness takes exactly one argument besides self")
m1.flip_handedness(**{params[1]: [10, 20, 30]})
m2.flip_handedness([10, 20, 30])
check(frames_identical(m1.df, m2.df), "flip_handedness by keyword == positional")
m1.shift_positions(shift=[1, 2, 3], inplace=True)
m2.shift_positions([1, 2, 3])
check(frames_identical(m1.df, m2.df), "shift_positions by keyword")
m1.scale_coordinates(scaling_factor=2.0)
m2.scale_coordinates(2.0)
m1.apply_rotation(rotation=rot.from_euler("zxz", [10, 20, 30], degrees=True))
m2.apply_rotation(rot.from_euler("zxz", [10, 20, 30], degrees=True))
check(frames_identical(m1.df, m2.df), "scale / rotate by keyword")
try:
    m1.apply_rotation(np.eye(3))
    check(False, "apply_rotation accepted a matrix")
except ValueError:
    pass

# module-level converters that flip: source text must call flip_handedness with a parameter that exists
for fname in ("emmotl2relion", "relion2emmotl", "stopgap2relion"):
    src = inspect.getsource(getattr(cryomotl, fname))
    check(f"flip_handedness({params[1]}=tomo_dim)" in src or "flip_handedness(tomo_dim)" in src, f"{fname} calls flip_handedness consistently")

# emmotl2relion end to end with a flip (no file written): positions mirrored in z
em = cryomotl.EmMotl(make_df(rng, 5, "intpos"))
zexp = 400 + 1 - em.get_coordinates()[:, 2]
try:
    rln = cryomotl.emmotl2relion(em, flip_handedness=True, tomo_dim=[1024, 1440, 400], relion_version=3.1)
    got = rln.get_coordinates()[:, 2]
    check(np.allclose(got, zexp), "emmotl2relion(flip_handedness=True) mirrors z")
except TypeError as e:
    check(False, f"emmotl2relion raised TypeError: {e}")

if fails:
    print(f"{len(fails)} check(s) failed")
    sys.exit(1)
print(f"PASS ({n_hist} histories)")
