import os
import sys

sys.path.insert(0, os.getcwd())

import decimal
import tempfile
import warnings
from fractions import Fraction
from pathlib import Path

import numpy as np
import pandas as pd

warnings.filterwarnings("ignore")

from cryocat import cryomotl, starfileio
from cryocat.cryomotl import Motl, EmMotl, StopgapMotl

# --------------------------------------------------------------------------------------------------------------
# independent statement of the property
# --------------------------------------------------------------------------------------------------------------
# documented renaming, written out again here (not taken from StopgapMotl.pairs)
RENAME = [
    ("score", "score"),
    ("subtomo_id", "subtomo_num"),
    ("tomo_id", "tomo_num"),
    ("object_id", "object"),
    ("x", "orig_x"),
    ("y", "orig_y"),
    ("z", "orig_z"),
    ("shift_x", "x_shift"),
    ("shift_y", "y_shift"),
    ("shift_z", "z_shift"),
    ("phi", "phi"),
    ("psi", "psi"),
    ("theta", "the"),
    ("class", "class"),
]
SG_COLUMNS = [
    "motl_idx", "tomo_num", "object", "subtomo_num", "halfset", "orig_x", "orig_y", "orig_z", "score",
    "x_shift", "y_shift", "z_shift", "phi", "psi", "the", "class",
]
MOTL_COLUMNS = [
    "score", "geom1", "geom2", "subtomo_id", "tomo_id", "object_id", "subtomo_mean", "x", "y", "z",
    "shift_x", "shift_y", "shift_z", "geom3", "geom4", "geom5", "phi", "psi", "theta", "class",
]
FAILS = []


def check(cond, msg):
    if not cond:
        FAILS.append(msg)
        if len(FAILS) < 20:
            print("FAIL:", msg)


def same_bits(a, b):
    a = np.ascontiguousarray(np.asarray(a, dtype=float))
    b = np.ascontiguousarray(np.asarray(b, dtype=float))
    return a.shape == b.shape and a.tobytes() == b.tobytes()


def star_close(written, expected):
    """STAR precision: the writer keeps six decimals."""
    written = np.asarray(written, dtype=float)
    expected = np.asarray(expected, dtype=float)
    if written.shape != expected.shape:
        return False
    tol = 0.5e-6 + 4 * np.spacing(np.abs(expected))
    return bool(np.all(np.abs(written - expected) <= tol))


def half_up(v):
    """exact round-half-away-from-zero of a float (independent of the decimal module)"""
    f = Fraction(float(v))
    s = -1 if f < 0 else 1
    return float(s * ((abs(f) + Fraction(1, 2)).__floor__()))


def expected_after_update(df):
    """reference for update_coordinates: integer positions, rest in the shifts"""
    out = df.copy()
    for c, s in (("x", "shift_x"), ("y", "shift_y"), ("z", "shift_z")):
        tot = df[c].to_numpy(dtype=float) + df[s].to_numpy(dtype=float)
        new = np.array([half_up(t) for t in tot], dtype=float)
        out[c] = new
        out[s] = tot - new
    return out


def parse_star_independently(path):
    """a minimal reader of the written file that does not use cryocat"""
    with open(path) as fh:
        lines = [ln.strip() for ln in fh.read().split("\n")]
    lines = [ln for ln in lines if ln and not ln.startswith("#")]
    assert lines[0] == "data_stopgap_motivelist", lines[0]
    assert lines[1] == "loop_", lines[1]
    cols = []
    k = 2
    while k < len(lines) and lines[k].startswith("_"):
        cols.append(lines[k].split()[0][1:])
        k += 1
    rows = [ln.split() for ln in lines[k:]]
    return cols, rows


# --------------------------------------------------------------------------------------------------------------
# generators of particle lists
# --------------------------------------------------------------------------------------------------------------
def random_motl_df(rng, n, index_kind=0, magnitude=0):
    data = {}
    scale = [1.0, 1e3, 1e6][magnitude]
    for c in MOTL_COLUMNS:
        data[c] = rng.normal(0.0, scale, n)
    # non-sequential, not sorted, possibly repeated parity pattern; integers
    ids = rng.choice(np.arange(1, 5 * n + 50), size=n, replace=False).astype(float)
    if rng.random() < 0.2:
        ids = np.sort(ids)
    if rng.random() < 0.15:
        ids = ids * 2  # all even
    elif rng.random() < 0.15:
        ids = ids * 2 + 1  # all odd
    data["subtomo_id"] = ids
    data["tomo_id"] = rng.integers(1, 40, n).astype(float)
    data["object_id"] = rng.integers(-3, 200, n).astype(float)
    data["class"] = rng.integers(0, 6, n).astype(float)
    data["x"] = np.round(rng.uniform(-50, 2000, n), rng.integers(0, 4))
    data["y"] = np.round(rng.uniform(-50, 2000, n), rng.integers(0, 4))
    data["z"] = np.round(rng.uniform(-50, 600, n), rng.integers(0, 4))
    data["shift_x"] = rng.uniform(-6, 6, n)
    data["shift_y"] = rng.uniform(-6, 6, n)
    data["shift_z"] = rng.uniform(-6, 6, n)
    # halves and integers in the shifts (ties of the rounding), signed
    tie = rng.random(n) < 0.2
    data["shift_x"][tie] = rng.integers(-5, 6, tie.sum()) + 0.5
    data["shift_y"][tie] = rng.integers(-5, 6, tie.sum()) - 0.5
    data["shift_z"][tie] = rng.integers(-5, 6, tie.sum()).astype(float)
    # Euler angles with poles
    data["phi"] = rng.uniform(-180, 180, n)
    data["psi"] = rng.uniform(-180, 180, n)
    data["theta"] = rng.uniform(0, 180, n)
    pole = rng.random(n) < 0.2
    data["theta"][pole] = rng.choice([0.0, 180.0, -0.0], pole.sum())
    zero = rng.random(n) < 0.1
    data["phi"][zero] = 0.0
    data["psi"][zero] = rng.choice([0.0, 180.0, -180.0], zero.sum())
    df = pd.DataFrame(data, columns=MOTL_COLUMNS)
    if rng.random() < 0.3:
        df = df[list(rng.permutation(MOTL_COLUMNS))]  # column order of the input is free
    if index_kind == 1:
        df.index = rng.permutation(n) + 7
    elif index_kind == 2:
        df.index = np.arange(n)[::-1] * 3
    elif index_kind == 3:
        df.index = [f"p{i}" for i in range(n)]
    return df


def sizes(rng, count):
    base = [1, 1, 2, 3, 4, 5, 17, 64, 299, 300]
    return base + [int(v) for v in rng.integers(1, 120, max(0, count - len(base)))]


# --------------------------------------------------------------------------------------------------------------
# the property
# --------------------------------------------------------------------------------------------------------------
def check_export_frame(sg, ref, reset_index, tag, exact=True):
    n = ref.shape[0]
    check(list(sg.columns) == SG_COLUMNS, f"{tag}: columns {list(sg.columns)}")
    check(sg.shape[0] == n, f"{tag}: row count")
    for em, st in RENAME:
        if exact:
            check(same_bits(sg[st].to_numpy(), ref[em].to_numpy()), f"{tag}: field {em}->{st} changed")
        else:
            check(star_close(sg[st].to_numpy(), ref[em].to_numpy()), f"{tag}: field {em}->{st} differs")
    ids = ref["subtomo_id"].to_numpy(dtype=float)
    exp_half = ["A" if int(round(v)) % 2 == 0 else "B" for v in ids]
    check([str(h) for h in sg["halfset"]] == exp_half, f"{tag}: halfset")
    exp_idx = np.arange(1, n + 1, dtype=float) if reset_index else ids
    check(np.array_equal(sg["motl_idx"].to_numpy(dtype=float), exp_idx), f"{tag}: motl_idx")


def check_import_frame(df, ref_sg, tag, exact=True):
    check(sorted(df.columns) == sorted(MOTL_COLUMNS), f"{tag}: motl columns")
    check(df.shape[0] == ref_sg.shape[0], f"{tag}: row count")
    for em, st in RENAME:
        if exact:
            check(same_bits(df[em].to_numpy(), ref_sg[st].to_numpy()), f"{tag}: field {st}->{em} changed")
        else:
            check(star_close(df[em].to_numpy(), ref_sg[st].to_numpy()), f"{tag}: field {st}->{em} differs")


def property_round(rng, n, index_kind, magnitude, tmpdir, tag):
    df = random_motl_df(rng, n, index_kind, magnitude)
    pristine = df.copy(deep=True)

    # ---------------- in-memory export, both reset settings, repeated calls on the same object
    for reset in (False, True, False):
        sg = StopgapMotl.convert_to_sg_motl(df, reset_index=reset)
        check_export_frame(sg, pristine, reset, f"{tag} mem reset={reset}")
        check(list(sg.index) == list(range(n)), f"{tag}: sg index")
    check(df.equals(pristine) and list(df.index) == list(pristine.index), f"{tag}: input frame modified")
    sg_default = StopgapMotl.convert_to_sg_motl(df)
    check_export_frame(sg_default, pristine, False, f"{tag} mem default")

    # ---------------- in-memory import (constructor with a stopgap frame, and the method)
    sg_in = sg_default.copy()
    if index_kind:
        sg_in.index = df.index
    sg_keep = sg_in.copy(deep=True)
    m1 = StopgapMotl(sg_in)
    check_import_frame(m1.df, sg_keep, f"{tag} import ctor")
    check(list(m1.df.index) == list(sg_keep.index), f"{tag}: import keeps the row labels")
    m2 = StopgapMotl()
    m2.convert_to_motl(sg_in)
    check_import_frame(m2.df, sg_keep, f"{tag} import method")
    check(sg_in.equals(sg_keep), f"{tag}: stopgap input modified")
    # there and back
    back = StopgapMotl.convert_to_sg_motl(m1.df)
    check_export_frame(back, pristine, False, f"{tag} there-and-back")

    # ---------------- constructor with a particle list
    sm = StopgapMotl(df)
    for em, _ in RENAME:
        check(same_bits(sm.df[em].to_numpy(), pristine[em].to_numpy()), f"{tag}: ctor field {em}")
    check(list(sm.df.index) == list(range(n)), f"{tag}: ctor index")

    # ---------------- via file
    for reset in (False, True):
        for upd in (False, True):
            path = os.path.join(tmpdir, f"m_{tag}_{int(reset)}_{int(upd)}.star")
            ref = expected_after_update(pristine) if upd else pristine
            sgm = cryomotl.emmotl2stopgap(df, output_motl_path=path, update_coordinates=upd, reset_index=reset)
            for em, _ in RENAME:
                check(
                    np.allclose(sgm.df[em].to_numpy(), ref[em].to_numpy(), rtol=0, atol=1e-9 * (10 ** (3 * magnitude))),
                    f"{tag}: emmotl2stopgap field {em} (upd={upd})",
                )
            # independent parse of the written text
            cols, rows = parse_star_independently(path)
            check(cols == SG_COLUMNS, f"{tag}: written labels {cols}")
            check(len(rows) == n and all(len(r) == 16 for r in rows), f"{tag}: written rows")
            txt = pd.DataFrame(rows, columns=cols)
            halves = list(txt["halfset"])
            num = txt.drop(columns=["halfset"]).astype(float)
            num["halfset"] = halves
            check_export_frame(num[SG_COLUMNS], ref, reset, f"{tag} file reset={reset} upd={upd}", exact=False)
            # read back with the package
            loaded = StopgapMotl(path)
            for em, _ in RENAME:
                check(star_close(loaded.df[em].to_numpy(), ref[em].to_numpy()), f"{tag}: loaded field {em}")
            check(list(loaded.df.index) == list(range(n)), f"{tag}: loaded index")
            check([str(h) for h in loaded.sg_df["halfset"]] == halves, f"{tag}: loaded halfset")
            em = cryomotl.stopgap2emmotl(path)
            for k, _ in RENAME:
                check(star_close(em.df[k].to_numpy(), ref[k].to_numpy()), f"{tag}: stopgap2emmotl field {k}")
            # write_out of the object itself, with update_coord through the method
            path2 = path[:-5] + "_w.star"
            obj = StopgapMotl(df)
            obj.write_out(path2, update_coord=upd, reset_index=reset)
            with open(path) as f1, open(path2) as f2:
                check(f1.read() == f2.read(), f"{tag}: write_out differs from emmotl2stopgap (upd={upd})")
            # second write of the loaded object reproduces the text (fixed point of STAR precision)
            path3 = path[:-5] + "_r.star"
            loaded.write_out(path3, reset_index=reset)
            c3, r3 = parse_star_independently(path3)
            check(c3 == cols and r3 == rows, f"{tag}: rewrite of the loaded list differs")
    check(df.equals(pristine), f"{tag}: input frame modified by the file path")


def run_property(seed=2024, rounds=26):
    rng = np.random.default_rng(seed)
    with tempfile.TemporaryDirectory() as tmpdir:
        for i, n in enumerate(sizes(rng, rounds)):
            property_round(rng, n, index_kind=i % 4, magnitude=(i // 4) % 3, tmpdir=tmpdir, tag=f"r{i}n{n}")


# --------------------------------------------------------------------------------------------------------------
# the helpers themselves: constructor and write_out as they stand in the unmodified tree (text copied; the only
# adaptation is that super() is spelled Motl, because the copy lives in a subclass)
# --------------------------------------------------------------------------------------------------------------
from cryocat.exceptions import UserInputError


class OriginalStopgapMotl(StopgapMotl):
    def __init__(self, input_motl=None):
        Motl.__init__(self)
        self.sg_df = pd.DataFrame()

        if input_motl is not None:
            if isinstance(input_motl, StopgapMotl):
                self.df = input_motl.df.copy()
                self.sg_df = input_motl.sg_df.copy()

            elif isinstance(input_motl, pd.DataFrame):
                self.check_df_type(input_motl)
            elif isinstance(input_motl, str):
                sg_df = self.read_in(input_motl)
                self.convert_to_motl(sg_df)
            else:
                raise UserInputError(
                    f"Provided input_motl is neither DataFrame nor path to the motl file: {input_motl}."
                )

    def write_out(self, output_path, update_coord=False, reset_index=False):
        if update_coord:
            self.update_coordinates()

        if output_path.endswith(".star"):
            stopgap_df = StopgapMotl.convert_to_sg_motl(self.df, reset_index)
            stopgap_df.fillna(0, inplace=True)
            starfileio.Starfile.write([stopgap_df], output_path, specifiers=["data_stopgap_motivelist"])
        elif output_path.endswith(".em"):
            Motl.write_out(self, output_path=output_path, motl_type="emmotl")


def same_frame(a, b):
    if list(a.columns) != list(b.columns) or list(a.index) != list(b.index) or list(a.dtypes) != list(b.dtypes):
        return False
    for c in a.columns:
        if a[c].dtype.kind == "f":
            if not same_bits(a[c].to_numpy(), b[c].to_numpy()):
                return False
        elif list(a[c]) != list(b[c]):
            return False
    return True


def read_bytes(p):
    with open(p, "rb") as fh:
        return fh.read()


def compare_helper():
    rng = np.random.default_rng(5)
    path_accepted = None
    with tempfile.TemporaryDirectory() as d:
        for it, n in enumerate([1, 1, 2, 3, 8, 33, 150, 300] + [int(v) for v in rng.integers(1, 80, 22)]):
            df = random_motl_df(rng, n, it % 4, (it // 4) % 3)
            if it % 5 == 4:  # holes: both constructors fill them the same way
                df.iloc[rng.integers(0, n, 3), rng.integers(0, 20, 3)] = np.nan
            a, b = OriginalStopgapMotl(df), StopgapMotl(df)
            check(same_frame(a.df, b.df) and same_frame(a.sg_df, b.sg_df), f"ctor(df) differs, trial {it}")
            check(same_frame(OriginalStopgapMotl(a).df, StopgapMotl(b).df), f"ctor(StopgapMotl) differs, trial {it}")
            sg = StopgapMotl.convert_to_sg_motl(df)
            a2, b2 = OriginalStopgapMotl(sg), StopgapMotl(sg)
            check(same_frame(a2.df, b2.df) and a2.sg_df is sg and b2.sg_df is sg, f"ctor(stopgap df) differs, trial {it}")
            for reset in (False, True):
                for upd in (False, True):
                    for ext in (".star", ".em", ".txt"):
                        pa = os.path.join(d, f"a{it}{int(reset)}{int(upd)}{ext}")
                        pb = os.path.join(d, f"b{it}{int(reset)}{int(upd)}{ext}")
                        a, b = OriginalStopgapMotl(df), StopgapMotl(df)
                        a.write_out(pa, update_coord=upd, reset_index=reset)
                        b.write_out(pb, update_coord=upd, reset_index=reset)
                        check(same_frame(a.df, b.df), f"write_out leaves different tables, trial {it}{ext}")
                        check(os.path.isfile(pa) == os.path.isfile(pb) == (ext != ".txt"), f"file presence {ext}")
                        if ext != ".txt":
                            check(read_bytes(pa) == read_bytes(pb), f"written bytes differ, trial {it} {ext} {reset} {upd}")
                        if ext == ".star":
                            la, lb = OriginalStopgapMotl(pa), StopgapMotl(pb)
                            check(same_frame(la.df, lb.df) and same_frame(la.sg_df, lb.sg_df), f"ctor(path) differs, trial {it}")
                            # the added input type: either refused as before, or the same result as for the str
                            try:
                                lp = StopgapMotl(Path(pb))
                                ok = True
                            except UserInputError:
                                ok = False
                            check(path_accepted in (None, ok), "Path handling not consistent")
                            path_accepted = ok
                            if ok:
                                check(same_frame(lp.df, lb.df) and same_frame(lp.sg_df, lb.sg_df), f"ctor(Path) != ctor(str), trial {it}")
                                pp = Path(d) / f"p{it}{int(reset)}{int(upd)}.star"
                                c = StopgapMotl(df)
                                c.write_out(pp, update_coord=upd, reset_index=reset)
                                check(read_bytes(pp) == read_bytes(pb), f"write_out(Path) != write_out(str), trial {it}")
                                check(same_frame(c.df, b.df), f"write_out(Path) table, trial {it}")
        # refused inputs stay refused
        for bad in (5, 2.5, ["a.star"], ("a",), b"x.star", {"a": 1}):
            for cls in (OriginalStopgapMotl, StopgapMotl):
                try:
                    cls(bad)
                    check(False, f"{cls.__name__} accepted {bad!r}")
                except UserInputError:
                    pass
        # missing file: the same exception type from both
        errs = []
        for cls in (OriginalStopgapMotl, StopgapMotl):
            try:
                cls(os.path.join(d, "nothing_here.star"))
                errs.append(None)
            except Exception as e:
                errs.append(type(e))
        check(errs[0] is not None and errs[0] is errs[1], f"missing file: {errs}")
        # a star file without the stopgap block
        other = os.path.join(d, "other.star")
        starfileio.Starfile.write([pd.DataFrame({"rlnA": [1.0, 2.0]})], other, specifiers=["data_particles"])
        for cls in (OriginalStopgapMotl, StopgapMotl):
            try:
                cls(other)
                check(False, "non-stopgap star accepted")
            except UserInputError:
                pass
    print("pathlib.Path accepted:", path_accepted)


if __name__ == "__main__":
    run_property()
    compare_helper()
    if FAILS:
        print(f"FAIL ({len(FAILS)} checks)")
        sys.exit(1)
    print("PASS")
