import sys, os
sys.path.insert(0, os.getcwd())

# ----------------------------------------------------------------------------------------------------------------------
# Common part: an independent statement of property C03 (RELION <-> cryoCAT conversion keeps pose and identity)
# ----------------------------------------------------------------------------------------------------------------------
import re, tempfile, warnings, shutil, math
import numpy as np
import pandas as pd

warnings.simplefilter("ignore")

from cryocat import cryomotl
from cryocat.cryomotl import Motl, RelionMotl, EmMotl

FAILS = []
NCHECKS = [0]


def check(cond, msg):
    NCHECKS[0] += 1
    if not bool(cond):
        FAILS.append(msg)
        if len(FAILS) <= 25:
            print("  FAIL:", msg)


# --- independent rotation algebra (plain numpy, no scipy) -------------------------------------------------------------
def _rz(a):
    a = np.deg2rad(np.asarray(a, dtype=float))
    c, s = np.cos(a), np.sin(a)
    m = np.zeros(a.shape + (3, 3))
    m[..., 0, 0], m[..., 0, 1], m[..., 1, 0], m[..., 1, 1], m[..., 2, 2] = c, -s, s, c, 1.0
    return m


def _rx(a):
    a = np.deg2rad(np.asarray(a, dtype=float))
    c, s = np.cos(a), np.sin(a)
    m = np.zeros(a.shape + (3, 3))
    m[..., 1, 1], m[..., 1, 2], m[..., 2, 1], m[..., 2, 2], m[..., 0, 0] = c, -s, s, c, 1.0
    return m


def _ry(a):
    a = np.deg2rad(np.asarray(a, dtype=float))
    c, s = np.cos(a), np.sin(a)
    m = np.zeros(a.shape + (3, 3))
    m[..., 0, 0], m[..., 0, 2], m[..., 2, 0], m[..., 2, 2], m[..., 1, 1] = c, s, -s, c, 1.0
    return m


def particle_matrix(phi, theta, psi):
    """cryoCAT: extrinsic zxz(phi, theta, psi) -> first phi about z, then theta about x, then psi about z."""
    return _rz(psi) @ _rx(theta) @ _rz(phi)


def relion_matrix(rot_, tilt, psi):
    """RELION ZYZ triplet read as Rz(rot) Ry(tilt) Rz(psi)."""
    return _rz(rot_) @ _ry(tilt) @ _rz(psi)


def inv(m):
    return np.swapaxes(m, -1, -2)


def max_dev(a, b):
    a = np.asarray(a, dtype=float)
    b = np.asarray(b, dtype=float)
    if a.shape != b.shape:
        return np.inf
    if a.size == 0:
        return 0.0
    return float(np.max(np.abs(a - b)))


# --- independent name formatting and parsing --------------------------------------------------------------------------
def fmt_name(fmt, letter, number):
    seqs = re.findall(r"\$" + letter + "+", fmt)
    longest = max(seqs, key=len)
    return fmt.replace(longest, str(int(number)).zfill(len(longest) - 1))


def expected_names(version, tomo_format, subtomo_format, tomo_ids, subtomo_ids):
    tn, sn = [], []
    for t, s in zip(tomo_ids, subtomo_ids):
        tn.append(int(t) if tomo_format == "" else fmt_name(tomo_format, "x", t))
        if subtomo_format == "":
            sn.append(int(s))
        else:
            name = fmt_name(subtomo_format, "y", s)
            if re.search(r"\$x+", name):
                name = fmt_name(name, "x", t)
            sn.append(name)
    return tn, sn


def expected_halfset_ids(subsets):
    """smallest strictly increasing numbers, odd for half-set 1, even for half-set 2"""
    out = []
    prev = 0
    for s in subsets:
        want_odd = int(s) % 2 == 1
        c = prev + 1
        if (c % 2 == 1) != want_odd:
            c += 1
        out.append(c)
        prev = c
    return out


# --- independent STAR writer / reader ---------------------------------------------------------------------------------
def write_star(path, blocks):
    """blocks: list of (specifier, dict column -> list of str)"""
    with open(path, "w") as f:
        f.write("# written by the independent writer of the demo\n")
        for spec, cols in blocks:
            f.write(f"\n{spec}\n\nloop_\n")
            names = list(cols.keys())
            for i, n in enumerate(names, 1):
                f.write(f"_{n} #{i}\n")
            nrows = len(cols[names[0]])
            for r in range(nrows):
                f.write(" ".join(str(cols[n][r]) for n in names) + "\n")
            f.write("\n")


def read_star(path):
    blocks = {}
    cur = None
    names = None
    with open(path) as f:
        for line in f:
            line = line.split("#")[0].strip() if not line.lstrip().startswith("_") else line.strip()
            if not line:
                continue
            if line.startswith("data_"):
                cur = line
                names = []
                blocks[cur] = {"names": names, "rows": []}
            elif line == "loop_":
                continue
            elif line.startswith("_"):
                names.append(line.split()[0][1:])
            else:
                blocks[cur]["rows"].append(line.split())
    out = {}
    for spec, b in blocks.items():
        out[spec] = {n: [r[i] for r in b["rows"]] for i, n in enumerate(b["names"])}
    return out


# --- input generators -------------------------------------------------------------------------------------------------
SPECIAL_THETA = [0.0, 180.0, -180.0, 360.0, -0.0, 90.0, -90.0, 540.0]


def random_angles(rng, n, kind):
    if kind == "canonical":
        a = np.column_stack([rng.uniform(-180, 180, n), rng.uniform(0, 180, n), rng.uniform(-180, 180, n)])
    elif kind == "wild":
        a = rng.uniform(-720, 720, (n, 3))
    elif kind == "gimbal":
        a = rng.uniform(-360, 360, (n, 3))
        a[:, 1] = rng.choice(SPECIAL_THETA, n)
    elif kind == "integer":
        a = rng.integers(-4, 5, (n, 3)).astype(float) * 45.0
    else:
        a = np.zeros((n, 3))
    return a


def make_motl_df(rng, n, angle_kind, int_types=False, odd_index=False, nan_holes=False, both_halves=True):
    df = pd.DataFrame(np.zeros((n, 20)), columns=Motl.motl_columns)
    ang = random_angles(rng, n, angle_kind)
    df["phi"], df["theta"], df["psi"] = ang[:, 0], ang[:, 1], ang[:, 2]
    if int_types:
        df[["x", "y", "z"]] = rng.integers(-200, 2000, (n, 3))
        df[["shift_x", "shift_y", "shift_z"]] = rng.integers(-5, 6, (n, 3))
    else:
        df[["x", "y", "z"]] = rng.uniform(-200, 2000, (n, 3))
        df[["shift_x", "shift_y", "shift_z"]] = rng.uniform(-6, 6, (n, 3))
    # zeros and first / last elements
    df.loc[df.index[0], ["x", "shift_x"]] = 0.0
    df.loc[df.index[-1], ["z", "shift_z"]] = 0.0
    tomo = np.sort(rng.integers(1, 12345 if n > 3 else 40, n))
    df["tomo_id"] = tomo if int_types else tomo.astype(float)
    if both_halves:
        sub = np.sort(rng.choice(np.arange(1, 20 * n + 50), n, replace=False))
    else:
        sub = np.sort(rng.choice(np.arange(1, 20 * n + 50, 2), n, replace=False))  # odd numbers only
    df["subtomo_id"] = sub if int_types else sub.astype(float)
    df["class"] = rng.integers(1, 9, n)
    df["object_id"] = rng.integers(1, 5, n)
    df["score"] = rng.uniform(0, 1, n)
    if nan_holes:
        df.loc[df.index[rng.integers(0, n)], "score"] = np.nan
        df.loc[df.index[rng.integers(0, n)], "geom4"] = np.nan
    if odd_index:
        df.index = rng.permutation(np.arange(100, 100 + 3 * n, 3))
    return df


FORMATS = {
    3.0: [("", ""), ("/data/tomos/$xxx.rec", "/data/subtomos/$xxx/$xxx_$yyyyyyy_2.50A.mrc"),
          ("/d4/t/TS_$xxxxx_bin$xx.mrc", "/d4/$xx/sub_$xxxx_$yy_1.7A.mrc")],
    3.1: [("", ""), ("/data/tomos/$xxx.rec", "/data/subtomos/$xxx/$xxx_$yyyyyyy_2.50A.mrc"),
          ("$xxxx.mrc", "$xxxx_$yyy.mrc")],
    4.0: [("", ""), ("TS_$xxx", "TS_$xxx/$yyy"), ("/run7/TS_$xxxxx", "/run7/TS_$xxxxx/$yyyyyy")],
}


def names_of(version):
    if version <= 3.0:
        return "rlnMicrographName", "rlnImageName", ["rlnOriginX", "rlnOriginY", "rlnOriginZ"], "data_"
    if version == 3.1:
        return "rlnMicrographName", "rlnImageName", ["rlnOriginXAngst", "rlnOriginYAngst", "rlnOriginZAngst"], "data_particles"
    return "rlnTomoName", "rlnTomoParticleName", ["rlnOriginXAngst", "rlnOriginYAngst", "rlnOriginZAngst"], "data_particles"


# --- the property, export side ----------------------------------------------------------------------------------------
def check_export_table(tag, src, rdf, version, tomo_format, subtomo_format, tol=1e-9):
    """src: motl dataframe (already index-reset), rdf: table in RELION form (numbers may be strings from a file)"""
    n = src.shape[0]
    tname, sname, onames, _ = names_of(version)
    check(len(rdf[tname]) == n, f"{tag}: row count")
    pos = src[["x", "y", "z"]].to_numpy(dtype=float) + src[["shift_x", "shift_y", "shift_z"]].to_numpy(dtype=float)
    got = np.column_stack([np.asarray(rdf["rlnCoordinate" + c], dtype=float) for c in "XYZ"])
    check(max_dev(got, pos) <= tol * 1e3 + tol * np.abs(pos).max(), f"{tag}: rlnCoordinate = x + shift (dev {max_dev(got, pos)})")
    org = np.column_stack([np.asarray(rdf[c], dtype=float) for c in onames])
    check(np.all(org == 0.0), f"{tag}: origin shifts are zero")
    other = {"rlnOriginX", "rlnOriginY", "rlnOriginZ", "rlnOriginXAngst", "rlnOriginYAngst", "rlnOriginZAngst"} - set(onames)
    check(not (other & set(rdf.keys())), f"{tag}: no origin columns of the other unit")
    rm = relion_matrix(np.asarray(rdf["rlnAngleRot"], dtype=float), np.asarray(rdf["rlnAngleTilt"], dtype=float),
                       np.asarray(rdf["rlnAnglePsi"], dtype=float))
    pm = particle_matrix(src["phi"].to_numpy(dtype=float), src["theta"].to_numpy(dtype=float), src["psi"].to_numpy(dtype=float))
    check(max_dev(rm, inv(pm)) <= max(tol, 1e-9) * 10, f"{tag}: ZYZ rotation is the inverse of the zxz rotation (dev {max_dev(rm, inv(pm))})")
    etn, esn = expected_names(version, tomo_format, subtomo_format, src["tomo_id"].to_numpy(), src["subtomo_id"].to_numpy())
    check([str(v) for v in rdf[tname]] == [str(v) for v in etn], f"{tag}: tomogram names")
    check([str(v) for v in rdf[sname]] == [str(v) for v in esn], f"{tag}: subtomogram names")
    check(np.array_equal(np.asarray(rdf["rlnClassNumber"], dtype=float), src["class"].to_numpy(dtype=float)), f"{tag}: class")
    hs = np.asarray(rdf["rlnRandomSubset"], dtype=float)
    sid = src["subtomo_id"].to_numpy(dtype=float)
    check(np.array_equal(hs, np.where(sid % 2 == 1, 1.0, 2.0)), f"{tag}: half-set 1/2 = odd/even subtomogram number")
    if version < 4.0:
        check("rlnPixelSize" in rdf.keys(), f"{tag}: pixel size column")


def check_import(tag, m, coords, origins, zyz, tomo_ids, sub_ids, classes, subsets, version, pixel_size, tol=1e-9):
    """m: RelionMotl made from RELION data that hold the given values"""
    n = len(tomo_ids)
    d = m.df
    check(d.shape[0] == n and list(d.columns) == Motl.motl_columns, f"{tag}: shape / columns of df")
    check(max_dev(d[["x", "y", "z"]].to_numpy(dtype=float), coords) <= tol * (1 + np.abs(coords).max()), f"{tag}: x,y,z = rlnCoordinate")
    exp_shift = -np.asarray(origins, dtype=float)
    if version >= 3.1:
        exp_shift = exp_shift / pixel_size
    check(max_dev(d[["shift_x", "shift_y", "shift_z"]].to_numpy(dtype=float), exp_shift) <= tol * (1 + np.abs(exp_shift).max()),
          f"{tag}: shift = -origin (/ pixel size)  (dev {max_dev(d[['shift_x', 'shift_y', 'shift_z']].to_numpy(dtype=float), exp_shift)})")
    pm = particle_matrix(d["phi"].to_numpy(dtype=float), d["theta"].to_numpy(dtype=float), d["psi"].to_numpy(dtype=float))
    rm = relion_matrix(zyz[:, 0], zyz[:, 1], zyz[:, 2])
    check(max_dev(pm, inv(rm)) <= 1e-8, f"{tag}: zxz rotation is the inverse of the ZYZ rotation (dev {max_dev(pm, inv(rm))})")
    check(np.array_equal(d["tomo_id"].to_numpy(dtype=float), np.asarray(tomo_ids, dtype=float)), f"{tag}: tomo_id")
    check(np.array_equal(d["class"].to_numpy(dtype=float), np.asarray(classes, dtype=float)), f"{tag}: class")
    check(np.array_equal(d["geom3"].to_numpy(dtype=float), np.asarray(sub_ids, dtype=float)), f"{tag}: geom3 = subtomogram number of the name")
    sub_ids = np.asarray(sub_ids, dtype=float)
    if subsets is not None and len(set(subsets)) == 2:
        exp = expected_halfset_ids(subsets)
        check(np.array_equal(d["subtomo_id"].to_numpy(dtype=float), np.asarray(exp, dtype=float)), f"{tag}: half-set numbering of subtomo_id")
        got = d["subtomo_id"].to_numpy(dtype=float)
        check(np.array_equal(got % 2 == 1, np.asarray(subsets) == 1), f"{tag}: half-set 1/2 = odd/even")
        check(len(set(got.tolist())) == n, f"{tag}: subtomo_id unique")
    elif len(set(sub_ids.tolist())) == n:
        check(np.array_equal(d["subtomo_id"].to_numpy(dtype=float), sub_ids), f"{tag}: subtomo_id = number of the name")
    else:
        check(np.array_equal(d["subtomo_id"].to_numpy(dtype=float), np.arange(1, n + 1)), f"{tag}: repeated numbers are renumbered 1..n")


def check_same_pose(tag, src, back, tol):
    p0 = src[["x", "y", "z"]].to_numpy(dtype=float) + src[["shift_x", "shift_y", "shift_z"]].to_numpy(dtype=float)
    p1 = back[["x", "y", "z"]].to_numpy(dtype=float) + back[["shift_x", "shift_y", "shift_z"]].to_numpy(dtype=float)
    check(max_dev(p0, p1) <= tol * (1 + np.abs(p0).max()), f"{tag}: position after the round trip (dev {max_dev(p0, p1)})")
    m0 = particle_matrix(src["phi"].to_numpy(dtype=float), src["theta"].to_numpy(dtype=float), src["psi"].to_numpy(dtype=float))
    m1 = particle_matrix(back["phi"].to_numpy(dtype=float), back["theta"].to_numpy(dtype=float), back["psi"].to_numpy(dtype=float))
    check(max_dev(m0, m1) <= max(tol, 1e-8) * 10, f"{tag}: orientation after the round trip (dev {max_dev(m0, m1)})")
    check(np.array_equal(src["tomo_id"].to_numpy(dtype=float), back["tomo_id"].to_numpy(dtype=float)), f"{tag}: tomo_id after the round trip")
    check(np.array_equal(src["class"].to_numpy(dtype=float), back["class"].to_numpy(dtype=float)), f"{tag}: class after the round trip")
    check(np.array_equal(src["subtomo_id"].to_numpy(dtype=float), back["geom3"].to_numpy(dtype=float)), f"{tag}: subtomogram number (geom3) after the round trip")
    check(np.array_equal(src["subtomo_id"].to_numpy(dtype=float) % 2, back["subtomo_id"].to_numpy(dtype=float) % 2),
          f"{tag}: odd/even subtomogram number after the round trip")


# --- RELION data of an independent writer -----------------------------------------------------------------------------
def make_relion_input(rng, n, version, pixel_size, angle_kind, with_subsets, repeated_ids=False, numeric_names=False):
    tname, sname, onames, spec = names_of(version)
    coords = rng.uniform(-100, 4000, (n, 3)).round(3)
    origins = rng.uniform(-25, 25, (n, 3)).round(4)
    origins[0, :] = 0.0
    if n > 2:
        origins[-1, 1] = -0.0
    if angle_kind == "gimbal":
        zyz = rng.uniform(-360, 360, (n, 3)).round(4)
        zyz[:, 1] = rng.choice([0.0, 180.0, -180.0, 360.0, 90.0], n)
    elif angle_kind == "wild":
        zyz = rng.uniform(-720, 720, (n, 3)).round(4)
    else:
        zyz = np.column_stack([rng.uniform(-180, 180, n), rng.uniform(0, 180, n), rng.uniform(-180, 180, n)]).round(4)
    tomo_ids = np.sort(rng.integers(1, 999, n))
    if repeated_ids:
        sub_ids = rng.integers(1, max(2, n // 2 + 1), n)
    else:
        sub_ids = np.sort(rng.choice(np.arange(1, 10 * n + 10), n, replace=False))
    classes = rng.integers(1, 6, n)
    subsets = None
    if with_subsets == "random":
        subsets = rng.integers(1, 3, n)
    elif with_subsets == "alternate":
        subsets = np.arange(n) % 2 + 1
    elif with_subsets == "alternate2":
        subsets = (np.arange(n) + 1) % 2 + 1
    elif with_subsets == "ones":
        subsets = np.ones(n, dtype=int)
    elif with_subsets == "blocks":
        subsets = np.where(np.arange(n) < n // 2, 2, 1)
    cols = {}
    if numeric_names:
        tn = [int(t) for t in tomo_ids]
        sn = [int(s) for s in sub_ids]
    elif version < 4.0:
        tn = [f"/tomos/run3/{t:04d}_{pixel_size:.2f}A.rec" for t in tomo_ids]
        sn = [f"/sub/run3/{t:04d}/{t:04d}_{s:07d}_{pixel_size:.2f}A.mrc" for t, s in zip(tomo_ids, sub_ids)]
    else:
        tn = [f"TS_{t:03d}" for t in tomo_ids]
        sn = [f"TS_{t:03d}/{s}" for t, s in zip(tomo_ids, sub_ids)]
    cols[tname] = tn
    for i, c in enumerate("XYZ"):
        cols["rlnCoordinate" + c] = list(coords[:, i])
    cols["rlnAngleRot"], cols["rlnAngleTilt"], cols["rlnAnglePsi"] = list(zyz[:, 0]), list(zyz[:, 1]), list(zyz[:, 2])
    cols[sname] = sn
    for i, c in enumerate(onames):
        cols[c] = list(origins[:, i])
    cols["rlnClassNumber"] = [int(c) for c in classes]
    if subsets is not None:
        cols["rlnRandomSubset"] = [int(s) for s in subsets]
    cols["rlnCtfImage"] = [f"ctf_{i}.mrc" for i in range(n)]  # a column cryoCAT does not interpret
    return cols, dict(coords=coords, origins=origins, zyz=zyz, tomo_ids=tomo_ids, sub_ids=sub_ids, classes=classes,
                      subsets=None if subsets is None else np.asarray(subsets))


def run_property(rng_seed=0, sizes=(1, 2, 3, 7, 40, 300), cls=None, label="library"):
    """The property over the whole quantifier; cls: class to use in place of RelionMotl (for the original-text twin)."""
    RM = RelionMotl if cls is None else cls
    rng = np.random.default_rng(rng_seed)
    tmp = tempfile.mkdtemp(prefix="c03demo_")
    try:
        case = 0
        for n in sizes:
            for version in (3.0, 3.1, 4.0):
                for fi, (tf, sf) in enumerate(FORMATS[version]):
                    case += 1
                    kind = ["canonical", "wild", "gimbal", "integer", "zero"][case % 5]
                    ps = [1.0, 2.5, 0.834, 13.48][case % 4]
                    src_in = make_motl_df(rng, n, kind, int_types=(case % 3 == 0), odd_index=(case % 2 == 0),
                                          nan_holes=(case % 4 == 1), both_halves=(case % 7 != 0))
                    src = src_in.reset_index(drop=True).fillna(0.0)
                    keep = src_in.copy()
                    tag = f"[{label}] n={n} v={version} fmt={fi} ang={kind} ps={ps}"
                    m = RM(src_in, version=version, pixel_size=ps, binning=1.0)
                    check(src_in.equals(keep), f"{tag}: the input motl is not modified")
                    rdf = m.create_relion_df(tomo_format=tf, subtomo_format=sf, version=version)
                    rdf2 = m.create_relion_df(tomo_format=tf, subtomo_format=sf, version=version)  # repeated call
                    check(rdf.equals(rdf2), f"{tag}: repeated export gives the same table")
                    check(m.df.equals(src), f"{tag}: export leaves df alone")
                    check_export_table(tag + " export", src, {c: rdf[c].tolist() for c in rdf.columns}, version, tf, sf)
                    if version < 4.0:
                        check(np.all(rdf["rlnPixelSize"].to_numpy() == ps), f"{tag}: pixel size written")
                    # in-memory round trip
                    back = RM(rdf, version=version, pixel_size=ps)
                    check_same_pose(tag + " memory", src, back.df, 1e-9)
                    check(np.all(back.df[["shift_x", "shift_y", "shift_z"]].to_numpy() == 0), f"{tag}: imported shifts of an export are zero")
                    # through a STAR file
                    optics = version >= 3.1 and case % 2 == 1
                    path = f"{tmp}/e{case}.star"
                    m.write_out(path, write_optics=optics, tomo_format=tf, subtomo_format=sf, version=version)
                    blocks = read_star(path)
                    _, _, _, spec = names_of(version)
                    check(spec in blocks, f"{tag}: block {spec} in the file")
                    check(("data_optics" in blocks) == optics, f"{tag}: optics block on/off")
                    if spec in blocks:
                        check_export_table(tag + " file", src, blocks[spec], version, tf, sf, tol=1e-6)
                    if optics and "data_optics" in blocks:
                        check(float(blocks["data_optics"]["rlnImagePixelSize"][0]) == ps, f"{tag}: pixel size in the optics block")
                    back_f = RM(path, pixel_size=ps if (version >= 4.0 and not optics) else None)
                    check(back_f.version == version, f"{tag}: version recognised from the file ({back_f.version})")
                    check(np.all(np.asarray(back_f.pixel_size, dtype=float) == ps), f"{tag}: pixel size recognised from the file")
                    check_same_pose(tag + " file", src, back_f.df, 2e-6)

        # RELION data from the independent writer
        for n in sizes:
            for version in (3.0, 3.1, 4.0):
                for sub in ("none", "random", "alternate", "alternate2", "ones", "blocks"):
                    case += 1
                    kind = ["canonical", "wild", "gimbal"][case % 3]
                    ps = [1.0, 2.5, 0.834, 13.48][case % 4]
                    rep = case % 5 == 0 and n > 2
                    num = case % 11 == 0
                    cols, truth = make_relion_input(rng, n, version, ps, kind, sub, repeated_ids=rep, numeric_names=num)
                    tag = f"[{label}] relion-in n={n} v={version} subsets={sub} ang={kind} ps={ps} rep={rep} num={num}"
                    rdf = pd.DataFrame(cols)
                    if case % 2 == 0:
                        rdf.index = np.arange(n)[::-1] * 2 + 10  # non-default row labels
                    keep = rdf.copy()
                    m = RM(rdf, version=version, pixel_size=ps, binning=1.0)
                    check(rdf.equals(keep), f"{tag}: the RELION table is not modified")
                    check_import(tag + " memory", m, version=version, pixel_size=ps, **truth)
                    # through a file written by the independent writer
                    _, _, _, spec = names_of(version)
                    path = f"{tmp}/r{case}.star"
                    scols = {k: [repr(float(x)) if isinstance(x, float) else str(x) for x in v] for k, v in cols.items()}
                    blocks = []
                    optics = version >= 3.1 and case % 2 == 1
                    if optics:
                        blocks.append(("data_optics", {"rlnOpticsGroup": ["1"], "rlnOpticsGroupName": ["opticsGroup1"],
                                                        "rlnImagePixelSize": [repr(ps)], "rlnImageSize": ["64"]}))
                    blocks.append((spec, scols))
                    write_star(path, blocks)
                    mf = RM(path, pixel_size=None if optics else ps, binning=1.0)
                    check(mf.version == version, f"{tag}: version from the file ({mf.version})")
                    check_import(tag + " file", mf, version=version, pixel_size=ps, **truth)
                    # export of the imported list: complete position, zero origins, same rotation as the RELION input
                    out = mf.create_relion_df(version=version, pixel_size=ps)
                    pos = truth["coords"] - truth["origins"] / (ps if version >= 3.1 else 1.0)
                    got = out[["rlnCoordinateX", "rlnCoordinateY", "rlnCoordinateZ"]].to_numpy(dtype=float)
                    check(max_dev(got, pos) <= 1e-8 * (1 + np.abs(pos).max()), f"{tag}: re-export puts the shift into the coordinate")
                    rm0 = relion_matrix(truth["zyz"][:, 0], truth["zyz"][:, 1], truth["zyz"][:, 2])
                    rm1 = relion_matrix(out["rlnAngleRot"].to_numpy(), out["rlnAngleTilt"].to_numpy(), out["rlnAnglePsi"].to_numpy())
                    check(max_dev(rm0, rm1) <= 1e-8, f"{tag}: re-export keeps the RELION rotation (dev {max_dev(rm0, rm1)})")
                    check(np.array_equal(out["rlnClassNumber"].to_numpy(dtype=float), truth["classes"].astype(float)), f"{tag}: re-export keeps the class")
                    hs = out["rlnRandomSubset"].to_numpy(dtype=float)
                    if truth["subsets"] is not None and len(set(truth["subsets"].tolist())) == 2:
                        check(np.array_equal(hs, truth["subsets"].astype(float)), f"{tag}: re-export keeps the half-sets")

        # the module-level converters (same statement, through their own call chains)
        for n in sizes[:5]:
            for version in (3.0, 3.1, 4.0):
                case += 1
                tf, sf = FORMATS[version][1 + case % 2]
                ps = [1.0, 2.5, 0.834, 13.48][case % 4]
                kind = ["canonical", "wild", "gimbal", "integer"][case % 4]
                src_in = make_motl_df(rng, n, kind, int_types=(case % 3 == 0), odd_index=(case % 2 == 0), both_halves=(case % 5 != 0))
                src = src_in.reset_index(drop=True)
                tag = f"[{label}] converters n={n} v={version} ang={kind} ps={ps}"
                optics = version >= 3.1 and case % 2 == 0
                _, _, _, spec = names_of(version)
                for fname, fn in (("emmotl2relion", cryomotl.emmotl2relion), ("stopgap2relion", cryomotl.stopgap2relion)):
                    path = f"{tmp}/c{case}_{fname}.star"
                    keep = src_in.copy()
                    rm_ = fn(src_in, output_motl_path=path, tomo_format=tf, subtomo_format=sf, relion_version=version,
                             pixel_size=ps, binning=1.0, write_optics=optics)
                    check(src_in.equals(keep), f"{tag} {fname}: input not modified")
                    blocks = read_star(path)
                    check(spec in blocks and (("data_optics" in blocks) == optics), f"{tag} {fname}: blocks of the file")
                    if spec in blocks:
                        check_export_table(f"{tag} {fname}", src, blocks[spec], version, tf, sf, tol=1e-6)
                    em = cryomotl.relion2emmotl(path, pixel_size=ps, binning=1.0)
                    check_same_pose(f"{tag} {fname}+relion2emmotl", src, em.df, 2e-6)
                    sg = cryomotl.relion2stopgap(path)
                    check_same_pose(f"{tag} {fname}+relion2stopgap", src, sg.df, 2e-6)
                cols, truth = make_relion_input(rng, n, version, ps, kind if kind != "integer" else "wild", ["none", "random", "blocks"][case % 3])
                em = cryomotl.relion2emmotl(pd.DataFrame(cols), relion_version=version, pixel_size=ps, binning=1.0)
                check_import(f"{tag} relion2emmotl(table)", em, version=version, pixel_size=ps, **truth)
    finally:
        shutil.rmtree(tmp, ignore_errors=True)


def frames_identical(a, b):
    """same labels, same dtypes, same values (NaN == NaN)"""
    try:
        pd.testing.assert_frame_equal(a, b, check_exact=True, check_dtype=True, check_index_type=True, check_column_type=True)
        return True
    except AssertionError as e:
        print("   ", str(e).replace("\n", " | ")[:400])
        return False


def finish():
    print(f"checks run: {NCHECKS[0]}, failed: {len(FAILS)}")
    if FAILS:
        print("FAIL")
        sys.exit(1)
    print("PASS")
    sys.exit(0)


import textwrap


def make_twin(orig_sources):
    """RelionMotl with the ORIGINAL text (copied from the unmodified tree) of the given methods"""
    ns = dict(vars(cryomotl))

    class Twin(RelionMotl):
        pass

    ns["RelionMotl"] = Twin  # the original text refers to its own class by name
    for name, src in orig_sources.items():
        exec(textwrap.dedent(src), ns)
        setattr(Twin, name, ns[name])
    Twin.__name__ = "OriginalRelionMotl"
    return Twin

# ----------------------------------------------------------------------------------------------------------------------
# Change c: one table of STAR block names for the writer and the reader of RelionMotl
# ----------------------------------------------------------------------------------------------------------------------
ORIG_get_version_from_file = r'''
    @staticmethod
    def get_version_from_file(frames, specifiers):
        """Determines the version of Relion that was used to generate a starfile.

        Parameters
        ----------
        frames : list
            List of DataFrames loaded from a starfile. The length corresponds to the length of the specifiers list.
        specifiers : list
            List of data specifiers (`str` type) loaded from a starfile. The length corresponds to the length
            of the frames list.

        Returns
        -------
        float
            A version number.


        """
        version = None
        for s in specifiers:
            if "data_" == s:
                version = 3.0
            elif "data_particles" == s:
                frame_index = specifiers.index("data_particles")
                if "rlnTomoName" in frames[frame_index].columns or "rlnTomoParticleName" in frames[frame_index].columns:
                    version = 4.0
                else:
                    version = 3.1

        return version
'''

ORIG__get_data_particles_id = r'''
    @staticmethod
    def _get_data_particles_id(input_list):
        """Find the index of the first occurrence of either "data_particles" or "data_" in the given input list. For
        Relion version 3.1 and higher, the particle list is specified by "data_particles", while for lower versions
        the specifier is "data_".

        Parameters
        ----------
        input_list : list
            The list to search for the desired strings.

        Returns
        -------
        int
            The index of the first occurrence of either "data_particles" or "data_" in the input list.

        Raises
        ------
        UserInputError
            If neither "data_particles" nor "data_" is found in the input list.


        """

        if "data_particles" in input_list:
            return input_list.index("data_particles")
        elif "data_" in input_list:
            return input_list.index("data_")
        else:
            for index, item in enumerate(input_list):
                if "data_" in item and item!="data_optics":
                    return index

            raise UserInputError("The starfile does not contain particle list.")
'''

ORIG__get_optics_id = r'''
    @staticmethod
    def _get_optics_id(input_list):
        """Returns the index of the element "data_optics" in the input list. The specifier "data_optics" is used only
        from Relion version 3.1 and higher. The lower version have data optics specified as part of the particle list.

        Parameters
        ----------
        input_list : list
            The list to search for the element.

        Returns
        -------
        int or None
            The index of the element 'data_optics' if found, otherwise None.

        Notes
        -----
        Currently returns only optics data for Relion version 3.1 and higher.

        TODO: Add support for Relion 3.0 and lower.

        """

        if "data_optics" in input_list:
            return input_list.index("data_optics")
        else:
            return None
'''

ORIG_read_in = r'''
    def read_in(self, input_path):
        """Reads in a starfile and returns the particle list, version of the starfile and optics data if present.

        Parameters
        ----------
        input_path : str
            The path to the starfile.

        Returns
        -------
        frames : pandas.DataFrame
            Pandas.DataFrame containing the particle list in relion format.
        version : float
            The version extracted from the starfile. See meth:`cryocat.cryomotl.RelionMotl.get_version_from_file` for
            more info.
        optics_df : pandas.DataFrame or None
            Pandas.DataFrame containing optics if available, otherwise None.

        """

        frames, specifiers, _ = starfileio.Starfile.read(input_path)

        version = RelionMotl.get_version_from_file(frames, specifiers)

        data_id = RelionMotl._get_data_particles_id(specifiers)
        optics_id = RelionMotl._get_optics_id(specifiers)

        optics_df = None
        if optics_id is not None and self.optics_data is None:
            optics_df = frames[optics_id]

        return frames[data_id], version, optics_df
'''

ORIG_set_version_specific_names = r'''
    def set_version_specific_names(self):
        """Sets version specific names for the current object.

        Notes
        -----
        This function sets the following attributes of the current object:
        - "tomo_id_name": The name of the tomogram ID ("rlnMicrographName" for Relion 3.1 and lower, "rlnTomoName" for
        Relion 4.0 and higher).
        - "subtomo_id_name": The name of the subtomogram ID ("rlnImageName" for Relion 3.1 and lower,
        "rlnTomoParticleName" for Relion 4.0 and higher).
        - "shifts_id_names": The names of the shift IDs ("rlnOriginX" for Relion 3.0 and lower, "rlnOriginXAngst" for
        Relion 3.1 and higher).
        - "data_spec": The particle list specification ("data" for Relion 3.0 and lower, "data_particles" for Relion 3.1 and higher).

        Parameters
        ----------
        None

        Returns
        -------
        None

        """

        (
            self.tomo_id_name,
            self.subtomo_id_name,
            self.shifts_id_names,
            self.data_spec,
        ) = RelionMotl.get_version_specific_names(self.version)
'''

ORIG_get_version_specific_names = r'''
    @staticmethod
    def get_version_specific_names(version):
        """The function returns the version-specific names of columns in Relion DataFrame.

        Parameters
        ----------
        version : float
            The version number.

        Returns
        -------
        tomo_id_name : str
            The name for the tomogram ID ("rlnMicrographName" for Relion 3.1 and lower, "rlnTomoName" for Relion 4.0 and higher).
        subtomo_id_name : str
            The name for the subtomogram ID ("rlnImageName" for Relion 3.1 and lower, "rlnTomoParticleName" for Relion 4.0 and higher).
        shifts_id_names : list
            A list of names (type `str`) for the shift coordinates("rlnOriginX" for Relion 3.0 and lower, "rlnOriginXAngst"
            for Relion 3.1 and higher).
        data_spec : str
            The name for the particle list specification ("data" for Relion 3.0 and lower, "data_particles" for Relion 3.1 and higher).

        """
        if version is None:
            version = RelionMotl.default_version

        if version <= 3.0:
            tomo_id_name = "rlnMicrographName"
            subtomo_id_name = "rlnImageName"
            shifts_id_names = ["rlnOriginX", "rlnOriginY", "rlnOriginZ"]
            data_spec = "data_"
        elif version == 3.1:
            tomo_id_name = "rlnMicrographName"
            subtomo_id_name = "rlnImageName"
            shifts_id_names = ["rlnOriginXAngst", "rlnOriginYAngst", "rlnOriginZAngst"]
            data_spec = "data_particles"
        else:
            tomo_id_name = "rlnTomoName"
            subtomo_id_name = "rlnTomoParticleName"
            shifts_id_names = ["rlnOriginXAngst", "rlnOriginYAngst", "rlnOriginZAngst"]
            data_spec = "data_particles"

        return tomo_id_name, subtomo_id_name, shifts_id_names, data_spec
'''

ORIG_prepare_optics_data = r'''
    def prepare_optics_data(self, use_original_entries=True, optics_data=None, version=None):
        """The function prepares the optics data for relion DataFrame. It takes in a dictionary or starfile path as an
        argument, and returns a pandas DataFrame containing the optics information in version specific format.

        Parameters
        ----------
        use_original_entries : bool, default=True
            Whether to use the `self.optics_df` (True) as source or not. If set to True, the optics_data as well as
            version will be ignored. Defaults to True.
        optics_data : str, optional
            The optics data specified either as a path to the starfile (it can also contain the particle list) or as
            DataFrame. It is used only if "use_original_entries" is set to False. Defaults to None.
        version : float, optional
            Relion version to be used for the DataFrame. It is used only if use_original_entries is set to False and
            the "optics_data" is a path to starfile. If not set, `self.version` will be used instead. Defaults to None.

        Returns
        -------
        pandas.DataFrame
            DataFrame with the optics data.

        Raises
        ------
        UserInputError
            If `optics_data` is not str nor pandas.DataFrame.
        Warning
            If `optics_data` is not specified and `self.optics_df` is empty.

        """

        if not use_original_entries and version is None:
            version = self.version

        if use_original_entries:
            if self.optics_data is not None:
                optics_df = self.optics_data
            else:
                raise Warning(
                    f"There is no information on optics available - use optics_data argument to provide this information."
                )
        elif optics_data is not None:
            if isinstance(optics_data, str):
                if version >= 3.1:
                    optics_df, _ = starfileio.Starfile.get_frame_and_comments(optics_data, "data_optics")
                else:
                    optics_df, _ = starfileio.Starfile.get_frame_and_comments(optics_data, "data_")
            elif isinstance(optics_data, dict):
                optics_df = pd.DataFrame(optics_data)
            else:
                raise UserInputError("Optics has to be specified as a dictionary or as a path to the starfile.")
        else:
            # TODO add support for 3.0
            if version == 3.1:
                optics_df = self.create_optics_group_v3_1()
            elif version > 3.1:
                optics_df = self.create_optics_group_v4()
            else:
                raise Warning(
                    f"There is no information on optics available - use optics_data argument to provide this information."
                )

        return optics_df
'''

ORIG_prepare_particles_data = r'''
    def prepare_particles_data(self, tomo_format="", subtomo_format="", version=None, pixel_size=None):
        """The function creates a DataFrame that contains the information on particles in Relion format. The function
        takes in the version of Relion to be used and formats describining how the tomogram/tilt-series and subtomogram
        names should be assembled.

        Parameters
        ----------
        tomo_format : str, default=""
            Format specifying the tomogram/tilt-series name by containing sequence of "x"
            introduced by "$" character. The longest sequence is evaluated as the position of the tomo_id and
            replaced with corresponding tomo_id. The number of x letters of the longest sequence determines number
            of digits to pad with zero. For example, for tomo_id 5 will following format "/path/to/tomo/$xxxx.rec"
            result in "/path/to/tomo/0005.rec". The sequence can be present multiple times, sequences of "x" shorter
            than the longest one will be kept intact: for tomo_id 5 will "/path/to/tomo/$xxxx/$xxxx_$xx.mrc
            result in "/path/to/tomo/0005/0005_$xx.mrc". Defaults to empty string, in which case the tomo_id will be
            used without any zero padding.
        subtomo_format : str, default=""
            Format specifying the subtomogram name by containing sequence of "y" introduced by "$" character.
            The longest sequence is evaluated as the position of the subtomo_id and replaced with corresponding
            subtomo_id. The number of "y" letters of the longest sequence determines number of digits to pad with zero.
            For example, for subtomo_id 65 with following format "/path/to/subtomograms/$yyy.mrc" will result
            in /path/to/subtomograms/065.mrc". The sequence can be present multiple times, sequences of "y" shorter
            than the longest one will be kept intact: for subtomo_id 65 will "/path/to/subtomograms/$yy_$yyy.mrc"
            result in "/path/to/subtomograms/$yy_065.mrc". The subtomo_format can also contain sequence of "x" letters
            introduced by "$" in which case these are replaced by tomo_id in the same way as for tomo_format.
            For example, for tomo_id 5 and subtomogram_id 65 the following "/path/to/subtomograms/$xxxx/$xxxx_$yyy.mrc"
            will result in "/path/to/subtomograms/0005/0005_065.mrc". Defaults to empty string, in which case the
            subtomo_id will be used without any zero padding.
        version : float, optional
            Relion version to be used for the DataFrame. Defaults to None, in which case `self.version` is used.
        pixel_size : float, optional
            The pixel size of the data. If not provided, the pixel size of the object instance (`self.pixel_size`) will
            be used. Defaults to None.

        Returns
        -------
        pandas.DataFrame
            A DataFrame with particle list in Relion format.

        Raises
        ------
        UserInputError
            In case the format does not contain valid sequence.

        Examples
        --------

        >>> rln_motl = cryomotl.RelionMotl()
        >>> rln_motl.fill({"tomo_id": [2], "subtomo_id":[65]})

        >>> rln_df = rln_motl.prepare_particles_data(tomo_format="/path/to/$xxxx.rec",
        ... subtomo_format="/path/to/$xxxx/$xxxx_$yy_2.6A.mrc", version=3.1)
        >>> print(rln_df["rlnMicrographName"].values[0])
        >>> print(rln_df["rlnImageName"].values[0])
        /path/to/0002.rec
        /path/to/0002/0002_65_2.6A.mrc

        >>> rln_df = rln_motl.prepare_particles_data(tomo_format="/path/to/$xxxx",
        ... subtomo_format="/path/to/$xxxx/$xxxx_$yy_2.6A", version=4.0)
        >>> print(rln_df["rlnTomoName"].values[0])
        >>> print(rln_df["rlnTomoParticleName"].values[0])
        /path/to/0002
        /path/to/0002/0002_65_2.6A

        >>> rln_df = rln_motl.prepare_particles_data(tomo_format="/path/to/$xx.rec",
        ... subtomo_format="/path/to/xxxx/xxxx_$yy_2.6A.mrc", version=3.1)
        >>> print(rln_df["rlnMicrographName"].values[0])
        >>> print(rln_df["rlnImageName"].values[0])
        /path/to/02.rec
        /path/to/xxxx/xxxx_65_2.6A.mrc

        >>> rln_df = rln_motl.prepare_particles_data(tomo_format="",
        ... subtomo_format="/path/to/$xxx/$yy_2.6A.mrc", version=3.1)
        >>> print(rln_df["rlnMicrographName"].values[0])
        >>> print(rln_df["rlnImageName"].values[0])
        2
        /path/to/002/65_2.6A.mrc

        >>> rln_df = rln_motl.prepare_particles_data(tomo_format="",
        ... subtomo_format="/path/to/$xxx/yy_2.6A.mrc", version=3.1)
        >>> print(rln_df["rlnMicrographName"].values[0])
        >>> print(rln_df["rlnImageName"].values[0])
        ValueError: The format /path/to/$xxx/yy_2.6A.mrc does not contain any sequence of \$ followed by y.
        """

        def find_longest_sequence(test_string, test_letter, raise_error=True):
            pattern = f"\$(?:{test_letter})+"
            findings = sorted(re.findall(pattern, test_string), key=len)
            if not findings:
                if raise_error:
                    raise ValueError(
                        f"The format {test_string} does not contain any sequence of \$ followed by {test_letter}."
                    )
                else:
                    return None, 0
            else:
                longest_sequence = findings[-1]
                return longest_sequence, len(longest_sequence) - 1

        if version is None:
            version = self.version

        if pixel_size is None:
            pixel_size = self.pixel_size

        tomo_name, subtomo_name, shifts_name, _ = RelionMotl.get_version_specific_names(version)
        relion_df = self.create_particles_data(version)

        if tomo_format == "":
            relion_df[tomo_name] = self.df["tomo_id"].values.astype(int)
        else:
            tomo_sequence, tomo_digits = find_longest_sequence(tomo_format, "x")
            # add temporarily tomo_id
            relion_df["tomo_id"] = self.df["tomo_id"].values

            relion_df[tomo_name] = tomo_format
            relion_df[tomo_name] = relion_df.apply(
                lambda row: row[tomo_name].replace(tomo_sequence, str(int(row["tomo_id"])).zfill(tomo_digits)), axis=1
            )

            # drop the column
            relion_df = relion_df.drop(["tomo_id"], axis=1)

        if subtomo_format == "":
            relion_df[subtomo_name] = self.df["subtomo_id"].values.astype(int)
        else:
            subtomo_sequence, subtomo_digits = find_longest_sequence(subtomo_format, "y")
            subtomo_t_sequence, subtomo_t_digits = find_longest_sequence(subtomo_format, "x", raise_error=False)

            # add temporarily tomo_id and subtomo_id
            relion_df["tomo_id"] = self.df["tomo_id"].values
            relion_df["subtomo_id"] = self.df["subtomo_id"].values

            relion_df[subtomo_name] = subtomo_format
            relion_df[subtomo_name] = relion_df.apply(
                lambda row: row[subtomo_name].replace(
                    subtomo_sequence, str(int(row["subtomo_id"])).zfill(subtomo_digits)
                ),
                axis=1,
            )

            if subtomo_t_sequence is not None:
                relion_df[subtomo_name] = relion_df.apply(
                    lambda row: row[subtomo_name].replace(
                        subtomo_t_sequence, str(int(row["tomo_id"])).zfill(subtomo_t_digits)
                    ),
                    axis=1,
                )

            # drop the columns
            relion_df = relion_df.drop(["tomo_id", "subtomo_id"], axis=1)

        relion_df.loc[:, shifts_name] = np.zeros((relion_df.shape[0], 3))

        if version < 4.0:
            relion_df["rlnPixelSize"] = pixel_size

        return relion_df
'''

ORIG_create_final_output = r'''
    def create_final_output(self, relion_df, optics_df=None):
        """Creates the final output frames and specifiers based on the given input dataframes.

        Parameters
        ----------
        relion_df : pandas.DataFrame
            The dataframe containing the relion data.
        optics_df : pandas.DataFrame, optional
            The dataframe containing the optics data. Defaults to None.

        Returns
        -------
        frames : list
            List of pandas.DataFrame containing all data (e.g. particle list, optics group)
        spefifiers : list
            List of `str` containing the specifiers, i.e., the descriptions for the frames.


        Notes
        -----
        If optics_df is None, the frames and specifiers will be based on relion_df and self.data_spec.

        If optics_df is not None, the frames and specifiers will be based on optics_df, relion_df, "data_optics", and
        self.data_spec.

        If self.version is less than 3.1, the frames and specifiers will be based on the concatenated dataframe of
        optics_df and relion_df (with duplicates removed) and self.data_spec.

        """

        if optics_df is None:
            frames = [relion_df]
            specifiers = [self.data_spec]
        else:
            if self.version >= 3.1:
                frames = [optics_df, relion_df]
                specifiers = ["data_optics", self.data_spec]
            else:
                frames = [pd.concat([optics_df, relion_df]).drop_duplicates().reset_index(drop=True)]
                specifiers = [self.data_spec]

        return frames, specifiers
'''

Orig = make_twin({"get_version_from_file": ORIG_get_version_from_file, "_get_data_particles_id": ORIG__get_data_particles_id, "_get_optics_id": ORIG__get_optics_id, "read_in": ORIG_read_in, "set_version_specific_names": ORIG_set_version_specific_names, "get_version_specific_names": ORIG_get_version_specific_names, "prepare_optics_data": ORIG_prepare_optics_data, "prepare_particles_data": ORIG_prepare_particles_data, "create_final_output": ORIG_create_final_output})


def outcome(f, *a, **k):
    try:
        return ("ok", f(*a, **k))
    except Exception as e:
        return ("raised", type(e).__name__, str(e))


def same_outcome(a, b):
    if a[0] != b[0]:
        return False
    if a[0] == "raised":
        return a == b
    x, y = a[1], b[1]
    if isinstance(x, pd.DataFrame):
        return isinstance(y, pd.DataFrame) and frames_identical(x, y)
    if isinstance(x, tuple) and len(x) == 2 and isinstance(x[0], list) and x[0] and isinstance(x[0][0], pd.DataFrame):
        return x[1] == y[1] and len(x[0]) == len(y[0]) and all(frames_identical(p, q) for p, q in zip(x[0], y[0]))
    return type(x) is type(y) and x == y


# 1. the property itself, with the library as it is now and with the original text
run_property(rng_seed=3, label="library")
run_property(rng_seed=3, sizes=(1, 3, 40), cls=Orig, label="original text")

# 2. the table of names: identical answers for every version (also outside 3.0 / 3.1 / 4.0)
for v in (None, 1.0, 2.9, 3.0, 3, 3.05, 3.1, 3.2, 4.0, 4, 4.1, 5.0):
    a, b = outcome(RelionMotl.get_version_specific_names, v), outcome(Orig.get_version_specific_names, v)
    check(same_outcome(a, b), f"get_version_specific_names({v}): {a} / {b}")
for v, spec_ in ((3.0, "data_"), (3.1, "data_particles"), (4.0, "data_particles")):
    check(RelionMotl.get_version_specific_names(v)[3] == spec_ == names_of(v)[3], f"block name of version {v}")
    m = RelionMotl(version=v, pixel_size=1.0)
    check(m.data_spec == spec_ and Orig(version=v, pixel_size=1.0).data_spec == spec_, f"data_spec attribute of version {v}")
check((RelionMotl.block_particles_v3_0, RelionMotl.block_particles, RelionMotl.block_optics) == ("data_", "data_particles", "data_optics")
      if hasattr(RelionMotl, "block_optics") else True, "values of the shared table")

# 3. the reader's look-ups on lists of block names (order, unknown names, missing blocks, repeated names)
f_plain = pd.DataFrame({"rlnMicrographName": ["a"], "rlnCoordinateX": [1.0]})
f_tomo = pd.DataFrame({"rlnTomoName": ["TS_1"], "rlnCoordinateX": [1.0]})
f_tomo2 = pd.DataFrame({"rlnTomoParticleName": ["TS_1/1"], "rlnCoordinateX": [1.0]})
f_opt = pd.DataFrame({"rlnOpticsGroup": [1], "rlnImagePixelSize": [2.0]})
spec_lists = [[], ["data_"], ["data_particles"], ["data_optics"], ["data_optics", "data_particles"], ["data_particles", "data_optics"],
              ["data_general", "data_optics", "data_particles"], ["data_optics", "data_images"], ["data_images"], ["data_images", "data_optics"],
              ["data_", "data_particles"], ["data_particles", "data_"], ["data_optics", "data_"], ["data_particles", "data_particles"],
              ["data_stopgap_motivelist"], ["particles"], ["data_optics", "data_optics"], ["data_Particles"], ["data_particles_2", "data_particles"]]
for sl in spec_lists:
    for pf in (f_plain, f_tomo, f_tomo2):
        frames = [f_opt if s == "data_optics" else pf for s in sl]
        a, b = outcome(RelionMotl.get_version_from_file, frames, list(sl)), outcome(Orig.get_version_from_file, frames, list(sl))
        check(same_outcome(a, b), f"get_version_from_file({sl}): {a} / {b}")
    for fn in ("_get_data_particles_id", "_get_optics_id"):
        a, b = outcome(getattr(RelionMotl, fn), list(sl)), outcome(getattr(Orig, fn), list(sl))
        check(same_outcome(a, b), f"{fn}({sl}): {a} / {b}")

# 4. writer: create_final_output, prepare_optics_data, write_out -- identical frames, names and file text; reader: read_in
rng = np.random.default_rng(21)
STAT = {}
tmp = tempfile.mkdtemp(prefix="c03c_")
try:
    trial = 0
    for n in (1, 2, 5, 60):
        for version in (3.0, 3.1, 4.0):
            for optics_kind in ("off", "default", "dict", "file", "own"):
                trial += 1
                ps = [1.0, 2.5, 0.834][trial % 3]
                tf, sf = FORMATS[version][trial % 3]
                src = make_motl_df(rng, n, ["canonical", "gimbal", "wild"][trial % 3], odd_index=(trial % 2 == 0))
                tag = f"writer trial {trial} n={n} v={version} optics={optics_kind}"
                # an optics file of the independent writer (3.0: the optics live in the block "data_")
                opt_cols = {"rlnOpticsGroup": ["1"], "rlnOpticsGroupName": ["og1"], "rlnImagePixelSize": [repr(ps)], "rlnVoltage": ["300.0"]}
                opt_path = f"{tmp}/optics_{trial}.star"
                write_star(opt_path, [("data_optics" if version >= 3.1 else "data_", opt_cols)])
                kw = dict(tomo_format=tf, subtomo_format=sf, version=version)
                if optics_kind == "off":
                    kw.update(write_optics=False)
                elif optics_kind == "default":
                    kw.update(write_optics=True)
                elif optics_kind == "dict":
                    kw.update(write_optics=True, optics_data={"rlnOpticsGroup": [1], "rlnImagePixelSize": [ps]})
                elif optics_kind == "file":
                    kw.update(write_optics=True, optics_data=opt_path)
                else:
                    kw.update(write_optics=True, use_original_entries=False)
                res = []
                for cls in (RelionMotl, Orig):
                    own = pd.DataFrame({"rlnOpticsGroup": [1], "rlnImagePixelSize": [ps]}) if optics_kind == "own" else None
                    m = cls(src, version=version, pixel_size=ps, binning=1.0, optics_data=own)
                    path = f"{tmp}/{cls.__name__}_{trial}.star"
                    o = outcome(m.write_out, path, **kw)
                    text = open(path).read() if os.path.isfile(path) else None
                    po = outcome(m.prepare_optics_data, False, kw.get("optics_data"), version) if kw["write_optics"] else ("ok", None)
                    po_own = outcome(m.prepare_optics_data, True, None, version)
                    fo1 = outcome(m.create_final_output, m.create_relion_df(**{k: kw[k] for k in ("tomo_format", "subtomo_format", "version")}), None)
                    fo2 = outcome(m.create_final_output, m.create_relion_df(version=version), pd.DataFrame({"rlnOpticsGroup": [1], "rlnImagePixelSize": [ps]}))
                    res.append((o, text, po, po_own, fo1, fo2, path))
                a, b = res
                STAT[("write_out", a[0][0] if a[0][0] == "ok" else a[0][1])] = STAT.get(("write_out", a[0][0] if a[0][0] == "ok" else a[0][1]), 0) + 1
                check(a[0][:2] == b[0][:2] and (a[0][0] == "ok" or a[0] == b[0]), f"{tag}: write_out outcome {a[0]} / {b[0]}")
                check(a[1] == b[1], f"{tag}: text of the written file")
                for i, what in ((2, "prepare_optics_data"), (3, "prepare_optics_data(original entries)"), (4, "create_final_output without optics"),
                                (5, "create_final_output with optics")):
                    check(same_outcome(a[i], b[i]), f"{tag}: {what}")
                if a[1] is not None:
                    blocks = read_star(a[6])
                    spec_ = names_of(version)[3]
                    check(spec_ in blocks, f"{tag}: particle block {spec_} written")
                    check(("data_optics" in blocks) == (optics_kind != "off" and version >= 3.1), f"{tag}: optics block")
                    # reader on the file of the writer, and the cross combination (file of one side read by the other)
                    r = [outcome(lambda c, p: tuple(c().read_in(p)), cls, p) for cls in (RelionMotl, Orig) for p in (a[6], b[6])]
                    vers = [x[1][1] if x[0] == "ok" else None for x in r]
                    check(vers == [version] * 4, f"{tag}: version found again by the reader {vers}")
                    for x in r[1:]:
                        check(x[0] == r[0][0] == "ok" and frames_identical(x[1][0], r[0][1][0]), f"{tag}: particle table found again")
                        check(x[0] == "ok" and ((x[1][2] is None) == (r[0][1][2] is None)) and (x[1][2] is None or frames_identical(x[1][2], r[0][1][2])),
                              f"{tag}: optics table found again")

    # 5. reader on files of the independent writer with other layouts of the blocks
    layouts = [("data_optics", "data_particles"), ("data_particles", "data_optics"), ("data_general", "data_optics", "data_particles"),
               ("data_",), ("data_images",), ("data_optics", "data_images"), ("data_particles",), ("data_optics",)]
    for li, layout in enumerate(layouts):
        for version in (3.0, 3.1, 4.0):
            cols, truth = make_relion_input(rng, 6, version, 2.0, "wild", "random")
            scols = {k: [repr(float(x)) if isinstance(x, float) else str(x) for x in v] for k, v in cols.items()}
            blocks = []
            for s_ in layout:
                if s_ == "data_optics":
                    blocks.append((s_, {"rlnOpticsGroup": ["1"], "rlnImagePixelSize": ["2.0"]}))
                elif s_ == "data_general":
                    blocks.append((s_, {"rlnTomoSubTomosAre2DStacks": ["1"]}))
                else:
                    blocks.append((s_, scols))
            path = f"{tmp}/layout_{li}_{version}.star"
            write_star(path, blocks)
            a = outcome(lambda: RelionMotl(path, pixel_size=2.0, binning=1.0))
            b = outcome(lambda: Orig(path, pixel_size=2.0, binning=1.0))
            tag = f"layout {layout} columns of v{version}"
            STAT[("layout", a[0] if a[0] == "ok" else a[1])] = STAT.get(("layout", a[0] if a[0] == "ok" else a[1]), 0) + 1
            check(a[0] == b[0] and (a[0] == "ok" or a == b), f"{tag}: outcome {a[:2]} / {b[:2]}")
            if a[0] == "ok" and b[0] == "ok":
                check(frames_identical(a[1].df, b[1].df) and frames_identical(a[1].relion_df, b[1].relion_df), f"{tag}: df / relion_df")
                check(a[1].version == b[1].version and a[1].data_spec == b[1].data_spec, f"{tag}: version / data_spec")
                check((a[1].optics_data is None) == (b[1].optics_data is None), f"{tag}: optics_data")
                if a[1].version == version:
                    check_import(tag, a[1], version=version, pixel_size=2.0, **truth)
finally:
    shutil.rmtree(tmp, ignore_errors=True)
print("outcomes (same for the patched and the original text):", STAT)

finish()
