"""C06 demo: rotation geometry primitives of cryocat.geom agree with SO(3) ground truth.

Run as:  cd /tmp/wt6/C06 && /venv/bin/python <this file>
Checks (1) the property against independent computations (rotation matrices, atan2 based angles) and
(2) bit-for-bit agreement of the functions in the imported cryocat.geom with the ORIGINAL function texts kept below.
"""
import os
import sys

sys.path.insert(0, os.getcwd())

import io
import contextlib
import warnings
import itertools

import matplotlib

matplotlib.use("Agg")
import matplotlib.pyplot as plt
import numpy as np
import pandas as pd
from scipy.spatial.transform import Rotation as R

from cryocat import geom
from cryocat.exceptions import UserInputError

warnings.filterwarnings("ignore", message="Gimbal lock detected")

FOCUS = "a: angular_distance / cone_inplane_distance share the helper _as_rotation; quaternion dot product computed once"

# --------------------------------------------------------------------------------------------------------------------
# original texts of the functions (unmodified tree), executed in a copy of geom's namespace so that they call each other
# --------------------------------------------------------------------------------------------------------------------
ORIG_SRC = '''
def compare_rotations(angles1, angles2, c_symmetry=1, rotation_type="all"):
    dist_degrees = angular_distance(angles1, angles2, c_symmetry=c_symmetry)[0]
    dist_degrees_normals, dist_degrees_inplane = cone_inplane_distance(angles1, angles2, c_symmetry=c_symmetry)

    if rotation_type == "all":
        return dist_degrees, dist_degrees_normals, dist_degrees_inplane
    elif rotation_type == "angular_distance":
        return dist_degrees
    elif rotation_type == "cone_distance":
        return dist_degrees_normals
    elif rotation_type == "in_plane_distance":
        return dist_degrees_inplane
    else:
        raise UserInputError(f"The rotation type {rotation_type} is not supported.")


def euler_angles_to_normals(angles):
    points = visualize_angles(angles, plot_rotations=False)
    n_length = np.linalg.norm(points, axis=1, keepdims=True)
    normalized_normal_vectors = points / n_length

    return normalized_normal_vectors


def normals_to_euler_angles(input_normals, output_order="zxz"):
    if isinstance(input_normals, pd.DataFrame):
        normals = input_normals.loc[:, ["x", "y", "z"]].values
    elif isinstance(input_normals, np.ndarray):
        normals = input_normals
    else:
        raise UserInputError("The input_normals have to be either pandas dataFrame or numpy array")

    # normalize vectors
    normals = normals / np.linalg.norm(normals, axis=1)[:, np.newaxis]
    theta = np.degrees(np.arctan2(np.sqrt(normals[:, 0] ** 2 + normals[:, 1] ** 2), normals[:, 2]))

    psi = 90 + np.degrees(np.arctan2(normals[:, 1], normals[:, 0]))
    b_idx = np.where((normals[:, 0] == 0) & (normals[:, 1] == 0))
    psi[b_idx] = 0

    phi = np.random.rand(normals.shape[0]) * 360

    if output_order == "zzx":
        angles = np.column_stack((phi, psi, theta))
    else:
        angles = np.column_stack((phi, theta, psi))

    return angles


def cone_distance(input_rot1, input_rot2):
    point = [0, 0, 1.0]

    vec1 = np.array(input_rot1.apply(point), ndmin=2)
    vec2 = np.array(input_rot2.apply(point), ndmin=2)

    vec1_n = np.linalg.norm(vec1, axis=1)
    vec1 = vec1 / vec1_n[:, np.newaxis]
    vec2_n = np.linalg.norm(vec2, axis=1)
    vec2 = vec2 / vec2_n[:, np.newaxis]
    cone_angle = np.degrees(np.arccos(np.maximum(np.minimum(np.sum(vec1 * vec2, axis=1), 1.0), -1.0)))

    return cone_angle


def inplane_distance(input_rot1, input_rot2, convention="zxz", degrees=True, c_symmetry=1):
    phi1 = np.array(input_rot1.as_euler(convention, degrees=degrees), ndmin=2)[:, 0]
    phi2 = np.array(input_rot2.as_euler(convention, degrees=degrees), ndmin=2)[:, 0]

    # Remove flot precision errors during conversion
    phi1 = np.where(abs(phi1) < ANGLE_DEGREES_TOL, 0.0, phi1)
    phi2 = np.where(abs(phi2) < ANGLE_DEGREES_TOL, 0.0, phi2)

    # From Scipy the phi is from [-180,180] -> change to [0.0,360]
    phi1 += 180.0
    phi2 += 180.0

    # Get the angular range for symmetry and divide the angles to be only in that range
    if c_symmetry > 1:
        sym_div = 360.0 / c_symmetry
        phi1 = np.mod(phi1, sym_div)
        phi2 = np.mod(phi2, sym_div)

    inplane_angle = np.abs(phi1 - phi2)

    inplane_angle = np.where(inplane_angle > 180.0, np.abs(inplane_angle - 360.0), inplane_angle)

    return inplane_angle


def cone_inplane_distance(input_rot1, input_rot2, convention="zxz", degrees=True, c_symmetry=1):
    if isinstance(input_rot1, np.ndarray):
        rot1 = srot.from_euler(convention, input_rot1, degrees=degrees)
    else:
        rot1 = input_rot1

    if isinstance(input_rot2, np.ndarray):
        rot2 = srot.from_euler(convention, input_rot2, degrees=degrees)
    else:
        rot2 = input_rot2

    cone_angle = cone_distance(rot1, rot2)
    inplane_angle = inplane_distance(rot1, rot2, convention, degrees, c_symmetry)

    return cone_angle, inplane_angle


def angular_distance(input_rot1, input_rot2, convention="zxz", degrees=True, c_symmetry=1):
    if isinstance(input_rot1, np.ndarray):
        rot1 = srot.from_euler(convention, input_rot1, degrees=degrees)
    else:
        rot1 = input_rot1

    if isinstance(input_rot2, np.ndarray):
        rot2 = srot.from_euler(convention, input_rot2, degrees=degrees)
    else:
        rot2 = input_rot2

    if c_symmetry > 1:
        angles1 = rot1.as_euler(convention, degrees=degrees)
        angles2 = rot2.as_euler(convention, degrees=degrees)
        sym_div = 360.0 / c_symmetry
        angles1[:, 0] = np.mod(angles1[:, 0], sym_div)
        angles2[:, 0] = np.mod(angles2[:, 0], sym_div)
        rot1 = srot.from_euler(convention, angles1, degrees=degrees)
        rot2 = srot.from_euler(convention, angles2, degrees=degrees)

    q1 = np.array(rot1.as_quat(), ndmin=2)
    q2 = np.array(rot2.as_quat(), ndmin=2)

    if q1.shape != q2.shape:
        print("The size of input rotations differ!!!")
        return

    angle = np.degrees(2 * np.arccos(np.clip(np.abs(np.sum(q1 * q2, axis=1)), 0.0, 1.0)))
    angle = angle.astype(float)

    dist = 1 - np.power(np.sum(q1 * q2, 1), 2)

    dist[dist < 10e-8] = 0

    return angle, dist


def visualize_rotations(
    rotations,
    plot_rotations=True,
    color_map=None,
    marker_size=20,
    alpha=1.0,
    radius=1.0,
):
    starting_point = np.array([0.0, 0.0, radius])
    new_points = np.array(rotations.apply(starting_point), ndmin=2)

    if plot_rotations:
        fig = plt.figure()
        ax = fig.add_subplot(projection="3d")

        if color_map is None:
            ax.scatter(
                new_points[:, 0],
                new_points[:, 1],
                new_points[:, 2],
                s=marker_size,
                alpha=alpha,
            )
        else:
            ax.scatter(
                new_points[:, 0],
                new_points[:, 1],
                new_points[:, 2],
                s=marker_size,
                alpha=alpha,
                c=color_map,
            )
            # plt.colorbar(color_map)

        ax.set_xlim3d(-radius, radius)
        ax.set_ylim3d(-radius, radius)
        ax.set_zlim3d(-radius, radius)

    return new_points


def visualize_angles(angles, plot_rotations=True, color_map=None):
    rotations = srot.from_euler("zxz", angles=angles, degrees=True)
    new_points = visualize_rotations(rotations, plot_rotations, color_map)

    return new_points
'''
ORIG = dict(vars(geom))
exec(compile(ORIG_SRC, "<original geom functions>", "exec"), ORIG)

FAILS = []
NCHECK = [0]
TOL = 1e-5  # degrees; 2*acos / acos lose about sqrt(eps) rad ~ 1e-6 deg close to 0 and 180 degrees


def check(cond, msg):
    NCHECK[0] += 1
    if not bool(cond):
        if len(FAILS) < 30:
            FAILS.append(msg)


def same(a, b):
    """Exact equality of two results (arrays, tuples of arrays, None)."""
    if a is None or b is None:
        return a is None and b is None
    if isinstance(a, tuple) or isinstance(b, tuple):
        return isinstance(a, tuple) and isinstance(b, tuple) and len(a) == len(b) and all(same(x, y) for x, y in zip(a, b))
    a = np.asarray(a)
    b = np.asarray(b)
    return a.shape == b.shape and a.dtype == b.dtype and np.array_equal(a, b)


def both(name, *args, **kwargs):
    """Call the imported function and the original text on the same inputs; they must agree exactly."""
    buf1, buf2 = io.StringIO(), io.StringIO()
    with contextlib.redirect_stdout(buf1):
        new = getattr(geom, name)(*args, **kwargs)
    with contextlib.redirect_stdout(buf2):
        old = ORIG[name](*args, **kwargs)
    check(same(new, old), f"{name}: imported function differs from the original text, kwargs={kwargs}")
    check(buf1.getvalue() == buf2.getvalue(), f"{name}: printed output differs from the original")
    return new


# --------------------------------------------------------------------------------------------------------------------
# independent ground truth
# --------------------------------------------------------------------------------------------------------------------
def gt_rotation_angle(r1, r2):
    """Rotation angle (degrees) of the relative rotation, from the rotation matrices (atan2, well conditioned)."""
    m = np.einsum("nji,njk->nik", r1.as_matrix().reshape(-1, 3, 3), r2.as_matrix().reshape(-1, 3, 3))
    tr = np.trace(m, axis1=1, axis2=2)
    skew = np.stack([m[:, 2, 1] - m[:, 1, 2], m[:, 0, 2] - m[:, 2, 0], m[:, 1, 0] - m[:, 0, 1]], axis=1)
    s = np.linalg.norm(skew, axis=1) / 2.0
    c = (tr - 1.0) / 2.0
    ang = np.degrees(np.arctan2(s, c))
    # close to 180 degrees sin is tiny but atan2 is still fine
    return ang


def gt_vector_angle(v1, v2):
    cr = np.linalg.norm(np.cross(v1, v2), axis=1)
    dt = np.sum(v1 * v2, axis=1)
    return np.degrees(np.arctan2(cr, dt))


def zaxis(rot):
    return rot.as_matrix().reshape(-1, 3, 3)[:, :, 2]


# --------------------------------------------------------------------------------------------------------------------
# rotation families of the quantifier
# --------------------------------------------------------------------------------------------------------------------
rng = np.random.default_rng(20240606)


def cube_rotations():
    mats = []
    for perm in itertools.permutations(range(3)):
        for signs in itertools.product([1, -1], repeat=3):
            m = np.zeros((3, 3))
            for i, (p, s) in enumerate(zip(perm, signs)):
                m[i, p] = s
            if np.linalg.det(m) > 0:
                mats.append(m)
    assert len(mats) == 24
    return R.from_matrix(np.array(mats))


def euler_lattice():
    phi, theta, psi = np.meshgrid(np.arange(0, 360, 45), np.arange(0, 181, 45), np.arange(0, 360, 45), indexing="ij")
    return np.column_stack([phi.ravel(), theta.ravel(), psi.ravel()]).astype(float)


def random_rot(n):
    return R.random(n, random_state=int(rng.integers(0, 2**31 - 1)))


def pair_families():
    fams = {}
    for n in (1, 2, 7, 100, 500):
        fams[f"random{n}"] = (random_rot(n), random_rot(n))
    a = random_rot(200)
    tiny = R.from_rotvec(rng.normal(size=(200, 3)) * rng.choice([1e-12, 1e-9, 1e-6, 1e-3], size=(200, 1)))
    fams["near_identical"] = (a, a * tiny)
    fams["equal"] = (a, a)
    ax = rng.normal(size=(200, 3))
    ax /= np.linalg.norm(ax, axis=1, keepdims=True)
    fams["antipodal180"] = (a, a * R.from_rotvec(ax * np.pi))
    fams["almost180"] = (a, a * R.from_rotvec(ax * (np.pi - 1e-7)))
    g1 = np.column_stack([rng.uniform(-180, 180, 120), rng.choice([0.0, 180.0], 120), rng.uniform(-180, 180, 120)])
    g2 = np.column_stack([rng.uniform(-180, 180, 120), rng.choice([0.0, 180.0], 120), rng.uniform(-180, 180, 120)])
    fams["gimbal"] = (R.from_euler("zxz", g1, degrees=True), R.from_euler("zxz", g2, degrees=True))
    fams["gimbal_vs_random"] = (R.from_euler("zxz", g1, degrees=True), random_rot(120))
    cube = cube_rotations()
    i, j = np.meshgrid(np.arange(24), np.arange(24), indexing="ij")
    fams["cube24x24"] = (cube[i.ravel()], cube[j.ravel()])
    lat = euler_lattice()
    perm = rng.permutation(len(lat))
    fams["lattice45"] = (R.from_euler("zxz", lat, degrees=True), R.from_euler("zxz", lat[perm], degrees=True))
    return fams


FAMS = pair_families()

# --------------------------------------------------------------------------------------------------------------------
# 1. angular distance: value, range, symmetry, identity, bi-invariance, triangle inequality
# --------------------------------------------------------------------------------------------------------------------
for name, (r1, r2) in FAMS.items():
    n = len(r1)
    res = both("angular_distance", r1, r2)
    check(isinstance(res, tuple) and len(res) == 2, f"{name}: angular_distance does not return a pair")
    ang, dist = res
    check(ang.shape == (n,) and ang.dtype == np.float64, f"{name}: angular_distance shape/dtype {ang.shape} {ang.dtype}")
    gt = gt_rotation_angle(r1, r2)
    check(np.all(np.abs(ang - gt) < TOL), f"{name}: angular distance != rotation angle of relative rotation, max err {np.abs(ang - gt).max()}")
    check(np.all(ang >= 0.0) and np.all(ang <= 180.0), f"{name}: angular distance outside [0,180]")
    check(np.all(np.abs(ang - (r1.inv() * r2).magnitude() * 180 / np.pi) < TOL), f"{name}: differs from scipy magnitude")
    # symmetry (exact: the quaternion dot product is commutative)
    ang_sw = both("angular_distance", r2, r1)[0]
    check(np.array_equal(ang, ang_sw), f"{name}: angular distance not symmetric")
    # repeated call on the same objects
    ang_again = geom.angular_distance(r1, r2)[0]
    check(np.array_equal(ang, ang_again), f"{name}: repeated call gives a different result")
    # zero for equal rotations
    self_d = both("angular_distance", r1, r1)[0]
    check(np.all(np.abs(self_d) < TOL), f"{name}: d(r,r) != 0 (max {np.abs(self_d).max()})")
    # second output consistent with the first: sin^2(angle/2)
    check(np.all(np.abs(dist - np.where(np.sin(np.radians(gt) / 2) ** 2 < 10e-8, 0, np.sin(np.radians(gt) / 2) ** 2)) < 1e-6), f"{name}: dist output")
    # invariance under a common rotation on either side (one common rotation and one per pair)
    for g in (random_rot(1)[0], random_rot(n)):
        gl = g if not g.single else R.from_quat(np.tile(g.as_quat(), (n, 1)))
        left = both("angular_distance", gl * r1, gl * r2)[0]
        right = both("angular_distance", r1 * gl, r2 * gl)[0]
        check(np.all(np.abs(left - ang) < TOL), f"{name}: not left invariant, max {np.abs(left - ang).max()}")
        check(np.all(np.abs(right - ang) < TOL), f"{name}: not right invariant, max {np.abs(right - ang).max()}")
    # triangle inequality with a third rotation (random, and the first one perturbed)
    for r3 in (random_rot(n), r1 * R.from_rotvec(rng.normal(size=(n, 3)) * 1e-3)):
        d13 = both("angular_distance", r1, r3)[0]
        d32 = both("angular_distance", r3, r2)[0]
        check(np.all(ang <= d13 + d32 + TOL), f"{name}: triangle inequality violated")
    # Euler-angle (ndarray) inputs give the same result as Rotation inputs built from them
    e1 = r1.as_euler("zxz", degrees=True)
    e2 = r2.as_euler("zxz", degrees=True)
    e1c, e2c = e1.copy(), e2.copy()
    ang_e = both("angular_distance", e1, e2)[0]
    check(np.array_equal(e1, e1c) and np.array_equal(e2, e2c), f"{name}: angular_distance modified its inputs")
    check(np.all(np.abs(ang_e - ang) < 1e-4), f"{name}: ndarray input differs from Rotation input")
    ang_mixed = both("angular_distance", e1, r2)[0]
    check(np.all(np.abs(ang_mixed - ang) < 1e-4), f"{name}: mixed input differs")
    # other convention / radians for ndarray inputs
    x1 = r1.as_euler("ZYZ", degrees=False)
    x2 = r2.as_euler("ZYZ", degrees=False)
    ang_x = both("angular_distance", x1, x2, convention="ZYZ", degrees=False)[0]
    check(np.all(np.abs(ang_x - ang) < 1e-4), f"{name}: ZYZ radians input differs")
    # C-symmetry: result is the distance of the phi-reduced rotations (independent computation), symmetric, in range
    for c in (1, 2, 3, 4, 6, 7):
        res_c = both("angular_distance", r1, r2, c_symmetry=c)
        res_ck = both("angular_distance", e1, e2, "zxz", True, c)
        check(np.array_equal(e1, e1c) and np.array_equal(e2, e2c), f"{name}: angular_distance(c={c}) modified its inputs")
        if c > 1:
            a1 = r1.as_euler("zxz", degrees=True)
            a2 = r2.as_euler("zxz", degrees=True)
            a1[:, 0] = np.mod(a1[:, 0], 360.0 / c)
            a2[:, 0] = np.mod(a2[:, 0], 360.0 / c)
            gtc = gt_rotation_angle(R.from_euler("zxz", a1, degrees=True), R.from_euler("zxz", a2, degrees=True))
            check(np.all(np.abs(res_c[0] - gtc) < TOL), f"{name}: c_symmetry={c} value")
        else:
            check(np.array_equal(res_c[0], ang), f"{name}: c_symmetry=1 differs from default")
        check(np.all(res_c[0] >= 0) and np.all(res_c[0] <= 180), f"{name}: c_symmetry={c} range")
        check(np.array_equal(res_c[0], geom.angular_distance(r2, r1, c_symmetry=c)[0]), f"{name}: c_symmetry={c} symmetry")
        check(np.all(np.abs(geom.angular_distance(r1, r1, c_symmetry=c)[0]) < TOL), f"{name}: c_symmetry={c} identity")

# single (non-batched) rotations and single Euler triplets
for _ in range(50):
    s1, s2 = random_rot(1)[0], random_rot(1)[0]
    a = both("angular_distance", s1, s2)[0]
    check(a.shape == (1,) and abs(a[0] - gt_rotation_angle(s1, s2)[0]) < TOL, "single rotations: angular distance")
    e1 = s1.as_euler("zxz", degrees=True)
    e2 = s2.as_euler("zxz", degrees=True)
    a_e = both("angular_distance", e1, e2)[0]
    check(abs(a_e[0] - a[0]) < 1e-4, "single Euler triplets: angular distance")
    c, i = both("cone_inplane_distance", e1, e2)
    check(abs(c[0] - gt_vector_angle(zaxis(s1), zaxis(s2))[0]) < TOL, "single Euler triplets: cone distance")
    check(0 <= i[0] <= 180, "single Euler triplets: inplane range")
    t = both("compare_rotations", e1, e2)
    check(abs(t[0][0] - a[0]) < 1e-4, "single compare_rotations")
# docstring example
check(abs(geom.angular_distance(R.from_euler("zxz", [0, 0, 0], degrees=True), R.from_euler("zxz", [45, 45, 0], degrees=True))[0][0] - gt_rotation_angle(R.identity(), R.from_euler("zxz", [45, 45, 0], degrees=True))[0]) < TOL, "docstring example")
# sizes differ: message + None (outside the quantifier, behaviour kept anyway)
both("angular_distance", random_rot(3), random_rot(4))

# --------------------------------------------------------------------------------------------------------------------
# 2. cone distance, in-plane distance, cone_inplane_distance, compare_rotations
# --------------------------------------------------------------------------------------------------------------------
for name, (r1, r2) in FAMS.items():
    n = len(r1)
    cone = both("cone_distance", r1, r2)
    gtc = gt_vector_angle(zaxis(r1), zaxis(r2))
    check(cone.shape == (n,), f"{name}: cone shape")
    check(np.all(np.abs(cone - gtc) < TOL), f"{name}: cone distance != angle between z-axes, max {np.abs(cone - gtc).max()}")
    check(np.all(cone >= 0) and np.all(cone <= 180), f"{name}: cone range")
    check(np.array_equal(cone, both("cone_distance", r2, r1)), f"{name}: cone symmetric")
    check(np.all(np.abs(both("cone_distance", r1, r1)) < TOL), f"{name}: cone(r,r) != 0")
    # cone distance does not depend on in-plane rotation (rotation about the particle z-axis)
    spin = R.from_euler("z", rng.uniform(-180, 180, size=(n, 1)), degrees=True)
    check(np.all(np.abs(both("cone_distance", r1 * spin, r2) - cone) < TOL), f"{name}: cone depends on in-plane rotation")
    # invariant under a common rotation on the left
    g = random_rot(n)
    check(np.all(np.abs(both("cone_distance", g * r1, g * r2) - cone) < TOL), f"{name}: cone not left invariant")

    for conv in ("zxz", "ZXZ", "zyz"):
        for c in (1, 2, 3, 5, 6, 12):
            inpl = both("inplane_distance", r1, r2, conv, True, c)
            check(inpl.shape == (n,), f"{name}: inplane shape")
            check(np.all(inpl >= 0) and np.all(inpl <= 180.0), f"{name}: inplane outside [0,180] ({conv}, c={c})")
            if c > 1:
                check(np.all(inpl <= 360.0 / c), f"{name}: inplane larger than symmetry range ({conv}, c={c})")
            check(np.all(both("inplane_distance", r1, r1, conv, True, c) == 0.0), f"{name}: inplane(r,r) != 0 ({conv}, c={c})")
            check(np.array_equal(inpl, both("inplane_distance", r2, r1, conv, True, c)), f"{name}: inplane not symmetric")
            # independent value: wrapped difference of the first Euler angles
            p1 = np.atleast_2d(r1.as_euler(conv, degrees=True))[:, 0]
            p2 = np.atleast_2d(r2.as_euler(conv, degrees=True))[:, 0]
            p1 = np.where(np.abs(p1) < 10e-12, 0.0, p1) + 180.0
            p2 = np.where(np.abs(p2) < 10e-12, 0.0, p2) + 180.0
            if c > 1:
                p1, p2 = np.mod(p1, 360.0 / c), np.mod(p2, 360.0 / c)
            d = np.abs(p1 - p2)
            gti = np.array([x if x <= 180.0 else 360.0 - x for x in d])
            check(np.all(np.abs(inpl - gti) < 1e-9), f"{name}: inplane value ({conv}, c={c})")
    inpl_rad = both("inplane_distance", r1, r2, degrees=False)
    check(inpl_rad.shape == (n,), f"{name}: inplane radians shape")

    # cone_inplane_distance / compare_rotations: Rotation and ndarray inputs
    e1 = r1.as_euler("zxz", degrees=True)
    e2 = r2.as_euler("zxz", degrees=True)
    e1c, e2c = e1.copy(), e2.copy()
    for c in (1, 2, 4):
        ci = both("cone_inplane_distance", r1, r2, c_symmetry=c)
        check(np.array_equal(ci[0], cone), f"{name}: cone_inplane_distance cone part")
        check(np.array_equal(ci[1], geom.inplane_distance(r1, r2, c_symmetry=c)), f"{name}: cone_inplane_distance inplane part")
        cie = both("cone_inplane_distance", e1, e2, c_symmetry=c)
        check(np.all(np.abs(cie[0] - gtc) < 1e-4), f"{name}: cone_inplane_distance ndarray cone part")
        check(np.all((cie[1] >= 0) & (cie[1] <= 180)), f"{name}: cone_inplane_distance ndarray inplane range")
        both("cone_inplane_distance", e1, r2, c_symmetry=c)
        both("cone_inplane_distance", r1, e2, "zxz", True, c)
        allr = both("compare_rotations", r1, r2, c_symmetry=c)
        check(len(allr) == 3, f"{name}: compare_rotations all")
        check(np.array_equal(allr[0], geom.angular_distance(r1, r2, c_symmetry=c)[0]), f"{name}: compare_rotations[0]")
        check(np.array_equal(allr[1], cone), f"{name}: compare_rotations[1]")
        check(np.array_equal(allr[2], ci[1]), f"{name}: compare_rotations[2]")
        for k, rt in enumerate(("angular_distance", "cone_distance", "in_plane_distance")):
            one = both("compare_rotations", r1, r2, c, rt)
            check(np.array_equal(one, allr[k]), f"{name}: compare_rotations {rt}")
            one_e = both("compare_rotations", e1, e2, c_symmetry=c, rotation_type=rt)
            check(one_e.shape == (n,), f"{name}: compare_rotations ndarray {rt}")
        check(np.array_equal(e1, e1c) and np.array_equal(e2, e2c), f"{name}: inputs modified")
    for fn in (geom.compare_rotations, ORIG["compare_rotations"]):
        try:
            fn(r1, r2, rotation_type="nonsense")
            check(False, "compare_rotations: unsupported rotation_type does not raise")
        except UserInputError:
            check(True, "")

# --------------------------------------------------------------------------------------------------------------------
# 3. euler_angles_to_normals / visualize_angles / visualize_rotations
# --------------------------------------------------------------------------------------------------------------------
angle_sets = [rng.uniform(-360, 360, size=(n, 3)) for n in (1, 2, 3, 10, 499, 500)]
angle_sets.append(euler_lattice())
angle_sets.append(cube_rotations().as_euler("zxz", degrees=True))
angle_sets.append(np.column_stack([rng.uniform(-180, 180, 60), rng.choice([0.0, 180.0], 60), rng.uniform(-180, 180, 60)]))
angle_sets.append(np.array([[0.0, 0.0, 0.0]]))
angle_sets.append(np.array([[0, 90, 0], [10, 180, 20], [0, 0, 45]]))  # integer dtype
for ang in angle_sets:
    n = ang.shape[0]
    ang_c = ang.copy()
    nrm = both("euler_angles_to_normals", ang)
    gtz = zaxis(R.from_euler("zxz", ang, degrees=True))
    check(nrm.shape == (n, 3), f"euler_angles_to_normals: shape {nrm.shape} for n={n}")
    check(np.all(np.abs(np.linalg.norm(nrm, axis=1) - 1.0) < 1e-12), f"euler_angles_to_normals: not unit vectors (n={n})")
    check(np.all(np.abs(nrm - gtz) < 1e-12), f"euler_angles_to_normals: not the image of the z-axis (n={n})")
    # explicit formula for zxz: z-axis image = (sin(theta) sin(phi)... ) computed via elementary matrices
    ph, th, ps = np.radians(ang.astype(float)).T
    # extrinsic zxz: R = Rz(psi) Rx(theta) Rz(phi); R e_z = Rz(psi) (0, -sin(theta), cos(theta))
    expl = np.column_stack([np.sin(ps) * np.sin(th), -np.cos(ps) * np.sin(th), np.cos(th)])
    check(np.all(np.abs(nrm - expl) < 1e-12), f"euler_angles_to_normals: differs from closed formula (n={n})")
    check(np.array_equal(nrm, geom.euler_angles_to_normals(ang)), "euler_angles_to_normals: repeated call differs")
    check(np.array_equal(ang, ang_c), "euler_angles_to_normals modified its input")
    pts = both("visualize_angles", ang, plot_rotations=False)
    check(pts.shape == (n, 3) and np.all(np.abs(pts - gtz) < 1e-12), "visualize_angles: z-axis image")
    rots = R.from_euler("zxz", ang, degrees=True)
    for radius in (1.0, 0.5, 3.0):
        p = both("visualize_rotations", rots, plot_rotations=False, radius=radius)
        check(p.shape == (n, 3) and np.all(np.abs(p - radius * gtz) < 1e-12), f"visualize_rotations: radius {radius}")
    if n <= 10:
        nfig = len(plt.get_fignums())
        p1 = both("visualize_rotations", rots)
        p2 = both("visualize_rotations", rots, True, np.arange(n), 5, 0.5, 2.0)
        p3 = both("visualize_angles", ang, color_map=np.linspace(0, 1, n))
        p4 = both("visualize_angles", ang)
        check(np.all(np.abs(p1 - gtz) < 1e-12) and np.all(np.abs(p2 - 2.0 * gtz) < 1e-12), "visualize_rotations (plot) values")
        check(np.all(np.abs(p3 - gtz) < 1e-12) and np.array_equal(p3, p4), "visualize_angles (plot) values")
        check(len(plt.get_fignums()) == nfig + 8, "each plotting call opens exactly one figure")
        # the scatter of the newest figure holds the points, limits are +-radius
        ax = plt.gcf().axes[0]
        check(len(ax.collections) == 1, "one scatter collection")
        check(np.allclose(ax.get_xlim3d(), (-1.0, 1.0)) and np.allclose(ax.get_zlim3d(), (-1.0, 1.0)), "axis limits")
        plt.close("all")
# single rotation object
sr = R.from_euler("zxz", [30.0, 60.0, 90.0], degrees=True)
p = both("visualize_rotations", sr, plot_rotations=False)
check(p.shape == (1, 3) and np.all(np.abs(p - zaxis(sr)) < 1e-12), "visualize_rotations: single rotation")
p = both("euler_angles_to_normals", np.array([30.0, 60.0, 90.0]))
check(p.shape == (1, 3) and np.all(np.abs(p - zaxis(sr)) < 1e-12), "euler_angles_to_normals: single triplet")

# --------------------------------------------------------------------------------------------------------------------
# 4. normals_to_euler_angles
# --------------------------------------------------------------------------------------------------------------------
normal_sets = []
for n in (1, 2, 5, 100, 500):
    normal_sets.append(rng.normal(size=(n, 3)) * rng.choice([1e-6, 1e-3, 1.0, 7.5, 1e4], size=(n, 1)))
axis_al = np.array([[1, 0, 0], [-1, 0, 0], [0, 1, 0], [0, -1, 0], [0, 0, 1], [0, 0, -1], [0, 0, 2.5], [0, 0, -1e-3],
                    [3, 0, 0], [0, -4, 0], [1, 1, 0], [1, 0, 1], [0, 1, 1], [-1, -1, -1], [0, 1e-300, 1], [-0.0, 0.0, 1.0],
                    [0.0, -0.0, -1.0], [1e-9, 0, 1]], dtype=float)
normal_sets.append(axis_al)
normal_sets.append(np.array([[1, 0, 0], [0, -2, 0], [0, 0, 3], [0, 0, -1], [1, 1, 0], [-1, 2, -3], [4, 0, -4]]))  # integer dtype
normal_sets.append(zaxis(cube_rotations()))
normal_sets.append(zaxis(R.from_euler("zxz", euler_lattice(), degrees=True)))
seed = 1000
for nv in normal_sets:
    n = nv.shape[0]
    unit = nv / np.linalg.norm(nv.astype(float), axis=1, keepdims=True)
    df = pd.DataFrame({"w": np.arange(n), "z": nv[:, 2], "y": nv[:, 1], "x": nv[:, 0]}, index=np.arange(n)[::-1] * 3 + 7)
    for inp, label in ((nv, "ndarray"), (df, "DataFrame")):
        inp_c = inp.copy()
        for order in ("zxz", "zzx", "other"):
            seed += 1
            np.random.seed(seed)
            new = geom.normals_to_euler_angles(inp, output_order=order) if order != "zxz" else geom.normals_to_euler_angles(inp)
            state_new = np.random.get_state()[1].copy()
            np.random.seed(seed)
            old = ORIG["normals_to_euler_angles"](inp, output_order=order)
            state_old = np.random.get_state()[1].copy()
            check(same(new, old), f"normals_to_euler_angles ({label}, {order}, n={n}): differs from the original")
            check(np.array_equal(state_new, state_old), "normals_to_euler_angles: consumes the global RNG differently")
            check(new.shape == (n, 3), f"normals_to_euler_angles: shape {new.shape}")
            zxz = new[:, [0, 2, 1]] if order == "zzx" else new
            back = zaxis(R.from_euler("zxz", zxz, degrees=True))
            check(np.all(np.abs(back - unit) < 1e-9), f"normals_to_euler_angles ({label}, {order}, n={n}): z-axis != normalised normal, max {np.abs(back - unit).max()}")
            check(np.all((zxz[:, 0] >= 0) & (zxz[:, 0] < 360)), "phi range")
            check(np.all((zxz[:, 1] >= 0) & (zxz[:, 1] <= 180)), "theta range")
            pz = (unit[:, 0] == 0) & (unit[:, 1] == 0)
            check(np.all(zxz[pz, 2] == 0), "psi is 0 for +-z normals")
            # round trip through euler_angles_to_normals
            rt = geom.euler_angles_to_normals(zxz)
            check(np.all(np.abs(rt - unit) < 1e-9), "normals -> angles -> normals round trip")
        if isinstance(inp, pd.DataFrame):
            check(inp.equals(inp_c) and list(inp.columns) == list(inp_c.columns) and inp.index.equals(inp_c.index), "DataFrame input modified")
        else:
            check(np.array_equal(inp, inp_c) and inp.dtype == inp_c.dtype, "ndarray input modified")
for bad in ([[0, 0, 1]], (1, 2, 3), "xyz", None):
    for fn in (geom.normals_to_euler_angles, ORIG["normals_to_euler_angles"]):
        try:
            fn(bad)
            check(False, "normals_to_euler_angles: unsupported input type does not raise")
        except UserInputError:
            check(True, "")

# --------------------------------------------------------------------------------------------------------------------
# 5. large randomised exact comparison with the original texts; scatter artists of the plotting path
# --------------------------------------------------------------------------------------------------------------------
big1, big2 = random_rot(100000), random_rot(100000)
both("angular_distance", big1, big2)
both("angular_distance", big1, big2, c_symmetry=5)
both("cone_distance", big1, big2)
for c in (1, 2, 3, 8):
    both("inplane_distance", big1, big2, c_symmetry=c)
    both("compare_rotations", big1.as_euler("zxz", degrees=True), big2.as_euler("zxz", degrees=True), c_symmetry=c)
both("euler_angles_to_normals", big1.as_euler("zxz", degrees=True))
bign = rng.normal(size=(100000, 3))
bign[::1000, :2] = 0.0
for inp in (bign, bign.astype(np.float32), pd.DataFrame(bign[:, ::-1], columns=["z", "y", "x"], index=np.arange(100000) + 5)):
    np.random.seed(77)
    new = geom.normals_to_euler_angles(inp)
    np.random.seed(77)
    old = ORIG["normals_to_euler_angles"](inp)
    check(same(new, old), "normals_to_euler_angles (large): differs from the original")
    arr = inp[["x", "y", "z"]].to_numpy() if isinstance(inp, pd.DataFrame) else inp.astype(float)
    unit = arr / np.linalg.norm(arr, axis=1, keepdims=True)
    check(np.all(np.abs(zaxis(R.from_euler("zxz", new, degrees=True)) - unit) < 1e-6), "normals_to_euler_angles (large): z-axis")


def scatter_state(fn, *args, **kwargs):
    pts = fn(*args, **kwargs)
    ax = plt.gcf().axes[0]
    coll = ax.collections[0]
    off = [np.asarray(o, dtype=float) for o in coll._offsets3d]
    arr = coll.get_array()
    state = (pts, off, np.asarray(coll.get_sizes()), coll.get_alpha(), None if arr is None else np.asarray(arr, dtype=float),
             np.asarray(ax.get_xlim3d()), np.asarray(ax.get_ylim3d()), np.asarray(ax.get_zlim3d()))
    plt.close("all")
    return state


def same_state(s1, s2):
    ok = same(s1[0], s2[0]) and all(np.array_equal(a, b) for a, b in zip(s1[1], s2[1])) and np.array_equal(s1[2], s2[2])
    ok = ok and s1[3] == s2[3] and ((s1[4] is None and s2[4] is None) or (s1[4] is not None and s2[4] is not None and np.array_equal(s1[4], s2[4])))
    return ok and all(np.array_equal(a, b) for a, b in zip(s1[5:], s2[5:]))


rots = random_rot(12)
for kwargs in ({}, {"color_map": np.arange(12.0)}, {"marker_size": 3, "alpha": 0.25, "radius": 4.0},
               {"color_map": np.linspace(1, 0, 12), "marker_size": 50, "alpha": 0.5, "radius": 0.1}):
    s_new = scatter_state(geom.visualize_rotations, rots, **kwargs)
    s_old = scatter_state(ORIG["visualize_rotations"], rots, **kwargs)
    check(same_state(s_new, s_old), f"visualize_rotations: plotted scatter differs from the original for {sorted(kwargs)}")
    check(np.allclose(s_new[1][2], s_new[0][:, 2]) and s_new[2][0] == kwargs.get("marker_size", 20) and s_new[3] == kwargs.get("alpha", 1.0), "scatter artist properties")
    check((s_new[4] is None) == ("color_map" not in kwargs), "colour array only when a colour map is given")
    r = kwargs.get("radius", 1.0)
    check(np.allclose(s_new[5], (-r, r)) and np.allclose(s_new[7], (-r, r)), "axis limits follow the radius")

# --------------------------------------------------------------------------------------------------------------------
print(f"focus: {FOCUS}")
print(f"checks: {NCHECK[0]}, failures: {len(FAILS)}")
if FAILS:
    for f in FAILS:
        print("  FAIL:", f)
    print("FAIL")
    sys.exit(1)
print("PASS")
