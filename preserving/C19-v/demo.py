"""C19 demo: chain tracing partitions particles into simple, distance-respecting chains.

Run as:  cd /tmp/wt13/C19 && /venv/bin/python /tmp/seedsW/C19/<a|b>/demo.py

1. property check of cryocat.ribana.trace_chains against an independent computation (own distance
   computation from the entry / exit sites, own bookkeeping of order numbers and chains);
2. comparison of the functions in the tree (get_nn_dist, add_chain_suffix, add_chain_prefix, trace_chains)
   with a verbatim copy of the original functions on the same inputs (results, mutated tables, dtypes, index);
3. the caller's motls are left untouched, repeated calls give the same answer.
Prints PASS and exits 0 when everything holds.
"""
import sys, os

sys.path.insert(0, os.getcwd())
import copy
import warnings

warnings.filterwarnings("ignore")
import numpy as np
import pandas as pd
import sklearn.neighbors as sn
from cryocat import cryomotl, ribana

ORIG_TEXT = r'''
def get_nn_dist(kdt, query_point, dist_max, dist_min, active_points, test_value):
    id_max, dist = kdt.query_radius(query_point, dist_max, return_distance=True, sort_results=True)
    # id_max, dist = [a[0] for a in kdt.query_radius(query_point, dist_max, return_distance=True, sort_results=True)]
    id_max = id_max[0]
    dist = dist[0]
    if id_max.size == 0:
        return -1, []

    rp_idx = id_max[active_points[id_max] == test_value]
    rp_dist = dist[active_points[id_max] == test_value]

    if rp_idx.size == 0:
        return -1, []
    elif dist_min >= 0:  # the interval is open at its lower end also for dist_min == 0 (a site at distance 0 is not a neighbour)
        rp_idx = rp_idx[rp_dist > dist_min]
        rp_dist = rp_dist[rp_dist > dist_min]

    if rp_idx.size == 0:
        return -1, []
    else:
        return rp_idx[0], rp_dist[0]


def add_chain_suffix(
    chain_df,
    motl,
    traced_df,
    subtomo_id,
    current_dist,
    store_idx1="object_id",
    store_idx2="geom2",
    store_dist="geom4",
):
    particle_id = motl.df.loc[motl.df.index[subtomo_id], "subtomo_id"]

    temp_cl_id, order_id, previous_dist = traced_df.loc[
        traced_df["subtomo_id"] == particle_id, [store_idx1, store_idx2, store_dist]
    ].values[0]
    chain_max_order = np.max(traced_df.loc[traced_df[store_idx1] == temp_cl_id, [store_idx2]].values)

    if chain_max_order != order_id:  # the closest particle is not the last one
        if previous_dist <= current_dist:  # the original chain holds, do nothing
            return False
        else:  # the new chain is better, cut of the tail of the existing one
            current_class = chain_df[store_idx1].values[0]
            traced_df.loc[
                (traced_df[store_idx1] == temp_cl_id) & (traced_df[store_idx2] > order_id),
                store_idx1,
            ] = current_class
            # the tail keeps its order: the order numbers order_id + 1, order_id + 2, ... become 1, 2, ...
            traced_df.loc[(traced_df[store_idx1] == current_class), store_idx2] -= order_id
            chain_max_order = np.max(
                traced_df.loc[traced_df[store_idx1] == temp_cl_id, [store_idx2]].values
            )  # max changed in the meantime so has to be fetched again

    traced_df.loc[traced_df["subtomo_id"] == particle_id, store_dist] = (
        current_dist  # add distance to the last traced element from the chain (should be 0 before)
    )
    chain_df[store_idx1] = temp_cl_id
    chain_df[store_idx2] += chain_max_order

    return True  # chain was changed


def add_chain_prefix(
    chain_df,
    motl,
    traced_df,
    subtomo_id,
    current_dist,
    store_idx1="object_id",
    store_idx2="geom2",
    store_dist="geom4",
    class_max=None,
):
    # finding out class of the chain that should be appended to the current chain
    particle_id = motl.df.loc[motl.df.index[subtomo_id], "subtomo_id"]
    class_to_change = traced_df.loc[traced_df["subtomo_id"] == particle_id, store_idx1].values[0]

    order_id = traced_df.loc[traced_df["subtomo_id"] == particle_id, store_idx2].values[0]

    current_class = chain_df[store_idx1].values[0]
    cut_off_size = 0

    if order_id != 1:  # the closest particle is NOT the first one in the chain!
        # take the previous particle distance
        previous_dist = traced_df.loc[
            (traced_df[store_idx1] == class_to_change) & (traced_df[store_idx2] == order_id - 1),
            store_dist,
        ].values[0]

        if previous_dist <= current_dist:  # original particle closer -> do not append
            return -1
        else:  # the new particle is closer - change the class/object_id to the one from the current particle
            cut_off_size = traced_df.loc[
                (traced_df[store_idx1] == class_to_change) & (traced_df[store_idx2] < order_id)
            ].shape[0]
            if (
                class_max is None
            ):  # Only appending, the chain object_id value is not used and can be assing to the cut chain
                traced_df.loc[
                    (traced_df[store_idx1] == class_to_change) & (traced_df[store_idx2] < order_id),
                    store_idx1,
                ] = current_class
            else:  # Connectiong from both sides, the chain object_id was changed in the previoius append and cannot be used -> the input from current is used
                traced_df.loc[
                    (traced_df[store_idx1] == class_to_change) & (traced_df[store_idx2] < order_id),
                    store_idx1,
                ] = -1  # class_max[1]

    if class_max is None:
        chain_df[store_idx1] = class_to_change
        class_max = np.max(chain_df[store_idx2].values)
        traced_df.loc[traced_df[store_idx1] == class_to_change, [store_idx2]] += class_max - cut_off_size
    else:
        temp_cl_id = chain_df[store_idx1][0]
        traced_df.loc[traced_df[store_idx1] == class_to_change, [store_idx2]] += class_max[0] - cut_off_size
        traced_df.loc[traced_df[store_idx1] == class_to_change, [store_idx1]] = temp_cl_id
        if order_id != 1:
            traced_df.loc[traced_df[store_idx1] == -1, [store_idx1]] = class_max[1]  # class_to_change

    chain_df.loc[chain_df.index[-1], store_dist] = current_dist


def trace_chains(
    motl_entry,
    motl_exit,
    max_distance,
    min_distance=0,
    feature="tomo_id",
    output_motl=None,
    store_idx1="object_id",
    store_idx2="geom2",
    store_dist="geom4",
):
    motl_entry = cryomotl.Motl.load(motl_entry)
    motl_exit = cryomotl.Motl.load(motl_exit)

    features1 = np.unique(motl_entry.df.loc[:, feature])
    features2 = np.unique(motl_exit.df.loc[:, feature])

    if ~np.all(np.equal(features1, features2)):
        ValueError("Provided motls have different features sets!!!")

    traced_motl = cryomotl.Motl.create_empty_motl_df()

    for f in features1:
        # for f in np.array([2,274,405,423]):
        # for f in np.array([423]):
        # print(f)
        fm_entry = motl_entry.get_motl_subset(f, feature, reset_index=False)
        fm_exit = motl_exit.get_motl_subset(f, feature, reset_index=False)

        nfm_df = cryomotl.Motl.create_empty_motl_df()

        fm_size = fm_entry.df.shape[0]
        remain_entry = np.full((fm_size,), True)
        remain_exit = np.full((fm_size,), True)

        class_c = 1

        coord_entry = fm_entry.get_coordinates()
        coord_exit = fm_exit.get_coordinates()

        kdt_entry = sn.KDTree(coord_entry)
        kdt_exit = sn.KDTree(coord_exit)

        for i, current_point in enumerate(coord_exit):
            if ~remain_exit[i]:
                continue
            else:
                ch_m = cryomotl.Motl.create_empty_motl_df()  # create new chain motl df
                chain_id = 1  # assign chain id
                trace_chain = True
                p_idx = i
                used_idx = []
                # print(i)
                while trace_chain:
                    # take the particle from the exit list
                    # part_process = fm_exit.df.iloc[p_idx]

                    # add the same processed particle from entry list to the chain
                    ch_m = pd.concat([ch_m, fm_entry.df.iloc[[p_idx]]], ignore_index=True)

                    ch_m.loc[ch_m.index[-1], [store_idx2]] = chain_id
                    chain_id += 1

                    # remove currently processed point from both entry and exit
                    remain_entry[p_idx] = False
                    remain_exit[p_idx] = False
                    used_idx.append(p_idx)

                    # prepare coordinates
                    p_coord = coord_exit[p_idx, None, :]

                    if np.all(remain_entry == False):  # no remaining particles, end the chain
                        # np_idx = p_idx
                        np_idx = -1
                    else:
                        # search for the nearest active point
                        np_idx, np_dist = get_nn_dist(
                            kdt_entry,
                            p_coord,
                            max_distance,
                            min_distance,
                            remain_entry,
                            True,
                        )

                    if np_idx != -1:  # continue tracing
                        p_idx = np_idx
                        ch_m.loc[ch_m.index[-1], [store_dist]] = np_dist
                    else:  # end chain
                        ch_m.loc[:, store_idx1] = class_c
                        class_c += 1

                        if nfm_df.size != 0:  # check existing chains for connections
                            first_coord = (
                                ch_m.loc[ch_m.index[0], ["x", "y", "z"]].values
                                + ch_m.loc[ch_m.index[0], ["shift_x", "shift_y", "shift_z"]].values
                            )  # entry point
                            first_coord = first_coord.reshape(1, 3)
                            remain_entry[used_idx] = True
                            remain_exit[used_idx] = True
                            # check if this chain cannot be connected to already an existing one
                            # This can happen if the chain is started "in the middle"
                            nm_idx, nm_dist = get_nn_dist(
                                kdt_entry,
                                p_coord,
                                max_distance,
                                min_distance,
                                remain_entry,
                                False,
                            )
                            first_idx, first_dist = get_nn_dist(
                                kdt_exit,
                                first_coord,
                                max_distance,
                                min_distance,
                                remain_exit,
                                False,
                            )

                            remain_entry[used_idx] = False
                            remain_exit[used_idx] = False

                            # rather rare case where a single particle wants to connect to the same particle in a chain
                            if first_idx == nm_idx and first_idx != -1 and ch_m.shape[0] == 1:
                                if first_dist <= nm_dist:
                                    nm_idx = -1  # add only suffix
                                else:
                                    first_idx = -1  # add only prefix
                            elif first_idx != -1 and nm_idx != -1:
                                part1 = fm_exit.df.loc[fm_exit.df.index[first_idx], "subtomo_id"]
                                part2 = fm_entry.df.loc[fm_entry.df.index[nm_idx], "subtomo_id"]
                                cl1 = nfm_df.loc[nfm_df["subtomo_id"] == part1, store_idx1].values[0]
                                cl2 = nfm_df.loc[nfm_df["subtomo_id"] == part2, store_idx1].values[0]
                                if cl1 == cl2:
                                    if first_dist <= nm_dist:
                                        nm_idx = -1  # add only suffix
                                    else:
                                        first_idx = -1  # add only prefix

                            ch_changed = False  # default is no chain change

                            if first_idx != -1:  # appneding the chain after an existing one
                                ch_changed = add_chain_suffix(
                                    ch_m,
                                    fm_exit,
                                    nfm_df,
                                    first_idx,
                                    first_dist,
                                    store_idx1,
                                    store_idx2,
                                )

                            if nm_idx != -1:  # connecting the chain before an existing one

                                class_max = None

                                # they connect from both sides
                                if ch_changed:
                                    current_class = class_c - 1
                                    cl_max = np.max(ch_m[store_idx2].values)
                                    if cl_max > 1:
                                        if (nfm_df[store_idx1] == current_class).any():
                                            # the number went to a tail cut off by add_chain_suffix, a cut-off head needs its own
                                            current_class = class_c
                                            class_c += 1
                                        class_max = (cl_max, current_class)

                                add_chain_prefix(
                                    ch_m,
                                    fm_entry,
                                    nfm_df,
                                    nm_idx,
                                    nm_dist,
                                    store_idx1,
                                    store_idx2,
                                    class_max=class_max,
                                )

                        nfm_df = pd.concat([nfm_df, ch_m])
                        trace_chain = False

        traced_motl = pd.concat([traced_motl, nfm_df])

    traced_motl = cryomotl.Motl(motl_df=traced_motl)

    if output_motl is not None:
        traced_motl.write_to_emfile(output_motl)

    return traced_motl

'''

_ns = {"np": np, "pd": pd, "cryomotl": cryomotl, "sn": sn}
exec(compile(ORIG_TEXT, "<original ribana chain tracing>", "exec"), _ns)
orig_get_nn_dist = _ns["get_nn_dist"]
orig_add_chain_suffix = _ns["add_chain_suffix"]
orig_add_chain_prefix = _ns["add_chain_prefix"]
orig_trace_chains = _ns["trace_chains"]

TOL = 1e-9
failures = []
stats = dict(cases=0, particles=0, links=0, chains=0, suffix_calls=0, suffix_refused=0, suffix_cut=0,
             prefix_calls=0, prefix_refused=0, prefix_cut=0, prefix_both=0, prefix_both_cut=0, nn_calls=0,
             tomos_without_links_after_links=0, single_particle_tomos=0)


def fail(msg):
    failures.append(msg)
    if len(failures) <= 15:
        print("FAIL:", msg)


# ---------------------------------------------------------------------------------------------------------
# helper comparison: every call the tree's trace_chains makes to a helper is replayed on the original helper
# ---------------------------------------------------------------------------------------------------------
def same_frame(a, b):
    try:
        pd.testing.assert_frame_equal(a, b, check_exact=True)
        return True
    except AssertionError:
        return False


def same_value(a, b):
    if isinstance(a, (list, tuple)) or isinstance(b, (list, tuple)):
        if type(a) is not type(b) or len(a) != len(b):
            return False
        return all(same_value(x, y) for x, y in zip(a, b))
    if a is None or b is None:
        return a is b
    return type(a) is type(b) and bool(np.all(np.asarray(a) == np.asarray(b)))


_tree_get_nn_dist = ribana.get_nn_dist
_tree_add_chain_suffix = ribana.add_chain_suffix
_tree_add_chain_prefix = ribana.add_chain_prefix


def hooked_get_nn_dist(kdt, query_point, dist_max, dist_min, active_points, test_value):
    stats["nn_calls"] += 1
    q0, a0 = query_point.copy(), active_points.copy()
    res = _tree_get_nn_dist(kdt, query_point, dist_max, dist_min, active_points, test_value)
    if not (np.array_equal(q0, query_point) and np.array_equal(a0, active_points)):
        fail("get_nn_dist changed its arguments")
    ref = orig_get_nn_dist(kdt, q0, dist_max, dist_min, a0, test_value)
    if not same_value(res, ref):
        fail(f"get_nn_dist differs from the original: {res!r} vs {ref!r}")
    return res


def hooked_add_chain_suffix(chain_df, motl, traced_df, subtomo_id, current_dist, *args, **kwargs):
    stats["suffix_calls"] += 1
    c0, t0, m0 = chain_df.copy(deep=True), traced_df.copy(deep=True), motl.df.copy(deep=True)
    max_before = t0.groupby("object_id")["geom2"].max().to_dict()
    res = _tree_add_chain_suffix(chain_df, motl, traced_df, subtomo_id, current_dist, *args, **kwargs)
    ref = orig_add_chain_suffix(c0, motl, t0, subtomo_id, current_dist, *args, **kwargs)
    if res is not ref and not (type(res) is type(ref) and res == ref):
        fail(f"add_chain_suffix result differs from the original: {res!r} vs {ref!r}")
    if not same_frame(chain_df, c0):
        fail("add_chain_suffix: chain table differs from the original")
    if not same_frame(traced_df, t0):
        fail("add_chain_suffix: traced table differs from the original")
    if not same_frame(motl.df, m0):
        fail("add_chain_suffix changed the tomogram motl")
    if res is False:
        stats["suffix_refused"] += 1
    elif traced_df.groupby("object_id")["geom2"].max().to_dict() != max_before:
        stats["suffix_cut"] += 1
    return res


def hooked_add_chain_prefix(chain_df, motl, traced_df, subtomo_id, current_dist, *args, **kwargs):
    stats["prefix_calls"] += 1
    c0, t0, m0 = chain_df.copy(deep=True), traced_df.copy(deep=True), motl.df.copy(deep=True)
    cm = kwargs.get("class_max")
    cm0 = copy.deepcopy(cm)
    res = _tree_add_chain_prefix(chain_df, motl, traced_df, subtomo_id, current_dist, *args, **kwargs)
    kw0 = dict(kwargs)
    if "class_max" in kw0:
        kw0["class_max"] = cm0
    ref = orig_add_chain_prefix(c0, motl, t0, subtomo_id, current_dist, *args, **kw0)
    if not same_value(res, ref):
        fail(f"add_chain_prefix result differs from the original: {res!r} vs {ref!r}")
    if not same_frame(chain_df, c0):
        fail("add_chain_prefix: chain table differs from the original")
    if not same_frame(traced_df, t0):
        fail("add_chain_prefix: traced table differs from the original")
    if not same_frame(motl.df, m0):
        fail("add_chain_prefix changed the tomogram motl")
    if cm != cm0:
        fail("add_chain_prefix changed class_max")
    if res == -1:
        stats["prefix_refused"] += 1
    else:
        if cm is not None:
            stats["prefix_both"] += 1
    return res


def _prefix_cut_probe(traced_before, motl, subtomo_id):
    pid = motl.df.loc[motl.df.index[subtomo_id], "subtomo_id"]
    return traced_before.loc[traced_before["subtomo_id"] == pid, "geom2"].values[0] != 1


# a second, thinner wrapper only counts the head cuts (needs the table before the call)
def counting_add_chain_prefix(chain_df, motl, traced_df, subtomo_id, current_dist, *args, **kwargs):
    not_first = _prefix_cut_probe(traced_df, motl, subtomo_id)
    res = hooked_add_chain_prefix(chain_df, motl, traced_df, subtomo_id, current_dist, *args, **kwargs)
    if not_first and res != -1:
        stats["prefix_cut"] += 1
        if kwargs.get("class_max") is not None:
            stats["prefix_both_cut"] += 1
    return res


def hooks(on):
    ribana.get_nn_dist = hooked_get_nn_dist if on else _tree_get_nn_dist
    ribana.add_chain_suffix = hooked_add_chain_suffix if on else _tree_add_chain_suffix
    ribana.add_chain_prefix = counting_add_chain_prefix if on else _tree_add_chain_prefix


# ---------------------------------------------------------------------------------------------------------
# inputs
# ---------------------------------------------------------------------------------------------------------
def make_motl(tomo, sid, sites, rng, index=None):
    n = len(sid)
    df = cryomotl.Motl.create_empty_motl_df()
    df = df.reindex(range(n)).fillna(0.0)
    base = np.round(sites)
    df[["x", "y", "z"]] = base
    df[["shift_x", "shift_y", "shift_z"]] = sites - base
    df["tomo_id"] = np.asarray(tomo, dtype=float)
    df["subtomo_id"] = np.asarray(sid, dtype=float)
    df["score"] = rng.random(n)
    df["geom4"] = 0.0
    df["class"] = 1.0
    df[["phi", "theta", "psi"]] = rng.uniform(0, 180, (n, 3))
    if index is not None:
        df.index = index
    return df


def make_case(rng, kind):
    n_tomos = int(rng.integers(1, 4))
    n = int(rng.integers(max(2, n_tomos), 61))
    tomo_ids = np.sort(rng.choice([1, 2, 3, 5, 8, 13, 40, 274], n_tomos, replace=False))
    # sizes: every tomogram at least one particle, very different sizes allowed
    cuts = np.sort(rng.choice(np.arange(1, n), n_tomos - 1, replace=False)) if n_tomos > 1 else np.array([], int)
    sizes = np.diff(np.concatenate([[0], cuts, [n]])).astype(int)
    if kind == "tiny_group" and n_tomos > 1:
        # one tomogram with a single particle between / before bigger ones
        sizes = sizes.copy()
        j = int(rng.integers(0, n_tomos))
        k = int(np.argmax(sizes))
        if j != k:
            sizes[k] += sizes[j] - 1
            sizes[j] = 1
    tomo = np.repeat(tomo_ids, sizes).astype(float)
    max_distance = float(rng.choice([3.0, 5.0, 8.0, 12.0, 25.0]))
    min_distance = float(rng.choice([0.0, 0.0, 0.5, 2.0, max_distance * 0.5, max_distance]))
    entry = np.zeros((n, 3))
    exit_ = np.zeros((n, 3))
    start = 0
    for t, s in enumerate(sizes):
        sl = slice(start, start + s)
        start += s
        if kind == "sparse_after_dense" and t == n_tomos - 1 and n_tomos > 1:
            box = 1000.0 * max_distance  # no neighbour within reach in the last tomogram
        elif kind == "lattice":
            box = max(2.0, (s ** (1 / 3.0)) * max_distance * 0.6)
        else:
            box = (s ** (1 / 3.0)) * max_distance * float(rng.choice([0.3, 0.6, 1.0, 1.6, 3.0]))
        e = rng.uniform(0, box, (s, 3))
        if kind == "clusters" and s >= 4:
            centres = rng.uniform(0, box * 2, (max(1, s // 6), 3))
            e = centres[rng.integers(0, len(centres), s)] + rng.normal(0, max_distance * 0.5, (s, 3))
        v = rng.normal(size=(s, 3))
        v /= np.linalg.norm(v, axis=1, keepdims=True)
        v *= rng.uniform(0.0, max_distance * float(rng.choice([0.5, 1.0, 2.0])), (s, 1))
        x = e + v
        if kind == "lattice":  # integer sites: equal distances, distances equal to the bounds, coincident sites
            e = np.round(e)
            x = np.round(x)
        entry[sl] = e
        exit_[sl] = x
    sid = rng.permutation(np.arange(1, 4 * n))[:n].astype(float) if rng.random() < 0.5 else np.arange(1, n + 1.0)
    perm = rng.permutation(n) if rng.random() < 0.4 else np.arange(n)  # rows of the tomograms interleaved
    index = None
    r = rng.random()
    if r < 0.25:
        index = rng.permutation(np.arange(100, 100 + n))
    elif r < 0.4:
        index = np.arange(n)[::-1]
    m_entry = make_motl(tomo[perm], sid[perm], entry[perm], rng, index)
    m_exit = make_motl(tomo[perm], sid[perm], exit_[perm], rng, index)
    return m_entry, m_exit, max_distance, min_distance


# ---------------------------------------------------------------------------------------------------------
# the property, computed independently
# ---------------------------------------------------------------------------------------------------------
def sites_of(df):
    c = df[["x", "y", "z"]].to_numpy(float) + df[["shift_x", "shift_y", "shift_z"]].to_numpy(float)
    return {(float(t), float(s)): c[k] for k, (t, s) in enumerate(zip(df["tomo_id"], df["subtomo_id"]))}


def check_property(label, df_entry, df_exit, res_df, max_distance, min_distance):
    ok = True
    ent, ext = sites_of(df_entry), sites_of(df_exit)
    got = sorted(zip(res_df["tomo_id"].astype(float), res_df["subtomo_id"].astype(float)))
    want = sorted(ent.keys())
    if got != want:
        fail(f"{label}: particles are not returned exactly once ({len(got)} rows for {len(want)} particles)")
        return False
    n_links = 0
    tomos_links = []
    for tomo, g in res_df.groupby("tomo_id", sort=True):
        links_here = 0
        for obj, ch in g.groupby("object_id", sort=True):
            order = ch["geom2"].to_numpy(float)
            k = len(order)
            if sorted(order.tolist()) != [float(j) for j in range(1, k + 1)]:
                fail(f"{label}: tomo {tomo} chain {obj} has order numbers {sorted(order.tolist())}")
                ok = False
                continue
            ch = ch.iloc[np.argsort(order)]
            sids = ch["subtomo_id"].to_numpy(float)
            rec = ch["geom4"].to_numpy(float)
            for j in range(k - 1):
                d = float(np.sqrt(((ext[(float(tomo), sids[j])] - ent[(float(tomo), sids[j + 1])]) ** 2).sum()))
                n_links += 1
                links_here += 1
                if not (d > min_distance - TOL and d <= max_distance + TOL):
                    fail(f"{label}: tomo {tomo} chain {obj} link {j + 1}->{j + 2} has distance {d} outside "
                         f"({min_distance}, {max_distance}]")
                    ok = False
                if abs(d - rec[j]) > TOL:
                    fail(f"{label}: tomo {tomo} chain {obj} link {j + 1}->{j + 2}: recorded {rec[j]}, distance {d}")
                    ok = False
            stats["chains"] += 1
        tomos_links.append(links_here)
    # chains never span tomograms: a chain is (tomo_id, object_id) by construction of the check above; in addition
    # no particle may change its tomogram
    stats["links"] += n_links
    if len(tomos_links) > 1 and tomos_links[-1] == 0 and max(tomos_links[:-1]) > 0:
        stats["tomos_without_links_after_links"] += 1
    return ok


def run_case(label, m_entry_df, m_exit_df, max_distance, min_distance, as_frames=False, lattice=False):
    stats["cases"] += 1
    stats["particles"] += len(m_entry_df)
    stats["single_particle_tomos"] += int((m_entry_df["tomo_id"].value_counts() == 1).sum())
    if as_frames:
        a_in, b_in = m_entry_df.copy(deep=True), m_exit_df.copy(deep=True)
        a_df, b_df = a_in, b_in
    else:
        a_in = cryomotl.EmMotl(m_entry_df.copy(deep=True))
        b_in = cryomotl.EmMotl(m_exit_df.copy(deep=True))
        a_df, b_df = a_in.df, b_in.df
    # what the caller holds before the call (the EmMotl constructor may already have renumbered the index)
    a_before, b_before = a_df.copy(deep=True), b_df.copy(deep=True)
    hooks(True)
    try:
        res = ribana.trace_chains(a_in, b_in, max_distance, min_distance)
    finally:
        hooks(False)
    # inputs untouched
    if not (same_frame(a_df, a_before) and same_frame(b_df, b_before)):
        fail(f"{label}: the caller's motls were changed")
    if not lattice:
        check_property(label, m_entry_df, m_exit_df, res.df, max_distance, min_distance)
    # same as the original function
    ref = orig_trace_chains(cryomotl.EmMotl(m_entry_df.copy(deep=True)), cryomotl.EmMotl(m_exit_df.copy(deep=True)),
                            max_distance, min_distance)
    if type(res) is not type(ref):
        fail(f"{label}: result type {type(res).__name__} vs {type(ref).__name__}")
    if not same_frame(res.df, ref.df):
        fail(f"{label}: result differs from the original trace_chains")
    # repeated call on the same objects
    res2 = ribana.trace_chains(a_in, b_in, max_distance, min_distance)
    if not same_frame(res.df, res2.df):
        fail(f"{label}: second call on the same objects gives another result")
    if not (same_frame(a_df, a_before) and same_frame(b_df, b_before)):
        fail(f"{label}: the caller's motls were changed by the second call")
    return res


def direct_get_nn_dist(rng, rounds):
    """get_nn_dist of the tree against the original, called directly (all masks, bounds, also outside the quantifier)."""
    for r in range(rounds):
        n = int(rng.integers(1, 40))
        lattice = rng.random() < 0.3
        pts = rng.uniform(0, 10, (n, 3))
        if lattice:
            pts = np.round(pts)
        kdt = sn.KDTree(pts)
        q = rng.uniform(0, 10, (1, 3))
        if lattice:
            q = np.round(q)
        if rng.random() < 0.2:
            q = pts[[int(rng.integers(0, n))]].copy()
        active = rng.random(n) < rng.choice([0.0, 0.3, 0.7, 1.0])
        for dist_max in (0.5, 2.0, 5.0, 30.0):
            for dist_min in (0.0, 1.0, 2.0, 5.0, -1.0):
                for tv in (True, False):
                    a0, q0 = active.copy(), q.copy()
                    res = ribana.get_nn_dist(kdt, q, dist_max, dist_min, active, tv)
                    ref = orig_get_nn_dist(kdt, q0, dist_max, dist_min, a0, tv)
                    stats["nn_calls"] += 1
                    if not same_value(res, ref):
                        fail(f"direct get_nn_dist differs: {res!r} vs {ref!r}")
                    if not (np.array_equal(a0, active) and np.array_equal(q0, q)):
                        fail("direct get_nn_dist changed its arguments")
                    if res[0] != -1:
                        d = float(np.sqrt(((pts[res[0]] - q[0]) ** 2).sum()))
                        if abs(d - res[1]) > TOL or d > dist_max + TOL or (dist_min >= 0 and d <= dist_min - TOL):
                            fail(f"direct get_nn_dist: wrong neighbour {res!r} (distance {d})")
                        if active[res[0]] != tv:
                            fail("direct get_nn_dist: neighbour outside the mask")


def direct_helpers(rng, rounds):
    """add_chain_suffix / add_chain_prefix of the tree against the original on hand-made chain tables: every
    branch (refused, plain join, tail cut, head cut, joined from both sides with and without head cut)."""
    seen = set()
    for r in range(rounds):
        m = int(rng.integers(1, 5))
        lengths = rng.integers(1, 6, m)
        rows = []
        sid = 1
        for c, k in enumerate(lengths, start=1):
            for o in range(1, k + 1):
                rows.append((float(sid), float(c), float(o), float(np.round(rng.uniform(1, 9), 1)), o - 1))
                sid += 1
        n_old = len(rows)
        L = int(rng.integers(1, 4))
        traced = cryomotl.Motl.create_empty_motl_df().reindex(range(n_old)).fillna(0.0)
        traced["subtomo_id"] = [x[0] for x in rows]
        traced["object_id"] = [x[1] for x in rows]
        traced["geom2"] = [x[2] for x in rows]
        traced["geom4"] = [x[3] for x in rows]
        traced["tomo_id"] = 7.0
        traced.index = [x[4] for x in rows]  # the index of the growing table repeats 0..k-1 for every chain
        if rng.random() < 0.5:
            traced = traced.iloc[rng.permutation(n_old)]
        chain = cryomotl.Motl.create_empty_motl_df().reindex(range(L)).fillna(0.0)
        chain["subtomo_id"] = np.arange(n_old + 1, n_old + L + 1, dtype=float)
        chain["object_id"] = float(m + 1)
        chain["geom2"] = np.arange(1, L + 1, dtype=float)
        chain["geom4"] = np.round(rng.uniform(1, 9, L), 1)
        chain["tomo_id"] = 7.0
        tomo_df = cryomotl.Motl.create_empty_motl_df().reindex(range(n_old + L)).fillna(0.0)
        order = rng.permutation(n_old + L)
        tomo_df["subtomo_id"] = (order + 1).astype(float)
        tomo_df["tomo_id"] = 7.0
        tomo_df.index = rng.permutation(np.arange(50, 50 + n_old + L))
        tomo = cryomotl.Motl(motl_df=tomo_df)
        target = int(rng.integers(1, n_old + 1))  # subtomo_id of the particle of an existing chain
        pos = int(np.where(order + 1 == target)[0][0])
        dist = float(np.round(rng.uniform(1, 9), 1))
        t_order = traced.loc[traced["subtomo_id"] == target, "geom2"].values[0]
        t_len = lengths[int(traced.loc[traced["subtomo_id"] == target, "object_id"].values[0]) - 1]
        which = r % 3
        res_t = res_o = None
        frames = []
        for fn_s, fn_p in ((ribana.add_chain_suffix, ribana.add_chain_prefix),
                           (orig_add_chain_suffix, orig_add_chain_prefix)):
            c, t, md = chain.copy(deep=True), traced.copy(deep=True), tomo.df.copy(deep=True)
            if which == 0:
                res = fn_s(c, tomo, t, pos, dist, "object_id", "geom2")
                tag = ("suffix", bool(res), bool(t_order != t_len))
            elif which == 1:
                res = fn_p(c, tomo, t, pos, dist, "object_id", "geom2", class_max=None)
                tag = ("prefix", res, bool(t_order != 1))
            else:
                cm = (float(L), m + 2)
                res = fn_p(c, tomo, t, pos, dist, "object_id", "geom2", class_max=cm)
                tag = ("prefix both", res, bool(t_order != 1))
                if cm != (float(L), m + 2):
                    fail("direct add_chain_prefix changed class_max")
            if not same_frame(tomo.df, md):
                fail("direct helper changed the tomogram motl")
            frames.append((res, c, t))
        seen.add(tag)
        (res_t, c_t, t_t), (res_o, c_o, t_o) = frames
        if not same_value(res_t, res_o):
            fail(f"direct {tag}: result {res_t!r} vs original {res_o!r}")
        if not same_frame(c_t, c_o):
            fail(f"direct {tag}: chain table differs from the original")
        if not same_frame(t_t, t_o):
            fail(f"direct {tag}: traced table differs from the original")
    stats["direct_helper_branches"] = len(seen)
    if rounds >= 300 and len(seen) < 9:
        fail(f"direct helper calls reached only {sorted(map(str, seen))}")


def main():
    rng = np.random.default_rng(190019)
    kinds = ["uniform", "clusters", "uniform", "clusters", "tiny_group", "sparse_after_dense", "lattice"]
    n_cases = int(os.environ.get("C19_CASES", "230"))
    for c in range(n_cases):
        kind = kinds[c % len(kinds)]
        m_entry, m_exit, dmax, dmin = make_case(rng, kind)
        run_case(f"case {c} ({kind}, n={len(m_entry)}, max={dmax}, min={dmin})", m_entry, m_exit, dmax, dmin,
                 as_frames=(c % 5 == 4), lattice=(kind == "lattice"))

    # hand-made edge cases -------------------------------------------------------------------------------
    # two particles, a single link; then the same with the link exactly at max_distance (closed upper end)
    def two(d):
        e = np.array([[0.0, 0.0, 0.0], [10.0, 0.0, 0.0]])
        x = np.array([[10.0 - d, 0.0, 0.0], [50.0, 50.0, 50.0]])
        return (make_motl([1, 1], [1, 2], e, rng), make_motl([1, 1], [1, 2], x, rng))

    for d, dmax, dmin, linked in [(3.0, 5.0, 0.0, True), (5.0, 5.0, 0.0, True), (6.0, 5.0, 0.0, False),
                                  (3.0, 5.0, 3.0, False), (3.0, 5.0, 2.5, True), (0.0, 5.0, 0.0, False)]:
        me, mx = two(d)
        res = run_case(f"two particles d={d} max={dmax} min={dmin}", me, mx, dmax, dmin)
        is_linked = res.df["object_id"].nunique() == 1
        if is_linked != linked:
            fail(f"two particles d={d} max={dmax} min={dmin}: linked={is_linked}, expected {linked}")
    # a line traced from the middle: 0 -> 1 -> 2 -> 3 -> 4 must become one chain whatever the row order is
    for order in ([0, 1, 2, 3, 4], [2, 3, 4, 0, 1], [4, 3, 2, 1, 0], [3, 1, 4, 0, 2]):
        e = np.array([[10.0 * k, 0.0, 0.0] for k in range(5)])
        x = e + np.array([7.0, 0.5, 0.0])
        o = np.array(order)
        me = make_motl(np.ones(5), o + 1.0, e[o], rng)
        mx = make_motl(np.ones(5), o + 1.0, x[o], rng)
        res = run_case(f"line in row order {order}", me, mx, 4.0, 0.0)
        d = res.df.sort_values("geom2")
        if res.df["object_id"].nunique() != 1 or d["subtomo_id"].tolist() != [1.0, 2.0, 3.0, 4.0, 5.0]:
            fail(f"line in row order {order}: not one chain 1..5")
    # three tomograms: links, a single particle, no links
    e = np.array([[0, 0, 0], [10, 0, 0], [20, 0, 0], [500, 500, 500], [0, 0, 0], [300, 0, 0], [0, 300, 0]], float)
    x = e + np.array([8.0, 0.0, 1.0])
    t = [2, 2, 2, 5, 9, 9, 9]
    me, mx = make_motl(t, np.arange(1, 8.0), e, rng), make_motl(t, np.arange(1, 8.0), x, rng)
    res = run_case("links / single / no links", me, mx, 3.0, 0.0)
    if res.df.groupby("tomo_id")["object_id"].nunique().to_dict() != {2.0: 1, 5.0: 1, 9.0: 3}:
        fail("links / single / no links: unexpected chains per tomogram")

    # motls whose identifier columns are integer columns (the dtypes of the result must not depend on how the
    # per-tomogram tables are put together), and a motl with one tomogram only / one particle per tomogram
    for c in range(6):
        m_entry, m_exit, dmax, dmin = make_case(rng, "clusters")
        for col in ("tomo_id", "subtomo_id", "class"):
            m_entry[col] = m_entry[col].astype("int64")
            m_exit[col] = m_exit[col].astype("int64")
        run_case(f"integer columns {c}", m_entry, m_exit, dmax, dmin, as_frames=(c % 2 == 1))
    e = rng.uniform(0, 30, (3, 3))
    me, mx = make_motl([4, 2, 9], [1, 2, 3], e, rng), make_motl([4, 2, 9], [1, 2, 3], e + 1.0, rng)
    res = run_case("one particle per tomogram", me, mx, 50.0, 0.0)
    if res.df["tomo_id"].tolist() != [2.0, 4.0, 9.0] or res.df["geom2"].tolist() != [1.0, 1.0, 1.0]:
        fail("one particle per tomogram: unexpected result")

    direct_get_nn_dist(rng, 60)
    direct_helpers(rng, 600)

    print("statistics:", stats)
    for key in ("suffix_calls", "suffix_refused", "suffix_cut", "prefix_calls", "prefix_refused", "prefix_cut",
                "prefix_both", "prefix_both_cut", "links", "tomos_without_links_after_links", "single_particle_tomos"):
        if n_cases >= 200 and stats[key] == 0:
            fail(f"the inputs never exercised '{key}'")
    if failures:
        print(f"FAIL ({len(failures)} failures)")
        sys.exit(1)
    print("PASS")


if __name__ == "__main__":
    main()
