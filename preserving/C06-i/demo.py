import os, sys

sys.path.insert(0, os.getcwd())
import itertools
import warnings

warnings.filterwarnings("ignore", message="Gimbal lock detected")

import matplotlib

matplotlib.use("Agg")
import numpy as np
import pandas as pd
from scipy.spatial.transform import Rotation as srot

from cryocat import geom

assert os.path.abspath(geom.__file__).startswith(os.getcwd()), geom.__file__

TOL_DEG = 5e-5  # 2*acos|q1.q2| and acos(z1.z2) lose half of the digits next to 0 / 180 degrees
FAILS = []


def check(cond, msg):
    if not bool(cond):
        FAILS.append(msg)
        print("FAIL:", msg)


# --------------------------------------------------------------------------------------------------------------
# independent SO(3) ground truth: matrices only, no quaternions, no scipy
# --------------------------------------------------------------------------------------------------------------
def rz(a):
    a = np.radians(np.asarray(a, dtype=float))
    c, s, o, z = np.cos(a), np.sin(a), np.ones_like(a), np.zeros_like(a)
    return np.stack([np.stack([c, -s, z], -1), np.stack([s, c, z], -1), np.stack([z, z, o], -1)], -2)


def rx(a):
    a = np.radians(np.asarray(a, dtype=float))
    c, s, o, z = np.cos(a), np.sin(a), np.ones_like(a), np.zeros_like(a)
    return np.stack([np.stack([o, z, z], -1), np.stack([z, c, -s], -1), np.stack([z, s, c], -1)], -2)


def mats(angles):
    """extrinsic zxz (phi, theta, psi): R = Rz(psi) Rx(theta) Rz(phi)"""
    angles = np.atleast_2d(np.asarray(angles, dtype=float))
    return rz(angles[:, 2]) @ rx(angles[:, 1]) @ rz(angles[:, 0])


def rel_angle(m1, m2):
    m = np.swapaxes(m1, -1, -2) @ m2
    v = np.stack([m[..., 2, 1] - m[..., 1, 2], m[..., 0, 2] - m[..., 2, 0], m[..., 1, 0] - m[..., 0, 1]], -1)
    return np.degrees(np.arctan2(0.5 * np.linalg.norm(v, axis=-1), 0.5 * (np.trace(m, axis1=-2, axis2=-1) - 1.0)))


def vec_angle(a, b):
    return np.degrees(np.arctan2(np.linalg.norm(np.cross(a, b), axis=-1), np.sum(a * b, axis=-1)))


# --------------------------------------------------------------------------------------------------------------
# inputs inside the quantifier
# --------------------------------------------------------------------------------------------------------------
rng = np.random.default_rng(20240606)


def random_angles(n):
    return np.column_stack([rng.uniform(-180, 180, n), np.degrees(np.arccos(rng.uniform(-1, 1, n))), rng.uniform(-180, 180, n)])


def cube_rotations():
    out = []
    for perm in itertools.permutations(range(3)):
        for signs in itertools.product([1.0, -1.0], repeat=3):
            m = np.zeros((3, 3))
            for r, (c, s) in enumerate(zip(perm, signs)):
                m[r, c] = s
            if np.linalg.det(m) > 0:
                out.append(m)
    return np.stack(out)


CUBE = cube_rotations()
assert CUBE.shape == (24, 3, 3)
LATTICE = np.array(
    [[p, t, s] for p in np.arange(0, 360, 45.0) for t in np.arange(0, 181, 45.0) for s in np.arange(0, 360, 45.0)]
)


def pair_sets():
    """yield (label, angles1, angles2) -- Euler arrays (n,3)"""
    for n in (1, 2, 7, 100, 500):
        yield f"random{n}", random_angles(n), random_angles(n)
    a = random_angles(200)
    yield "near-identical", a, a + rng.normal(0, 1e-6, a.shape)
    yield "near-identical-1e-3", a, a + rng.normal(0, 1e-3, a.shape)
    yield "equal", a, a.copy()
    # antipodal: second = first composed with a 180 degree turn about a random axis (done on matrices below)
    g = np.array([[p, t, s] for p in (0.0, 30.0, -117.5, 180.0) for t in (0.0, 180.0) for s in (0.0, 45.0, -90.0, 180.0)])
    yield "gimbal-vs-random", g, random_angles(len(g))
    yield "gimbal-vs-gimbal", g, g[::-1].copy()
    i, j = np.meshgrid(np.arange(len(LATTICE)), np.arange(len(LATTICE)), indexing="ij")
    sel = rng.choice(i.size, 500, replace=False)
    yield "lattice45", LATTICE[i.ravel()[sel]], LATTICE[j.ravel()[sel]]
    yield "lattice45-full-vs-shift", LATTICE, np.roll(LATTICE, 37, axis=0)


def rot_of(m):
    return srot.from_matrix(m)


def check_pairs(label, r1, r2, m1, m2, euler_inputs=None):
    """r1/r2: what is handed to geom (Rotation objects or Euler arrays), m1/m2 ground-truth matrices"""
    truth = rel_angle(m1, m2)
    out = geom.angular_distance(r1, r2)
    ang = out[0]
    check(ang.shape == truth.shape, f"{label}: angular_distance shape {ang.shape} vs {truth.shape}")
    check(np.all((ang >= 0) & (ang <= 180.0)), f"{label}: angular_distance outside [0,180]")
    check(np.allclose(ang, truth, rtol=0, atol=TOL_DEG), f"{label}: angular_distance != relative rotation angle, max err {np.max(np.abs(ang - truth))}")
    back = geom.angular_distance(r2, r1)[0]
    check(np.allclose(ang, back, rtol=0, atol=1e-9), f"{label}: angular_distance not symmetric")
    # second output of angular_distance: 1 - (q1.q2)^2 = sin^2(angle/2), tiny values flushed to 0
    d2 = np.sin(np.radians(truth) / 2) ** 2
    d2[d2 < 10e-8] = 0
    check(np.allclose(out[1], d2, rtol=0, atol=2e-7), f"{label}: angular_distance second output")
    # cone distance: angle between z axes
    z1, z2 = m1[..., :, 2], m2[..., :, 2]
    ctruth = vec_angle(z1, z2)
    cone, inpl = geom.cone_inplane_distance(r1, r2)
    check(np.allclose(cone, ctruth, rtol=0, atol=TOL_DEG), f"{label}: cone distance != angle between z axes, max err {np.max(np.abs(cone - ctruth))}")
    check(np.all((inpl >= 0) & (inpl <= 180.0)), f"{label}: inplane distance outside [0,180]")
    check(cone.shape == truth.shape and inpl.shape == truth.shape, f"{label}: cone/inplane shapes")
    if not isinstance(r1, np.ndarray):
        c2 = geom.cone_distance(r1, r2)
        i2 = geom.inplane_distance(r1, r2)
        check(np.array_equal(c2, cone) and np.array_equal(i2, inpl), f"{label}: cone_inplane_distance differs from its parts")
    allr = geom.compare_rotations(r1, r2)
    check(
        np.array_equal(allr[0], ang) and np.array_equal(allr[1], cone) and np.array_equal(allr[2], inpl),
        f"{label}: compare_rotations(all) differs from the single functions",
    )
    for key, ref in (("angular_distance", ang), ("cone_distance", cone), ("in_plane_distance", inpl)):
        check(np.array_equal(geom.compare_rotations(r1, r2, rotation_type=key), ref), f"{label}: compare_rotations({key})")
    # equal orientations
    same = geom.angular_distance(r1, r1)
    check(np.all(same[0] <= TOL_DEG) and np.all(same[1] == 0), f"{label}: angular_distance(r, r) not zero")
    c0, i0 = geom.cone_inplane_distance(r1, r1)
    check(np.all(c0 <= TOL_DEG) and np.all(i0 == 0.0), f"{label}: cone/inplane distance of equal orientations not zero")
    # zero only for equal rotations
    far = truth > 1e-3
    check(np.all(ang[far] > 0), f"{label}: angular_distance zero for different rotations")
    return ang


def check_invariance_and_triangle(label, m1, m2, m3, common):
    base = geom.angular_distance(rot_of(m1), rot_of(m2))[0]
    left = geom.angular_distance(rot_of(common @ m1), rot_of(common @ m2))[0]
    right = geom.angular_distance(rot_of(m1 @ common), rot_of(m2 @ common))[0]
    check(np.allclose(base, left, rtol=0, atol=2 * TOL_DEG), f"{label}: not invariant under a common left factor")
    check(np.allclose(base, right, rtol=0, atol=2 * TOL_DEG), f"{label}: not invariant under a common right factor")
    # the same through scipy's composition
    cr = rot_of(common)
    left_s = geom.angular_distance(cr * rot_of(m1), cr * rot_of(m2))[0]
    right_s = geom.angular_distance(rot_of(m1) * cr, rot_of(m2) * cr)[0]
    check(np.allclose(base, left_s, rtol=0, atol=2 * TOL_DEG) and np.allclose(base, right_s, rtol=0, atol=2 * TOL_DEG), f"{label}: invariance (scipy composition)")
    d12 = base
    d23 = geom.angular_distance(rot_of(m2), rot_of(m3))[0]
    d13 = geom.angular_distance(rot_of(m1), rot_of(m3))[0]
    check(np.all(d13 <= d12 + d23 + 3 * TOL_DEG), f"{label}: triangle inequality violated")
    # a common left factor moves both z axes rigidly: cone distance unchanged
    c_base = geom.cone_distance(rot_of(m1), rot_of(m2))
    c_left = geom.cone_distance(rot_of(common @ m1), rot_of(common @ m2))
    check(np.allclose(c_base, c_left, rtol=0, atol=2 * TOL_DEG), f"{label}: cone distance not invariant under a common left factor")


def property_checks():
    # ---------------- pairs given as Euler arrays and as Rotation objects ----------------
    for label, a1, a2 in pair_sets():
        keep1, keep2 = a1.copy(), a2.copy()
        m1, m2 = mats(a1), mats(a2)
        first = check_pairs(label + "/euler", a1, a2, m1, m2)
        second = check_pairs(label + "/euler-again", a1, a2, m1, m2)
        check(np.array_equal(first, second), f"{label}: repeated call gives another result")
        check(np.array_equal(a1, keep1) and np.array_equal(a2, keep2), f"{label}: inputs modified")
        r1, r2 = rot_of(m1), rot_of(m2)
        q1, q2 = r1.as_quat().copy(), r2.as_quat().copy()
        check_pairs(label + "/rot", r1, r2, m1, m2)
        check_pairs(label + "/rot-again", r1, r2, m1, m2)
        check(np.array_equal(r1.as_quat(), q1) and np.array_equal(r2.as_quat(), q2), f"{label}: Rotation inputs modified")
        check_pairs(label + "/from_euler", srot.from_euler("zxz", a1, degrees=True), srot.from_euler("zxz", a2, degrees=True), m1, m2)
    # ---------------- single (non-batch) rotations ----------------
    for k in range(20):
        a1, a2 = random_angles(1), random_angles(1)
        m1, m2 = mats(a1), mats(a2)
        check_pairs(f"single{k}", srot.from_matrix(m1[0]), srot.from_matrix(m2[0]), m1, m2)
    # ---------------- antipodal (180 degrees) ----------------
    a1 = random_angles(300)
    m1 = mats(a1)
    axes = rng.normal(size=(300, 3))
    axes /= np.linalg.norm(axes, axis=1, keepdims=True)
    half = 2.0 * axes[:, :, None] * axes[:, None, :] - np.eye(3)  # rotation by 180 degrees about axes
    m2 = m1 @ half
    ang = check_pairs("antipodal", rot_of(m1), rot_of(m2), m1, m2)
    check(np.allclose(ang, 180.0, rtol=0, atol=TOL_DEG), "antipodal: angular distance is not 180")
    m2 = half @ m1
    check_pairs("antipodal-left", rot_of(m1), rot_of(m2), m1, m2)
    # ---------------- cube group: all 24 x 24 pairs ----------------
    i, j = np.meshgrid(np.arange(24), np.arange(24), indexing="ij")
    m1, m2 = CUBE[i.ravel()], CUBE[j.ravel()]
    ang = check_pairs("cube24", rot_of(m1), rot_of(m2), m1, m2)
    check(np.all(np.min(np.abs(ang[:, None] - np.array([0.0, 90.0, 120.0, 180.0])[None, :]), axis=1) < TOL_DEG), "cube24: angle set")
    # ---------------- invariance / triangle inequality ----------------
    for label, n in (("tri-random", 500), ("tri-one", 1), ("tri-3", 3)):
        m1, m2, m3, c = (mats(random_angles(n)) for _ in range(4))
        check_invariance_and_triangle(label, m1, m2, m3, c)
    idx = rng.integers(0, 24, size=(4, 400))
    check_invariance_and_triangle("tri-cube", CUBE[idx[0]], CUBE[idx[1]], CUBE[idx[2]], CUBE[idx[3]])
    idx = rng.integers(0, len(LATTICE), size=(4, 500))
    lm = mats(LATTICE)
    check_invariance_and_triangle("tri-lattice", lm[idx[0]], lm[idx[1]], lm[idx[2]], lm[idx[3]])
    near = random_angles(200)
    check_invariance_and_triangle(
        "tri-near", mats(near), mats(near + rng.normal(0, 1e-5, near.shape)), mats(near + rng.normal(0, 1e-5, near.shape)), mats(random_angles(200))
    )
    # ---------------- Euler angles -> normals ----------------
    poles = np.array([[0.0, 0, 0], [10, 0, 20], [0, 180, 0], [77, 180, -33], [90, 90, 90], [-45, 90, 180], [360, 45, -360]])
    for label, ang_in in [(f"normals{n}", random_angles(n)) for n in (1, 2, 3, 10, 499, 500)] + [("poles", poles), ("lattice", LATTICE)]:
        keep = ang_in.copy()
        nv = geom.euler_angles_to_normals(ang_in)
        check(nv.shape == (len(ang_in), 3), f"{label}: euler_angles_to_normals shape {nv.shape}")
        check(np.allclose(np.linalg.norm(nv, axis=1), 1.0, rtol=0, atol=1e-12), f"{label}: normals not of unit length")
        check(np.allclose(nv, mats(ang_in)[:, :, 2], rtol=0, atol=1e-12), f"{label}: normals are not the image of the z axis")
        check(np.array_equal(nv, geom.euler_angles_to_normals(ang_in)), f"{label}: repeated euler_angles_to_normals differs")
        check(np.array_equal(ang_in, keep), f"{label}: euler_angles_to_normals modified its input")
        pts = geom.visualize_angles(ang_in, plot_rotations=False)
        check(pts.shape == (len(ang_in), 3) and np.allclose(pts, mats(ang_in)[:, :, 2], rtol=0, atol=1e-12), f"{label}: visualize_angles is not the z-axis image")
        pts_r = geom.visualize_rotations(rot_of(mats(ang_in)), plot_rotations=False)
        check(pts_r.shape == (len(ang_in), 3) and np.allclose(pts_r, mats(ang_in)[:, :, 2], rtol=0, atol=1e-12), f"{label}: visualize_rotations is not the z-axis image")
        pts_2 = geom.visualize_rotations(rot_of(mats(ang_in)), plot_rotations=False, radius=2.5)
        check(np.allclose(pts_2, 2.5 * mats(ang_in)[:, :, 2], rtol=0, atol=1e-12), f"{label}: visualize_rotations radius")
    one = geom.euler_angles_to_normals(np.array([12.0, 34.0, 56.0]))
    check(one.shape == (1, 3) and np.allclose(one, mats([12.0, 34.0, 56.0])[:, :, 2], atol=1e-12), "single triplet: euler_angles_to_normals")
    one = geom.visualize_rotations(srot.from_euler("zxz", [12.0, 34.0, 56.0], degrees=True), plot_rotations=False)
    check(one.shape == (1, 3) and np.allclose(one, mats([12.0, 34.0, 56.0])[:, :, 2], atol=1e-12), "single rotation: visualize_rotations")
    # ---------------- normals -> Euler angles ----------------
    axis_aligned = np.array([[1.0, 0, 0], [-1, 0, 0], [0, 1, 0], [0, -1, 0], [0, 0, 1], [0, 0, -1], [0, 0, 5], [0, 0, -0.25], [3, 0, 0], [0, -7, 0], [1, 1, 0], [1, 0, -1], [0, 2, 2]])
    sets = [(f"n2e{n}", rng.normal(size=(n, 3)) * rng.uniform(0.01, 100, size=(n, 1))) for n in (1, 2, 10, 500)]
    sets += [("axis", axis_aligned), ("axis-int", axis_aligned.astype(int) if np.all(axis_aligned == np.round(axis_aligned)) else np.round(axis_aligned * 4).astype(int))]
    sets += [("tiny", rng.normal(size=(50, 3)) * 1e-9), ("near-z", np.column_stack([rng.normal(0, 1e-9, 50), rng.normal(0, 1e-9, 50), rng.choice([-1.0, 1.0], 50)]))]
    for label, nrm in sets:
        keep = nrm.copy()
        unit = nrm / np.linalg.norm(nrm, axis=1, keepdims=True)
        state = np.random.get_state()
        np.random.seed(1234)
        eul = geom.normals_to_euler_angles(nrm)
        np.random.seed(1234)
        eul_zxz = geom.normals_to_euler_angles(nrm, output_order="zxz")
        np.random.seed(1234)
        eul_zzx = geom.normals_to_euler_angles(nrm, output_order="zzx")
        np.random.seed(1234)
        eul_df = geom.normals_to_euler_angles(pd.DataFrame(nrm, columns=["x", "y", "z"], index=np.arange(len(nrm))[::-1] * 3 + 5))
        np.random.seed(1234)
        phi_expected = np.random.rand(len(nrm)) * 360
        after = np.random.rand(3)
        np.random.seed(1234)
        geom.normals_to_euler_angles(nrm)
        check(np.array_equal(after, np.random.rand(3)), f"{label}: normals_to_euler_angles draws another amount of random numbers")
        np.random.set_state(state)
        check(eul.shape == (len(nrm), 3), f"{label}: normals_to_euler_angles shape")
        check(np.array_equal(eul, eul_zxz) and np.array_equal(eul, eul_df), f"{label}: normals_to_euler_angles zxz / DataFrame variants differ")
        check(np.array_equal(eul_zzx, eul[:, [0, 2, 1]]), f"{label}: zzx order is not (phi, psi, theta)")
        check(np.array_equal(eul[:, 0], phi_expected), f"{label}: phi is not the random in-plane angle")
        check(np.all((eul[:, 1] >= 0) & (eul[:, 1] <= 180)), f"{label}: theta outside [0,180]")
        check(np.allclose(mats(eul)[:, :, 2], unit, rtol=0, atol=1e-9), f"{label}: z axis of the returned orientation is not the normalised normal")
        check(np.allclose(geom.euler_angles_to_normals(eul), unit, rtol=0, atol=1e-9), f"{label}: normals -> Euler -> normals round trip")
        check(np.array_equal(nrm, keep), f"{label}: normals_to_euler_angles modified its input")
    # round trip Euler -> normals -> Euler -> normals
    a = np.vstack([random_angles(300), poles])
    n1 = geom.euler_angles_to_normals(a)
    n2 = geom.euler_angles_to_normals(geom.normals_to_euler_angles(n1))
    check(np.allclose(n1, n2, rtol=0, atol=1e-9), "round trip through normals")
    check(np.allclose(geom.cone_distance(srot.from_euler("zxz", a, degrees=True), srot.from_euler("zxz", geom.normals_to_euler_angles(n1), degrees=True)), 0.0, atol=TOL_DEG), "cone distance after round trip is not zero")


def bit_equal(x, y):
    if x is None or y is None:
        return x is None and y is None
    if isinstance(x, tuple):
        return isinstance(y, tuple) and len(x) == len(y) and all(bit_equal(p, q) for p, q in zip(x, y))
    x, y = np.asarray(x), np.asarray(y)
    return x.shape == y.shape and x.dtype == y.dtype and np.array_equal(x, y, equal_nan=True)


def original_from_text(text, name):
    """compile the stored text of the unmodified function inside the namespace of cryocat.geom"""
    ns = dict(vars(geom))
    exec(compile(text, f"<original {name}>", "exec"), ns)
    return ns[name]


def rotation_inputs():
    """(label, rot1, rot2) as Rotation objects over the whole quantifier, for patched-vs-original comparisons"""
    for label, a1, a2 in pair_sets():
        yield label, srot.from_euler("zxz", a1, degrees=True), srot.from_euler("zxz", a2, degrees=True)
        yield label + "/m", rot_of(mats(a1)), rot_of(mats(a2))
    i, j = np.meshgrid(np.arange(24), np.arange(24), indexing="ij")
    yield "cube", rot_of(CUBE[i.ravel()]), rot_of(CUBE[j.ravel()])
    a = random_angles(1)
    yield "single", srot.from_euler("zxz", a[0], degrees=True), srot.from_euler("zxz", random_angles(1)[0], degrees=True)
    yield "identity", srot.identity(), srot.identity()


def finish(name):
    if FAILS:
        print(f"{name}: {len(FAILS)} check(s) failed")
        sys.exit(1)
    print("PASS")
    sys.exit(0)


# --------------------------------------------------------------------------------------------------------------
# change b: cone_distance through normalize_vectors / np.clip, inplane_distance with a masked store instead of
# np.where -- compare with the original texts, bit for bit
# --------------------------------------------------------------------------------------------------------------
ORIGINAL_CONE_DISTANCE = '''
def cone_distance(input_rot1, input_rot2):
    point = [0, 0, 1.0]

    vec1 = np.array(input_rot1.apply(point), ndmin=2)
    vec2 = np.array(input_rot2.apply(point), ndmin=2)

    vec1_n = np.linalg.norm(vec1, axis=1)
    vec1 = vec1 / vec1_n[:, np.newaxis]
    vec2_n = np.linalg.norm(vec2, axis=1)
    vec2 = vec2 / vec2_n[:, np.newaxis]
    cone_angle = np.degrees(np.arccos(np.maximum(np.minimum(np.sum(vec1 * vec2, axis=1), 1.0), -1.0)))

    return cone_angle
'''

ORIGINAL_INPLANE_DISTANCE = '''
def inplane_distance(input_rot1, input_rot2, convention="zxz", degrees=True, c_symmetry=1):
    phi1 = np.array(input_rot1.as_euler(convention, degrees=degrees), ndmin=2)[:, 0]
    phi2 = np.array(input_rot2.as_euler(convention, degrees=degrees), ndmin=2)[:, 0]

    # Remove flot precision errors during conversion
    phi1 = np.where(abs(phi1) < ANGLE_DEGREES_TOL, 0.0, phi1)
    phi2 = np.where(abs(phi2) < ANGLE_DEGREES_TOL, 0.0, phi2)

    # From Scipy the phi is from [-180,180] -> change to [0.0,360]
    phi1 += 180.0
    phi2 += 180.0

    # Get the angular range for symmetry and divide the angles to be only in that range
    if c_symmetry > 1:
        sym_div = 360.0 / c_symmetry
        phi1 = np.mod(phi1, sym_div)
        phi2 = np.mod(phi2, sym_div)

    inplane_angle = np.abs(phi1 - phi2)

    inplane_angle = np.where(inplane_angle > 180.0, np.abs(inplane_angle - 360.0), inplane_angle)

    return inplane_angle
'''


def compare_with_original():
    cone0 = original_from_text(ORIGINAL_CONE_DISTANCE, "cone_distance")
    inplane0 = original_from_text(ORIGINAL_INPLANE_DISTANCE, "inplane_distance")
    n_pairs = 0
    n_wrapped = 0
    for label, r1, r2 in rotation_inputs():
        q1, q2 = np.array(r1.as_quat(), copy=True), np.array(r2.as_quat(), copy=True)
        for x, y in ((r1, r2), (r2, r1), (r1, r1)):
            check(bit_equal(geom.cone_distance(x, y), cone0(x, y)), f"{label}: cone_distance differs from the original")
            for sym in (1, 2, 3, 6, 13):
                got = geom.inplane_distance(x, y, c_symmetry=sym)
                ref = inplane0(x, y, c_symmetry=sym)
                check(bit_equal(got, ref), f"{label}: inplane_distance(c_symmetry={sym}) differs from the original")
            for conv in ("zxz", "ZXZ", "zyz", "xyz"):
                check(bit_equal(geom.inplane_distance(x, y, convention=conv), inplane0(x, y, convention=conv)), f"{label}: inplane_distance({conv}) differs")
            got_rad = geom.inplane_distance(x, y, degrees=False)
            check(bit_equal(got_rad, inplane0(x, y, degrees=False)), f"{label}: inplane_distance(radians) differs")
            c, i = geom.cone_inplane_distance(x, y)
            check(bit_equal(c, cone0(x, y)) and bit_equal(i, inplane0(x, y, "zxz", True, 1)), f"{label}: cone_inplane_distance differs from the original parts")
            c, i = geom.cone_inplane_distance(x, y, c_symmetry=4)
            check(bit_equal(i, inplane0(x, y, "zxz", True, 4)), f"{label}: cone_inplane_distance(c_symmetry=4) differs")
            n_pairs += 1
            raw = np.abs(
                np.array(x.as_euler("zxz", degrees=True), ndmin=2)[:, 0] - np.array(y.as_euler("zxz", degrees=True), ndmin=2)[:, 0]
            )
            n_wrapped += int(np.sum(raw > 180.0))
        check(np.array_equal(q1, r1.as_quat()) and np.array_equal(q2, r2.as_quat()), f"{label}: rotations modified")
    check(n_wrapped > 100, f"the wrap-around branch of inplane_distance was hardly exercised ({n_wrapped})")
    # one rotation against a batch (broadcast), as structure.py does with rotations[i - 1], rotations[i]
    batch = srot.from_euler("zxz", random_angles(50), degrees=True)
    for k in range(1, 50, 7):
        check(bit_equal(geom.cone_distance(batch[k - 1], batch[k]), cone0(batch[k - 1], batch[k])), "cone_distance of two single rotations differs")
        check(bit_equal(geom.cone_distance(batch[k], batch), cone0(batch[k], batch)), "cone_distance single vs batch differs")
        check(bit_equal(geom.inplane_distance(batch[k], batch), inplane0(batch[k], batch)), "inplane_distance single vs batch differs")
    # the result of inplane_distance is the caller's own array: changing it must not leak anywhere
    r1, r2 = srot.from_euler("zxz", random_angles(30), degrees=True), srot.from_euler("zxz", random_angles(30), degrees=True)
    first = geom.inplane_distance(r1, r2)
    keep = first.copy()
    first[:] = -1.0
    check(np.array_equal(geom.inplane_distance(r1, r2), keep), "inplane_distance result aliases internal state")
    # normalize_vectors, the helper now used, against its plain definition
    for shape in ((1, 3), (7, 3), (500, 3)):
        v = rng.normal(size=shape) * 10
        check(bit_equal(geom.normalize_vectors(v), v / np.linalg.norm(v, axis=1)[:, np.newaxis]), "normalize_vectors differs from v / |v|")
    print(f"compared {n_pairs} pair sets, {n_wrapped} wrapped in-plane differences")


property_checks()
compare_with_original()
finish("C06-b")
