"""C08 -- particle-list set algebra and identifier discipline.

Change a: Motl.get_motl_subset gathers the per-value selections in a list and concatenates them once (and looks the
feature column up once) instead of growing the result by one pd.concat per requested value.

The demo
 1. runs random histories (up to 10 operations) of subset / remove / split / intersection / drop-duplicates /
    merge-and-renumber / merge-and-drop-duplicates / renumber particles / renumber objects on random particle lists
    (0..200 rows, repeated values, requested values that do not occur, NaN holes in the non-key fields, unsorted and
    repeated ids, zero / negative object numbers, integer and float columns, shuffled columns, non-default row labels)
    and compares Motl.df after every operation with a pure-Python row-set model,
 2. replays every history with the ORIGINAL text of the changed function(s) (kept below) put back into the class and
    requires bit-identical frames (values, dtypes, column order, row labels) after every operation,
 3. adds directed edge cases for the changed function(s).
Prints PASS and exits 0 when everything holds.
"""
import os
import sys

sys.path.insert(0, os.getcwd())

import contextlib
import io
import math
import random
import warnings

import numpy as np
import pandas as pd

warnings.simplefilter("ignore")

from cryocat import cryomotl
from cryocat.cryomotl import Motl

COLS = list(Motl.motl_columns)
assert len(COLS) == 20 and len(set(COLS)) == 20
KEYS = ["tomo_id", "object_id", "subtomo_id", "class"]
TAG = "geom3"  # unique row tag, never touched by any of the operations

# ----------------------------------------------------------------------------------------------------------------------
# original text of the function(s) this change touches (HEAD 6462733)
# ----------------------------------------------------------------------------------------------------------------------
ORIG_SRC = '''
def get_motl_subset(self, feature_values, feature_id="tomo_id", return_df=False, reset_index=True):
    if isinstance(feature_values, (list, np.ndarray)):
        feature_values = np.atleast_1d(np.array(feature_values))  # a 0-d array is one value
    else:
        feature_values = np.array([feature_values])

    new_df = Motl.create_empty_motl_df()
    for i in feature_values:
        df_i = self.df.loc[self.df[feature_id] == i].copy()
        new_df = pd.concat([new_df, df_i])

    if reset_index:
        new_df = new_df.reset_index(drop=True)

    if return_df:
        return new_df
    else:
        return Motl(motl_df=new_df)
'''
ORIG_KIND = {"get_motl_subset": "method"}

_ns = dict(vars(cryomotl))
exec(ORIG_SRC, _ns)
ORIG = {name: _ns[name] for name in ORIG_KIND}
CURRENT = {name: Motl.__dict__[name] for name in ORIG_KIND}


def use(which):
    """Put the original ('orig') or the checked-out ('current') implementation into the class."""
    for name, kind in ORIG_KIND.items():
        if which == "current":
            setattr(Motl, name, CURRENT[name])
        else:
            f = ORIG[name]
            setattr(Motl, name, classmethod(f) if kind == "classmethod" else f)


# ----------------------------------------------------------------------------------------------------------------------
# pure-Python row-set model: a list of dicts (20 fields + '_label', the row label)
# ----------------------------------------------------------------------------------------------------------------------
def isnan(x):
    return isinstance(x, float) and math.isnan(x)


def relabel(rows):
    for k, r in enumerate(rows):
        r["_label"] = k
    return rows


def copy_rows(rows):
    return [dict(r) for r in rows]


def fill0(rows):  # what loading a DataFrame into an EmMotl documents: missing values become 0.0
    for r in rows:
        for c in COLS:
            if isnan(r[c]):
                r[c] = 0.0
    return rows


def as_list(values):
    if isinstance(values, (list, np.ndarray)):
        return [float(v) for v in values]
    return [float(values)]


def m_subset(rows, fid, values, reset):
    out = [dict(r) for v in as_list(values) for r in rows if r[fid] == v]
    return relabel(out) if reset else out


def m_remove(rows, fid, values):
    vals = as_list(values)
    return [dict(r) for r in rows if not any(r[fid] == v for v in vals)]


def m_split(rows, fid):
    order = []
    for r in rows:
        if r[fid] not in order:
            order.append(r[fid])
    return [[dict(r) for r in rows if r[fid] == v] for v in order]


def m_intersection(rows1, rows2, fid):
    ids = {r[fid] for r in rows2}
    return relabel(fill0([dict(r) for r in rows1 if r[fid] in ids]))


def m_drop_duplicates(rows, dup="subtomo_id", dec="score", asc=False):
    out = []
    for key in sorted({r[dup] for r in rows}):
        cands = [r for r in rows if r[dup] == key]
        real = [r for r in cands if not isnan(r[dec])]
        if real:
            best = min(r[dec] for r in real) if asc else max(r[dec] for r in real)
            out.append(dict(next(r for r in real if r[dec] == best)))
        else:
            out.append(dict(cands[0]))
    return relabel(out)


def m_concat_unique_objects(inputs):
    out, feature_add = [], 0
    for rows in inputs:
        if not rows:
            continue
        rows = copy_rows(rows)
        fmin = min(r["object_id"] for r in rows)
        if fmin <= feature_add:
            for r in rows:
                r["object_id"] = r["object_id"] + (feature_add - fmin + 1)
        out += rows
        feature_add = max(r["object_id"] for r in rows)
    return out


def m_merge_and_renumber(inputs, first=1):
    out = m_concat_unique_objects(inputs)
    for k, r in enumerate(out):
        r["subtomo_id"] = float(first + k)
    return relabel(out)


def m_merge_and_drop_duplicates(inputs):
    return m_drop_duplicates(m_concat_unique_objects(inputs))


def m_renumber_particles(rows, first=1):
    out = copy_rows(rows)
    for k, r in enumerate(out):
        r["subtomo_id"] = float(first + k)
    return out


def m_renumber_objects(rows, start=1):
    out = relabel(copy_rows(rows))
    for t in sorted({r["tomo_id"] for r in out}):
        seen = []
        for r in out:
            if r["tomo_id"] == t:
                if r["object_id"] not in seen:
                    seen.append(r["object_id"])
                r["object_id"] = float(seen.index(r["object_id"]) + start)
        start += len(seen)
    return out


# ----------------------------------------------------------------------------------------------------------------------
# generators
# ----------------------------------------------------------------------------------------------------------------------
_tag = [0]


def gen_rows(rng, n, id_pool=None):
    n_tomo = rng.choice([1, 2, 3, 5])
    n_obj = rng.choice([1, 2, 4, 9])
    obj_low = rng.choice([1, 1, 0, -3, 7])
    n_cls = rng.choice([1, 2, 3])
    if id_pool is None:
        id_pool = list(range(1, max(2, int(n * rng.choice([0.5, 1.0, 3.0]))) + 1))
    rows = []
    for _ in range(n):
        _tag[0] += 1
        r = {}
        for c in COLS:
            r[c] = float(rng.choice([rng.uniform(-50, 50), 0.0, float(rng.randint(-5, 5))]))
            if c not in KEYS and rng.random() < 0.04:
                r[c] = float("nan")
        r["tomo_id"] = float(rng.choice([3, 1, 12, 7, 40][:n_tomo]))
        r["object_id"] = float(obj_low + rng.randrange(n_obj))
        r["class"] = float(rng.randrange(1, n_cls + 1))
        r["subtomo_id"] = float(rng.choice(id_pool))
        r["score"] = rng.choice([round(rng.uniform(-1, 1), 1), rng.uniform(0, 1), 0.0, float("nan"), 0.5])
        r[TAG] = float(_tag[0])
        rows.append(r)
    return rows


def to_df(rows, rng, fancy=True):
    cols = list(COLS)
    if fancy and rng.random() < 0.3:
        rng.shuffle(cols)
    df = pd.DataFrame({c: [r[c] for r in rows] for c in cols}, columns=cols, dtype=float)
    if fancy and rng.random() < 0.4:  # integer element types in the key columns
        for c in KEYS:
            if rng.random() < 0.7:
                df[c] = df[c].astype("int64")
    kind = rng.choice(["range", "offset", "shuffled", "range"]) if fancy else "range"
    if kind == "offset":
        df.index = pd.RangeIndex(10, 10 + len(df))
    elif kind == "shuffled":
        lab = list(range(len(df)))
        rng.shuffle(lab)
        df.index = pd.Index(lab, dtype="int64")
    for r, lab in zip(rows, df.index):
        r["_label"] = int(lab)
    return df


def gen_motl(rng, n=None, id_pool=None):
    if n is None:
        n = rng.choice([0, 1, 2, 3, 5, 8, 17, 40, 200, rng.randint(0, 200)])
    rows = gen_rows(rng, n, id_pool)
    return Motl(to_df(rows, rng)), rows


# ----------------------------------------------------------------------------------------------------------------------
# checks
# ----------------------------------------------------------------------------------------------------------------------
def same(a, b):
    a, b = float(a), float(b)
    return (math.isnan(a) and math.isnan(b)) or a == b


def check_state(motl, rows, what):
    df = motl.df
    assert sorted(df.columns) == sorted(COLS) and len(df.columns) == 20, (what, list(df.columns))
    assert len(df) == len(rows), (what, len(df), len(rows))
    assert [int(x) for x in df.index] == [r["_label"] for r in rows], (what, "row labels")
    for c in COLS:
        got = df[c].tolist()
        for k, r in enumerate(rows):
            assert same(got[k], r[c]), (what, c, k, got[k], r[c])


def check_untouched(rows, universe, touched, what):
    """every surviving row is one of the rows ever put in, and only the 'touched' fields may differ (NaN -> 0 fill
    of the loading route aside)"""
    for r in rows:
        src = universe[r[TAG]]
        for c in COLS:
            if c in touched:
                continue
            assert same(r[c], src[c]) or (isnan(src[c]) and r[c] == 0.0), (what, c, r[c], src[c])


def pick_values(rng, rows, fid):
    present = sorted({r[fid] for r in rows})
    pool = present + [999.0, -77.0, 0.0, 2.5]
    k = rng.choice([0, 1, 1, 2, 3, 5])
    vals = [rng.choice(pool) for _ in range(k)]  # repeats and absent values allowed
    return vals


def run_history(seed, record):
    """Runs one random history with whatever implementation is installed in the class; checks the model after every
    step; appends the frames seen to `record`."""
    rng = random.Random(seed)
    motl, rows = gen_motl(rng)
    universe = {r[TAG]: dict(r) for r in rows}
    touched = set()
    check_state(motl, rows, "initial")
    record.append(motl.df.copy())

    def other_motl():
        ids = sorted({r["subtomo_id"] for r in rows}) + [rng.randint(1, 300) for _ in range(3)]
        o, orows = gen_motl(rng, n=rng.choice([0, 1, 4, 30, 120]), id_pool=ids)
        for r in orows:
            universe[r[TAG]] = dict(r)
        return o, orows

    for step in range(rng.randint(1, 10)):
        op = rng.choice(
            ["subset", "subset", "remove", "split", "intersection", "dropdup", "merge_renumber", "merge_dropdup",
             "renumber_particles", "renumber_objects"]
        )
        what = f"seed {seed} step {step} {op}"
        before_df = motl.df.copy()
        if op == "subset":
            fid = rng.choice(KEYS)
            vals = pick_values(rng, rows, fid)
            form = rng.choice(["list", "scalar", "npscalar", "intlist"])
            reset = rng.choice([True, True, False])
            if form == "list":
                arg = vals
            elif form == "intlist" and all(float(v).is_integer() for v in vals):
                arg = [int(v) for v in vals]
            elif form == "scalar" or not vals:
                vals = [vals[0] if vals else 999.0]
                arg = vals[0]
            else:
                vals = [vals[0]]
                arg = np.float64(vals[0])
            style = rng.randrange(3)
            if style == 0:
                new = motl.get_motl_subset(arg, feature_id=fid, reset_index=reset)
            elif style == 1:
                new = Motl(motl.get_motl_subset(arg, fid, True, reset))  # positional, return_df=True
            else:
                new = Motl.get_motl_subset(motl, arg, fid, False, reset)  # the call form structure.py uses
            # selection and removal are complementary
            comp = Motl(motl.df.copy())
            comp.remove_feature(fid, vals)
            once = motl.get_motl_subset(list(dict.fromkeys(vals)), fid, True, False)  # every value asked for once
            assert len(comp.df) + len(once) == len(rows), what
            assert not (set(comp.df[fid]) & set(vals)) and set(once[fid]) <= set(vals), what
            assert sorted(list(comp.df.index) + list(once.index)) == sorted(motl.df.index), what
            pd.testing.assert_frame_equal(motl.df, before_df, check_exact=True)  # the source list is left alone
            rows = m_subset(rows, fid, vals, reset)
            motl = new
        elif op == "remove":
            fid = rng.choice(KEYS)
            vals = pick_values(rng, rows, fid)
            form = rng.choice(["list", "array", "scalar"])
            if form == "scalar" or (form == "array" and not vals):
                vals = [vals[0] if vals else 999.0]
                arg = vals[0]
            else:
                arg = np.array(vals) if form == "array" else vals
            motl.remove_feature(fid, arg)
            rows = m_remove(rows, fid, vals)
        elif op == "split":
            fid = rng.choice(KEYS)
            parts = motl.split_by_feature(fid)
            mparts = m_split(rows, fid)
            assert len(parts) == len(mparts), what
            for p, mp in zip(parts, mparts):
                check_state(p, mp, what + " part")
            alltags = [t for p in parts for t in p.df[TAG].tolist()]
            assert sorted(alltags) == sorted(r[TAG] for r in rows), what  # a partition
            if parts and rng.random() < 0.6:
                k = rng.randrange(len(parts))
                motl, rows = parts[k], mparts[k]
        elif op == "intersection":
            o, orows = other_motl()
            fid = rng.choice(["subtomo_id", "subtomo_id", "tomo_id", "object_id"])
            if rng.random() < 0.5:
                new = Motl.get_motl_intersection(motl, o, fid)
                rows = m_intersection(rows, orows, fid)
            else:  # the other list first
                new = Motl.get_motl_intersection(o, motl, feature_id=fid)
                rows = m_intersection(orows, rows, fid)
            pd.testing.assert_frame_equal(motl.df, before_df, check_exact=True)
            motl = new
        elif op == "dropdup":
            style = rng.randrange(4)
            if style == 0:
                motl.drop_duplicates()
                rows = m_drop_duplicates(rows)
            elif style == 1:
                motl.drop_duplicates(decision_sort_ascending=True)
                rows = m_drop_duplicates(rows, asc=True)
            elif style == 2:
                motl.drop_duplicates("object_id", "geom1", True)
                rows = m_drop_duplicates(rows, "object_id", "geom1", True)
            else:
                motl.drop_duplicates(duplicates_column="tomo_id", decision_column="geom2")
                rows = m_drop_duplicates(rows, "tomo_id", "geom2", False)
            dupcol = ["subtomo_id", "subtomo_id", "object_id", "tomo_id"][style]
            assert motl.df[dupcol].is_unique and set(motl.df[dupcol]) == set(before_df[dupcol]), what
        elif op in ("merge_renumber", "merge_dropdup"):
            inputs, minputs = [motl], [rows]
            for _ in range(rng.choice([0, 1, 1, 2])):
                o, orows = other_motl()
                pos = rng.randint(0, len(inputs))
                inputs.insert(pos, o)
                minputs.insert(pos, orows)
            if rng.random() < 0.2:  # an empty list somewhere in between
                pos = rng.randint(0, len(inputs))
                inputs.insert(pos, Motl())
                minputs.insert(pos, [])
            if rng.random() < 0.15:  # the same object twice
                inputs.append(motl)
                minputs.append(rows)
            snap = [i.df.copy() for i in inputs]
            if op == "merge_renumber":
                new = Motl.merge_and_renumber(inputs)
                rows = m_merge_and_renumber(minputs)
                touched |= {"subtomo_id", "object_id"}
                # 1..N and object numbers that do not collide across the inputs, grouping of each input kept
                assert new.df["subtomo_id"].tolist() == [float(k) for k in range(1, len(rows) + 1)], what
                pos, seen_before = 0, set()
                for mi in minputs:
                    chunk = new.df["object_id"].tolist()[pos: pos + len(mi)]
                    old = [r["object_id"] for r in mi]
                    assert len(set(zip(old, chunk))) == len(set(old)) == len(set(chunk)), what
                    assert seen_before.isdisjoint(chunk), what
                    seen_before |= set(chunk)
                    pos += len(mi)
            else:
                new = Motl.merge_and_drop_duplicates(inputs)
                rows = m_merge_and_drop_duplicates(minputs)
                touched |= {"object_id"}
                assert new.df["subtomo_id"].is_unique, what
            for i, s in zip(inputs, snap):  # the inputs are left alone
                pd.testing.assert_frame_equal(i.df, s, check_exact=True)
            motl = new
        elif op == "renumber_particles":
            motl.renumber_particles()
            rows = m_renumber_particles(rows)
            touched |= {"subtomo_id"}
            assert motl.df["subtomo_id"].tolist() == [float(k) for k in range(1, len(rows) + 1)], what
        elif op == "renumber_objects":
            start = rng.choice([1, 1, 1, 5, 0])
            old_pairs = list(zip(motl.df["tomo_id"].tolist(), motl.df["object_id"].tolist()))
            if start == 1 and rng.random() < 0.5:
                motl.renumber_objects_sequentially()
            else:
                motl.renumber_objects_sequentially(start)
            rows = m_renumber_objects(rows, start)
            touched |= {"object_id"}
            new_ids = motl.df["object_id"].tolist()
            assert len(set(zip(old_pairs, new_ids))) == len(set(old_pairs)) == len(set(new_ids)), what
            if new_ids:
                assert sorted(set(new_ids)) == [float(k) for k in range(start, start + len(set(new_ids)))], what
        check_state(motl, rows, what)
        check_untouched(rows, universe, touched, what)
        record.append(motl.df.copy())
    return record


def compare_records(seed, rec_cur, rec_orig):
    assert len(rec_cur) == len(rec_orig), seed
    for k, (a, b) in enumerate(zip(rec_cur, rec_orig)):
        assert list(a.columns) == list(b.columns), (seed, k)
        assert type(a.index) is type(b.index), (seed, k, type(a.index), type(b.index))
        pd.testing.assert_frame_equal(a, b, check_exact=True, check_index_type=True, check_column_type=True)


# ----------------------------------------------------------------------------------------------------------------------
# directed cases for get_motl_subset
# ----------------------------------------------------------------------------------------------------------------------
def directed():
    rng = random.Random(4242)
    n_cases = 0
    for n in [0, 1, 2, 7, 33, 200]:
        for trial in range(2):
            motl, rows = gen_motl(rng, n=n)
            for fid in KEYS + ["score", "geom1"]:
                present = [r[fid] for r in rows if not isnan(r[fid])]
                cases = [[], [999.0], 999.0, [999.0, -1.0]]
                if present:
                    first, last = present[0], present[-1]
                    cases += [first, [first], [last, first], [first, first], sorted(set(present)),
                              sorted(set(present), reverse=True), [999.0, last, 998.0], np.float64(last)]
                    if float(first).is_integer():
                        cases += [int(first), [int(first)], np.int64(int(first))]
                for vals in cases:
                    for reset in (True, False):
                        for ret in ((True,) if n_cases % 2 else (False,)):
                            results = {}
                            for which in ("current", "orig"):
                                use(which)
                                src_before = motl.df.copy()
                                out = motl.get_motl_subset(vals, fid, ret, reset)
                                again = motl.get_motl_subset(vals, fid, ret, reset)  # repeated call, same object
                                pd.testing.assert_frame_equal(motl.df, src_before, check_exact=True)
                                assert isinstance(out, pd.DataFrame) == ret and (ret or type(out) is Motl)
                                out = out if ret else out.df
                                again = again if ret else again.df
                                pd.testing.assert_frame_equal(out, again, check_exact=True)
                                results[which] = out
                            use("current")
                            a, b = results["current"], results["orig"]
                            assert list(a.columns) == list(b.columns) == COLS
                            assert type(a.index) is type(b.index)
                            pd.testing.assert_frame_equal(a, b, check_exact=True, check_index_type=True)
                            # the result does not share memory with the source list: writing into it leaves the source
                            if len(a):
                                keep = motl.df.copy()
                                a.iloc[0, a.columns.get_loc("x")] = 12345.0
                                pd.testing.assert_frame_equal(motl.df, keep, check_exact=True)
                            mrows = m_subset(rows, fid, vals, reset)
                            check_state(Motl(b), mrows, ("directed", n, fid, str(vals), reset))
                            n_cases += 1
    # object-valued column and boolean column: the dtype the empty float motl imposes is the same both ways
    for weird in ("object", "bool", "float32", "int8"):
        motl, rows = gen_motl(rng, n=12)
        df = motl.df.copy()
        if weird == "object":
            df["geom4"] = df["geom4"].astype(object)
        elif weird == "bool":
            df["geom4"] = df["geom4"] > 0
        else:
            df["geom4"] = df["geom4"].fillna(0).astype(weird)
        motl = Motl(df)
        for vals in ([], [999.0], sorted({r["tomo_id"] for r in rows}), rows[0]["tomo_id"]):
            res = {}
            for which in ("current", "orig"):
                use(which)
                res[which] = motl.get_motl_subset(vals, "tomo_id", True, True)
            use("current")
            pd.testing.assert_frame_equal(res["current"], res["orig"], check_exact=True)
            n_cases += 1
    return n_cases


def main():
    n_hist = 260
    n_ops = 0
    for seed in range(n_hist):
        with contextlib.redirect_stdout(io.StringIO()):  # the merges print a note for every empty list
            use("current")
            t0 = _tag[0]
            rec_cur = run_history(seed, [])
            _tag[0] = t0
            use("orig")
            rec_orig = run_history(seed, [])
            use("current")
        compare_records(seed, rec_cur, rec_orig)
        n_ops += len(rec_cur) - 1
    n_dir = directed()
    print(f"histories: {n_hist}, operations checked against the row-set model: {n_ops}, directed cases: {n_dir}")
    print("PASS")


if __name__ == "__main__":
    main()
