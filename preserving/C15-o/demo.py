import os, sys

sys.path.insert(0, os.getcwd())

import contextlib, io, itertools, tempfile, textwrap, warnings

warnings.filterwarnings("ignore")
import numpy as np
import mrcfile

from cryocat import tiltstack, ioutils

# ----------------------------------------------------------------------------------------------------------------
# Property C15: tilt-stack operations are lossless selections / permutations of tilt images, independent of
# the axis order of input / output and of array-vs-file input; the written file holds the result.
# The reference below never touches cryocat: canonical layout is A[n, y, x]; an "xyz" array is A.transpose(2,1,0);
# files are written / read with mrcfile directly.
# ----------------------------------------------------------------------------------------------------------------

FAILS = []
N_CHECKS = [0]
TMP = tempfile.mkdtemp(prefix="c15demo_")


def quiet(fn, *args, **kwargs):
    with contextlib.redirect_stdout(io.StringIO()):
        return fn(*args, **kwargs)


def check(cond, msg):
    N_CHECKS[0] += 1
    if not cond:
        FAILS.append(msg)
        if len(FAILS) <= 15:
            print("FAIL:", msg)


def same(a, b, exact=True):
    a = np.asarray(a)
    b = np.asarray(b)
    if a.shape != b.shape or a.dtype != b.dtype:
        return False
    if exact:
        return np.array_equal(a, b)
    return np.allclose(a, b, rtol=1e-5, atol=1e-5)


def make_stack(rng, n, h, w, dtype):
    if dtype == np.int16:
        a = rng.integers(-3000, 3000, size=(n, h, w)).astype(np.int16)
    else:
        a = rng.normal(0, 50, size=(n, h, w)).astype(np.float32)
    # special values: zeros, negative, first / last element marks
    a[0, 0, 0] = 0
    a[-1, -1, -1] = -7
    a[0, -1, 0] = 11
    return a


def as_input(a, order, kind, tag):
    """canonical A[n,y,x] -> what is handed to cryocat."""
    if kind == "file":
        fn = os.path.join(TMP, f"in_{tag}.mrc")
        mrcfile.write(fn, data=np.ascontiguousarray(a), overwrite=True)
        return fn
    if order == "xyz":
        return np.ascontiguousarray(a.transpose(2, 1, 0))
    return a.copy()


def canon(res, out_order):
    """returned array -> canonical [n,y,x]."""
    return res.transpose(2, 1, 0) if out_order == "xyz" else res


def read_file(fn):
    with mrcfile.open(fn, permissive=True) as m:
        return np.array(m.data)


def ref_bin(a, f):
    n, h, w = a.shape
    H = -(-h // f) * f
    W = -(-w // f) * f
    p = np.zeros((n, H, W), dtype=np.float64)
    p[:, :h, :w] = a
    out = np.zeros((n, H // f, W // f), dtype=np.float64)
    for i in range(H // f):
        for j in range(W // f):
            out[:, i, j] = p[:, i * f : (i + 1) * f, j * f : (j + 1) * f].sum(axis=(1, 2)) / (f * f)
    return out.astype(a.dtype)


def configs(rng, light=False):
    sizes = [(2, 4, 7), (3, 5, 4), (25, 40, 33), (2, 40, 4), (7, 6, 9), (10, 13, 8)]
    for _ in range(2 if light else 5):
        n = int(rng.integers(2, 26))
        h = int(rng.integers(4, 41))
        w = int(rng.integers(4, 41))
        if h == w:
            w = w + 1 if w < 40 else w - 1
        sizes.append((n, h, w))
    k = 0
    for n, h, w in sizes:
        for dtype in (np.float32, np.int16):
            for io_, oo in itertools.product(("xyz", "zyx"), repeat=2):
                for kind in ("array", "file"):
                    if kind == "file" and io_ == "zyx" and (k % 2):
                        # input_order is irrelevant for files; still exercise both but thin out
                        pass
                    for out_on in (False, True):
                        k += 1
                        yield n, h, w, dtype, io_, oo, kind, out_on, k


def run_property(rng, light=False):
    for n, h, w, dtype, io_, oo, kind, out_on, k in configs(rng, light):
        a = make_stack(rng, n, h, w, dtype)
        tag = f"n{n}h{h}w{w}{np.dtype(dtype).name}{io_}{oo}{kind}{int(out_on)}"
        inp = as_input(a, io_, kind, "x")
        inp_backup = inp.copy() if isinstance(inp, np.ndarray) else None
        out = os.path.join(TMP, "out.mrc") if out_on else None

        def finish(res, expected, what, exact=True, outfile=out):
            c = canon(res, oo)
            check(same(c, expected, exact), f"{what} returned array wrong [{tag}]")
            if outfile:
                f = read_file(outfile)
                check(same(f, expected, exact), f"{what} written file wrong [{tag}]")
                os.remove(outfile)
            if inp_backup is not None:
                check(np.array_equal(inp, inp_backup), f"{what} modified its input [{tag}]")

        # --- sorting by angle (no ties, any order) ---
        angles = rng.permutation(np.linspace(-60, 60, n) + rng.uniform(-0.4, 0.4, n)).astype(np.float64)
        perm = sorted(range(n), key=lambda i: angles[i])
        if k % 3 == 0:
            tl = angles.tolist()
        elif k % 3 == 1:
            tl = angles
        else:
            tl = os.path.join(TMP, "a.tlt")
            with open(tl, "w") as fh:
                for v in angles:
                    fh.write(f"{v:.3f}\n")
            perm = sorted(range(n), key=lambda i: float(np.float32(float(f"{angles[i]:.3f}"))))
        res = quiet(tiltstack.sort_tilts_by_angle, inp, tl, output_file=out, input_order=io_, output_order=oo)
        finish(res, a[perm], "sort_tilts_by_angle")

        # --- removing tilts ---
        for from1 in (True, False):
            m = int(rng.integers(1, n))  # at least one stays
            sub0 = sorted(rng.choice(n, size=m, replace=False).tolist())
            if k % 4 == 0:
                sub0 = [0] if from1 else [n - 1]  # first / last element
            if k % 4 == 1:
                sub0 = list(rng.permutation(sub0))  # unordered subset
            keep = [i for i in range(n) if i not in set(int(s) for s in sub0)]
            given = [int(s) + (1 if from1 else 0) for s in sub0]
            form = k % 3
            if form == 1:
                given = np.array(given)
            elif form == 2 and len(given) >= 2:  # (a one-line index file is read as a 0-d array; not used here)
                fn = os.path.join(TMP, "idx.txt")
                with open(fn, "w") as fh:
                    fh.write("".join(f"{g}\n" for g in given))
                given = fn
            res = quiet(
                tiltstack.remove_tilts, inp, given, numbered_from_1=from1, output_file=out, input_order=io_,
                output_order=oo,
            )
            finish(res, a[keep], f"remove_tilts(from1={from1})")

        # --- even / odd split ---
        prefix = os.path.join(TMP, "eo") if out_on else None
        ev, od = quiet(tiltstack.split_stack_even_odd, inp, output_file_prefix=prefix, input_order=io_, output_order=oo)
        ev_c, od_c = canon(ev, oo), canon(od, oo)
        check(same(ev_c, a[[i for i in range(n) if i % 2 == 0]]), f"even stack wrong [{tag}]")
        check(same(od_c, a[[i for i in range(n) if i % 2 == 1]]), f"odd stack wrong [{tag}]")
        inter = np.empty_like(a)
        ok_shapes = ev_c.shape[0] == (n + 1) // 2 and od_c.shape[0] == n // 2
        check(ok_shapes, f"even/odd counts wrong [{tag}]")
        if ok_shapes:
            for i in range(n):
                inter[i] = (ev_c if i % 2 == 0 else od_c)[i // 2]
            check(same(inter, a), f"even/odd do not interleave back [{tag}]")
        if prefix:
            check(same(read_file(prefix + "_even.mrc"), a[0::2]), f"even file wrong [{tag}]")
            check(same(read_file(prefix + "_odd.mrc"), a[1::2]), f"odd file wrong [{tag}]")
            os.remove(prefix + "_even.mrc")
            os.remove(prefix + "_odd.mrc")
        if inp_backup is not None:
            check(np.array_equal(inp, inp_backup), f"split modified its input [{tag}]")

        # --- flips: single flips reverse one axis, twice is the identity ---
        for ax, sl in (("x", (slice(None), slice(None, None, -1), slice(None))),
                       ("y", (slice(None), slice(None), slice(None, None, -1))),
                       ("z", (slice(None, None, -1), slice(None), slice(None)))):
            res = quiet(tiltstack.flip_along_axes, inp, ax if k % 2 else [ax], output_file=out, input_order=io_,
                        output_order=oo)
            finish(res, a[sl], f"flip {ax}")
            # second flip on what the first one returned (fed back in its own output order)
            res2 = quiet(tiltstack.flip_along_axes, np.ascontiguousarray(res), [ax], output_file=out, input_order=oo,
                         output_order=oo)
            finish(res2, a, f"flip {ax} twice")
            res3 = quiet(tiltstack.flip_along_axes, inp, [ax, ax], output_file=out, input_order=io_, output_order=oo)
            finish(res3, a, f"flip [{ax},{ax}]")

        # --- centred crop ---
        nw = int(rng.integers(1, w + 1))
        nh = int(rng.integers(1, h + 1))
        if k % 5 == 0:
            nw, nh = w, h
        if k % 5 == 1:
            nw, nh = None, nh
        ew = w if nw is None else nw
        sw = w // 2 - ew // 2
        sh = h // 2 - nh // 2
        res = quiet(tiltstack.crop, inp, new_width=nw, new_height=nh, output_file=out, input_order=io_, output_order=oo)
        finish(res, a[:, sh : sh + nh, sw : sw + ew], "crop")

        # --- binning ---
        f = int(rng.integers(1, 5))
        res = quiet(tiltstack.bin, inp, f, output_file=out, input_order=io_, output_order=oo)
        finish(res, ref_bin(a, f), "bin", exact=(dtype == np.int16))

        # --- repeated call on the same object gives the same answer ---
        r1 = quiet(tiltstack.remove_tilts, inp, [1], input_order=io_, output_order=oo)
        r2 = quiet(tiltstack.remove_tilts, inp, [1], input_order=io_, output_order=oo)
        check(same(r1, r2) and same(canon(r1, oo), a[1:]), f"repeated remove_tilts differs [{tag}]")


# ----------------------------------------------------------------------------------------------------------------
# Change-specific part: ioutils.indices_load -- original function text kept here and executed in the namespace of the
# module; every input kind that was accepted before must give the identical result (values, dtype, shape, identity /
# aliasing of the returned array, error type and message), and the additionally accepted kinds must behave like the
# equivalent list.
# ----------------------------------------------------------------------------------------------------------------
import pandas as pd

ORIGINAL = textwrap.dedent(
    """
    def indices_load_ORIG(input_data, numbered_from_1=True):
        if isinstance(input_data, str):
            if input_data.endswith(".csv"):
                df = pd.read_csv(input_data)
                if "Removed" in df.columns:
                    df = df[~df["Removed"]]
                # indices = df.index[df["ToBeRemoved"]].to_numpy(dtype=int)
                indices = df["ToBeRemoved"].to_numpy().nonzero()[0]
                numbered_from_1 = False  # Always from 0
            else:
                indices = np.loadtxt(input_data, dtype=int)

        elif isinstance(input_data, list) or isinstance(input_data, np.ndarray):
            indices = np.asarray(input_data)
            if len(indices) == 0:
                raise ValueError(f"Input indices can't be empty")
        else:
            raise ValueError(f"Input data must be either path to a valid file either list/array")

        if numbered_from_1:
            indices = indices - 1

        return indices
    """
)
ns = dict(vars(ioutils))
exec(ORIGINAL, ns)
indices_load_orig = ns["indices_load_ORIG"]


def outcome(fn, *args, **kwargs):
    try:
        return ("ok", fn(*args, **kwargs))
    except Exception as e:  # noqa
        return ("err", type(e).__name__, str(e))


def same_outcome(o1, o0):
    if o1[0] != o0[0]:
        return False
    if o1[0] == "err":
        return o1[1:] == o0[1:]
    return type(o1[1]) is type(o0[1]) and same(o1[1], o0[1])


def compare_with_original(rng):
    # ---- old input kinds: identical outcome ----
    for trial in range(300):
        n = int(rng.integers(2, 26))
        m = int(rng.integers(1, n + 1))
        idx = rng.choice(np.arange(1, n + 1), size=m, replace=False)
        if trial % 3 == 0:
            idx = np.sort(idx)
        for from1 in (True, False):
            cases = {
                "list": idx.tolist(),
                "ndarray int64": idx.astype(np.int64),
                "ndarray int32": idx.astype(np.int32),
                "ndarray int16": idx.astype(np.int16),
                "ndarray float": idx.astype(np.float64),
                "list of np ints": list(idx),
                "nested list": [idx.tolist()],
            }
            fn = os.path.join(TMP, "idx_cmp.txt")
            with open(fn, "w") as fh:
                fh.write("".join(f"{g}\n" for g in idx))
            cases["txt file"] = fn
            rem = rng.random(n) < 0.3
            tbr = rng.random(n) < 0.4
            c1 = os.path.join(TMP, "idx1.csv")
            pd.DataFrame({"ToBeRemoved": tbr, "Other": np.arange(n)}).to_csv(c1, index=False)
            c2 = os.path.join(TMP, "idx2.csv")
            pd.DataFrame({"Removed": rem, "ToBeRemoved": tbr, "Other": np.arange(n)}).to_csv(c2, index=False)
            cases["csv"] = c1
            cases["csv with Removed"] = c2
            for nm, given in cases.items():
                o1 = outcome(ioutils.indices_load, given, numbered_from_1=from1)
                o0 = outcome(indices_load_orig, given, numbered_from_1=from1)
                check(same_outcome(o1, o0), f"indices_load({nm}, from1={from1}): new {o1} != original {o0}")
                if isinstance(given, np.ndarray) and o1[0] == "ok":
                    # aliasing as before: same object back when nothing is subtracted, a new one otherwise
                    check((o1[1] is given) == (o0[1] is given), f"indices_load({nm}): aliasing changed")
            # independent expectation for the in-memory forms
            exp = idx - 1 if from1 else idx
            check(np.array_equal(ioutils.indices_load(idx.tolist(), numbered_from_1=from1), exp), "list -> wrong indices")
            exp_csv = np.flatnonzero(tbr[~rem])
            check(np.array_equal(ioutils.indices_load(c2, numbered_from_1=from1), exp_csv), "csv -> wrong indices")
            # positional second argument
            check(same(ioutils.indices_load(idx, from1), indices_load_orig(idx, from1)), "positional numbered_from_1")

    # ---- inputs refused before that must still be refused in the same way ----
    for bad in (123, 1.5, None, True, {1, 2}, {1: 2}, np.int64(3), [], np.array([], dtype=int), "nofile.txt", b"1"):
        o1 = outcome(ioutils.indices_load, bad)
        o0 = outcome(indices_load_orig, bad)
        check(same_outcome(o1, o0), f"indices_load({bad!r}): new {o1} != original {o0}")

    # ---- new kinds behave like the list with the same content; remove_tilts takes them ----
    new_kinds = 0
    for trial in range(120):
        n = int(rng.integers(2, 26))
        h, w = int(rng.integers(4, 41)), int(rng.integers(4, 41))
        dtype = (np.float32, np.int16)[trial % 2]
        a = make_stack(rng, n, h, w, dtype)
        lo = int(rng.integers(1, n + 1))
        hi = int(rng.integers(lo, n + 1))
        if hi - lo + 1 >= n:
            lo = 2  # keep at least one tilt
        block = list(range(lo, hi + 1)) or [lo]
        scattered = rng.choice(np.arange(1, n + 1), size=int(rng.integers(1, n)), replace=False).tolist()
        for lst in (block, scattered):
            variants = {
                "tuple": tuple(lst),
                "Series": pd.Series(lst, index=np.arange(len(lst))[::-1] + 100),
                "Index": pd.Index(lst),
            }
            if lst == list(range(lst[0], lst[-1] + 1)):
                variants["range"] = range(lst[0], lst[-1] + 1)
            for from1 in (True, False):
                use = lst if from1 else [v - 1 for v in lst]
                for nm, v in variants.items():
                    if not from1:
                        v = type(v)(x - 1 for x in v) if nm == "tuple" else (
                            range(v.start - 1, v.stop - 1) if nm == "range" else v - 1)
                    o1 = outcome(ioutils.indices_load, v, numbered_from_1=from1)
                    if o1[0] != "ok":
                        continue  # clean tree: kind not accepted (ValueError) -- nothing to compare
                    new_kinds += 1
                    ref = indices_load_orig(list(use), numbered_from_1=from1)
                    check(same(o1[1], ref), f"indices_load({nm}) differs from the list result")
                    io_, oo = ("xyz", "zyx")[trial % 2], ("xyz", "zyx")[(trial // 2) % 2]
                    inp = as_input(a, io_, "array", "z")
                    res = quiet(tiltstack.remove_tilts, inp, v, numbered_from_1=from1, input_order=io_, output_order=oo)
                    keep = [i for i in range(n) if i + 1 not in set(lst)]
                    check(same(canon(res, oo), a[keep]), f"remove_tilts({nm}) wrong")
    print(f"new input kinds exercised: {new_kinds}")
    for empty in ((), range(0), pd.Series([], dtype=int)):
        o1 = outcome(ioutils.indices_load, empty)
        check(o1[0] == "err" and o1[1] == "ValueError", "empty collection must be refused with ValueError")


if __name__ == "__main__":
    rng = np.random.default_rng(int(os.environ.get("DEMO_SEED", "15")))
    run_property(rng)
    compare_with_original(rng)
    import shutil

    shutil.rmtree(TMP, ignore_errors=True)
    if FAILS:
        print(f"{len(FAILS)} of {N_CHECKS[0]} checks failed")
        print("FAIL")
        sys.exit(1)
    print(f"{N_CHECKS[0]} checks")
    print("PASS")
