"""Demo for property C16 (dose filtering applies the Grant-Grigorieff exposure attenuation), change b.

Run as:  cd /tmp/wt11/C16 && /venv/bin/python /tmp/seedsU/C16/b/demo.py

1. tests the property against an independent computation (un-shifted DFT, signed integer frequency indices) over
   many stacks inside the quantifier,
2. compares the functions of the worktree (possibly patched) with a verbatim copy of the original functions on the
   same inputs (values, dtype, shape, memory layout, side effects on the arguments),
3. exercises the particular concern of change b (see section "change specific").
Prints PASS and exits 0 when everything holds.
"""
import sys, os

sys.path.insert(0, os.getcwd())

import contextlib, io, logging, tempfile, warnings
import numpy as np

warnings.simplefilter("ignore")  # 0 ** -1.665 at the zero frequency warns (divide by zero); that is the original code

from cryocat import tiltstack, ioutils, cryomap

CHANGE = "b"

# ------------------------------------------------------------------------------------------------------------------
# verbatim copy of the ORIGINAL functions (cryocat/tiltstack.py:391-492 at HEAD)
ORIGINAL_TEXT = r'''
def dose_filter(tilt_stack, pixel_size, total_dose, output_file=None, input_order="xyz", output_order="xyz"):
    """Apply a dose filter to a tilt stack of images.

    Parameters
    ----------
    tilt_stack : str or array-like
        The input tilt stack data containing the images to be filtered.
    pixel_size : float
        The size of a pixel in the same units as the tilt stack in Angstroms.
    total_dose : str or array_like
        The total dose for each tilt image in the stack specified either by a file path or directly as an array.
    output_file : str, optional
        The file path to save the filtered tilt stack. If None, the output will not be saved. Defaults to None.
    input_order : str, default='xyz'
        The order of the input data dimensions. Relevant only if tilt_stack in numpy.ndarray. Defaults to 'xyz'.
    output_order : str, default='xyz'
        The order of the output data dimensions. It does not influence order for writing the stack out, just of the
        returned array. Defaults to 'xyz'.

    Returns
    -------
    numpy.ndarray
        Numpy 3D array with tilt stack data with the dose filter applied.

    Notes
    -----
    This function calculates a frequency array based on the pixel size and applies a dose filter to each image in the
    tilt stack. The filtered images are then saved to the specified output file if provided.
    """

    print(f"Dose-filtering started...")

    ts = TiltStack(tilt_stack=tilt_stack, input_order=input_order, output_order=output_order)
    pixel_size = float(pixel_size)
    total_dose = ioutils.total_dose_load(total_dose)

    # Precalculate frequency array
    frequency_array = np.zeros((ts.height, ts.width))
    cen_x = ts.width // 2  # Center for array is half the image size
    cen_y = ts.height // 2  # Center for array is half the image size

    rstep_x = 1 / (ts.width * pixel_size)  # reciprocal pixel size
    rstep_y = 1 / (ts.height * pixel_size)

    # Loop to fill array with frequency values
    for x in range(ts.width):
        for y in range(ts.height):
            d = np.sqrt(((x - cen_x) ** 2 * rstep_x**2) + ((y - cen_y) ** 2 * rstep_y**2))
            frequency_array[y, x] = d

    # Generate filtered stack
    ts.data = np.array(ts.data, copy=True)  # Make ts.data writeable
    for z in range(ts.n_tilts):
        image = ts.data[z, :, :]
        ts.data[z, :, :] = dose_filter_single_image(image, total_dose[z], frequency_array)

    ts.write_out(output_file)

    print(f"...dose-filtering finished.")

    return ts.correct_order()


def dose_filter_single_image(image, dose, freq_array):
    """Filter a single image based on dose and frequency array using Fourier transform.

    Parameters
    ----------
    image : ndarray
        The input image to be filtered, represented as a 2D array.
    dose : float
        The dose value used to calculate the exposure-dependent amplitude attenuator.
    freq_array : ndarray
        The frequency array corresponding to the image, used in the calculation of the attenuator.

    Returns
    -------
    numpy.ndarray
        The filtered image, represented as a 2D array, with the same shape as the input image.

    Notes
    -----
    This function applies a frequency-dependent attenuation based on the dose, using parameters derived from
    the Grant and Grigorieff paper. The Fourier transform is utilized to perform the filtering in the frequency domain.
    """

    # Hard-coded resolution-dependent critical exposures
    # These parameters come from the fitted numbers in the Grant and Grigorieff paper.
    a = 0.245
    b = -1.665
    c = 2.81

    # Calculate Fourier transform
    ft = np.fft.fftshift(np.fft.fft2(image))

    # Calculate exposure-dependent amplitude attenuator
    q = np.exp((-dose) / (2 * ((a * (freq_array**b)) + c)))

    # Attenuate and inverse transform
    filtered_image = np.fft.ifft2(np.fft.ifftshift(ft * q))

    return filtered_image.real
'''
_ns = {"np": np, "ioutils": ioutils, "cryomap": cryomap, "TiltStack": tiltstack.TiltStack, "os": os}
exec(compile(ORIGINAL_TEXT, "<original>", "exec"), _ns)
orig_dose_filter = _ns["dose_filter"]
orig_single = _ns["dose_filter_single_image"]

A, B, C = 0.245, -1.665, 2.81
FAILS = []
N_CHECKS = [0]


def check(cond, msg):
    N_CHECKS[0] += 1
    if not cond:
        FAILS.append(msg)
        if len(FAILS) <= 20:
            print("FAIL:", msg)


def quiet(f, *a, **k):
    with contextlib.redirect_stdout(io.StringIO()):
        return f(*a, **k)


def signed_index(n):
    k = np.arange(n)
    return ((k + n // 2) % n) - n // 2  # DFT index -> signed frequency index, zero at k = 0


def attenuation(h, w, pixel, dose):
    """Independent: attenuation on the UN-shifted DFT grid of an h x w image; zero frequency -> exactly 1."""
    fy = signed_index(h)[:, None] / (h * pixel)
    fx = signed_index(w)[None, :] / (w * pixel)
    f = np.sqrt(fx * fx + fy * fy)
    q = np.ones((h, w))
    nz = f > 0
    q[nz] = np.exp(-float(dose) / (2.0 * (A * f[nz] ** B + C)))
    return q, f


def tol_for(dtype):
    return 1e-9 if np.dtype(dtype) == np.float64 else 2e-5


def check_property(stack_zyx, out_zyx, pixel, doses, tag):
    """out's 2-D DFT == in's 2-D DFT * q at every frequency of every image; zero frequency / mean unchanged."""
    n, h, w = stack_zyx.shape
    check(out_zyx.shape == stack_zyx.shape, f"{tag}: shape {out_zyx.shape} != {stack_zyx.shape}")
    check(out_zyx.dtype == stack_zyx.dtype, f"{tag}: dtype {out_zyx.dtype} != {stack_zyx.dtype}")
    tol = tol_for(stack_zyx.dtype)
    for i in range(n):
        fin = np.fft.fft2(stack_zyx[i].astype(np.float64))
        fout = np.fft.fft2(out_zyx[i].astype(np.float64))
        q, _ = attenuation(h, w, pixel, np.asarray(doses).reshape(-1)[i])
        scale = max(np.abs(fin).max(), 1e-30)
        err = np.abs(fout - fin * q).max() / scale
        check(err < tol, f"{tag}: image {i} DFT deviates from formula by {err:.3g} (rel.)")
        check(abs(fout[0, 0] - fin[0, 0]) / scale < tol, f"{tag}: image {i} zero frequency changed")
        m_in, m_out = stack_zyx[i].astype(np.float64).mean(), out_zyx[i].astype(np.float64).mean()
        check(abs(m_in - m_out) <= tol * max(1.0, np.abs(stack_zyx[i]).max()), f"{tag}: image {i} mean changed")
        # power never increases at any frequency
        check(np.all(np.abs(fout) <= np.abs(fin) + tol * scale), f"{tag}: image {i} power increased")


def same_as_original(new, old, tag):
    check(type(new) is type(old), f"{tag}: type {type(new)} vs original {type(old)}")
    check(new.dtype == old.dtype, f"{tag}: dtype {new.dtype} vs original {old.dtype}")
    check(new.shape == old.shape, f"{tag}: shape {new.shape} vs original {old.shape}")
    check(new.strides == old.strides, f"{tag}: strides {new.strides} vs original {old.strides}")
    check(new.flags.writeable == old.flags.writeable, f"{tag}: writeable flag differs from original")
    check(np.array_equal(new, old, equal_nan=True), f"{tag}: values differ from original")


def to_zyx(arr, order):
    return arr.transpose(2, 1, 0) if order == "xyz" else arr


def run_both(stack, pixel, doses, tag, **kw):
    """Run worktree function and original on the same inputs, check equality + no mutation of the arguments."""
    s0 = stack.copy()
    d0 = np.array(doses, copy=True) if isinstance(doses, np.ndarray) else list(doses)
    new = quiet(tiltstack.dose_filter, stack, pixel, doses, **kw)
    check(np.array_equal(stack, s0), f"{tag}: input stack was modified")
    check(np.array_equal(np.asarray(doses), np.asarray(d0)), f"{tag}: dose argument was modified")
    if isinstance(doses, np.ndarray):
        check(doses.dtype == np.asarray(d0).dtype, f"{tag}: dose dtype was modified")
    old = quiet(orig_dose_filter, stack, pixel, doses, **kw)
    same_as_original(new, old, tag)
    check(not np.shares_memory(new, stack), f"{tag}: result shares memory with the input")
    return new


rng = np.random.default_rng(20260928)

# ------------------------------------------------------------------------------------------------------------------
# 1. random stacks over the whole quantifier
SIZES = [4, 5, 6, 7, 8, 9, 15, 16, 17, 31, 32, 33, 63, 64]
cases = []
for h in (4, 5, 63, 64):  # extreme sizes, both parities, independent in the two directions
    for w in (4, 5, 63, 64):
        cases.append((h, w))
while len(cases) < 150:
    cases.append((int(rng.choice(SIZES)), int(rng.choice(SIZES))))
while len(cases) < 220:
    cases.append((int(rng.integers(4, 65)), int(rng.integers(4, 65))))

for ci, (h, w) in enumerate(cases):
    n = int(rng.integers(1, 11)) if ci % 7 else (1 if ci % 14 else 10)
    pixel = [0.5, 10.0, 1.0, 1.327][ci % 4] if ci < 24 else float(rng.uniform(0.5, 10.0))
    doses = rng.uniform(0.0, 300.0, n)  # any order: not sorted
    if ci % 3 == 0:
        doses[rng.integers(0, n)] = 0.0  # exact zero dose
    if ci % 5 == 0:
        doses[rng.integers(0, n)] = 300.0  # exact upper end
    if ci % 11 == 0:
        doses = np.sort(doses)[::-1].copy()  # descending
    if ci % 13 == 0:
        doses[:] = doses[0]  # all equal
    dtype = np.float32 if ci % 4 == 3 else np.float64
    in_order = "zyx" if ci % 3 == 1 else "xyz"
    out_order = "zyx" if ci % 5 == 2 else "xyz"
    kind = ci % 6
    zyx = rng.normal(0.0, 1.0, (n, h, w)) * rng.uniform(0.1, 100.0) + rng.uniform(-50, 50)
    if kind == 1:
        zyx[zyx < 0] = 0.0  # many exact zeros
    elif kind == 2:
        zyx = -np.abs(zyx)  # all negative
    elif kind == 3:
        zyx[:] = rng.uniform(-5, 5)  # constant images
    elif kind == 4:
        zyx = np.round(zyx)  # integer-valued floats
    zyx = zyx.astype(dtype)
    stack = np.ascontiguousarray(zyx.transpose(2, 1, 0)) if in_order == "xyz" else zyx.copy()
    if ci % 9 == 4:
        stack = np.asfortranarray(stack)  # another memory layout of the same values
    if ci % 10 == 6:
        stack.setflags(write=False)  # read-only input
    dose_arg = doses
    if ci % 8 == 1:
        dose_arg = [float(d) for d in doses]  # list
    elif ci % 8 == 2:
        dose_arg = doses.astype(np.float32)
    elif ci % 8 == 3:
        dose_arg = np.floor(doses).astype(np.int64)  # integer doses
    tag = f"case {ci} n={n} h={h} w={w} px={pixel:.3f} {np.dtype(dtype).name} {in_order}->{out_order}"
    out = run_both(stack, pixel, dose_arg, tag, input_order=in_order, output_order=out_order)
    check_property(zyx, to_zyx(out, out_order), pixel, np.asarray(dose_arg, dtype=np.float64), tag)
    if ci % 6 == 0:  # repeated call on the same objects gives the same answer
        out2 = quiet(tiltstack.dose_filter, stack, pixel, dose_arg, input_order=in_order, output_order=out_order)
        check(np.array_equal(out, out2), f"{tag}: repeated call differs")

# ------------------------------------------------------------------------------------------------------------------
# 2. pure plane waves: every wave is an eigenfunction, scaled by q(f) (zero frequency: by exactly 1)
for h, w in [(4, 4), (5, 4), (8, 9), (16, 16), (33, 20), (64, 63), (64, 64)]:
    yy, xx = np.mgrid[0:h, 0:w]
    ks = {(0, 0), (0, 1), (1, 0), (1, 1), (h // 2, w // 2), (h // 2, 0), (0, w // 2), ((h - 1) // 2, (w - 1) // 2), (h - 1, w - 1)}
    for _ in range(4):
        ks.add((int(rng.integers(0, h)), int(rng.integers(0, w))))
    ks = sorted(ks)
    pixel = float(rng.uniform(0.5, 10.0))
    doses = rng.uniform(0.0, 300.0, len(ks))
    phases = rng.uniform(0, 2 * np.pi, len(ks))
    zyx = np.stack([np.cos(2 * np.pi * (ky * yy / h + kx * xx / w) + p) for (ky, kx), p in zip(ks, phases)])
    if len(ks) > 10:
        ks, doses, zyx = ks[:10], doses[:10], zyx[:10]
    stack = np.ascontiguousarray(zyx.transpose(2, 1, 0))
    out = to_zyx(run_both(stack, pixel, doses, f"plane waves {h}x{w}"), "xyz")
    for i, (ky, kx) in enumerate(ks):
        q, f = attenuation(h, w, pixel, doses[i])
        # a real cosine has the two components +-k; both have the same |f|, hence the same q
        check(abs(q[ky, kx] - q[-ky % h, -kx % w]) < 1e-15, "q not symmetric")
        check(np.abs(out[i] - q[ky, kx] * zyx[i]).max() < 1e-9, f"plane wave k=({ky},{kx}) in {h}x{w}: not scaled by q={q[ky, kx]:.6f}")
        if (ky, kx) == (0, 0):
            check(np.abs(out[i] - zyx[i]).max() < 1e-12, f"constant image {h}x{w} changed")
    check_property(zyx, out, pixel, doses, f"plane waves {h}x{w}")

# ------------------------------------------------------------------------------------------------------------------
# 3. consequences: identity at zero dose, linearity, monotone in dose, d1 then d2 == d1 + d2
for t in range(40):
    n, h, w = int(rng.integers(1, 11)), int(rng.integers(4, 65)), int(rng.integers(4, 65))
    pixel = float(rng.uniform(0.5, 10.0))
    x1 = rng.normal(size=(w, h, n)) * 10 + 3
    x2 = rng.normal(size=(w, h, n)) * 5 - 1
    tag = f"consequence {t} ({n},{h},{w})"
    z = run_both(x1, pixel, np.zeros(n), tag + " zero dose")
    check(np.abs(z - x1).max() < 1e-10, f"{tag}: zero dose is not the identity")
    d1 = rng.uniform(0, 150, n)
    d2 = rng.uniform(0, 150, n)
    al, be = rng.uniform(-3, 3, 2)
    f1 = run_both(x1, pixel, d1, tag + " d1")
    f2 = quiet(tiltstack.dose_filter, x2, pixel, d1)
    f12 = quiet(tiltstack.dose_filter, al * x1 + be * x2, pixel, d1)
    check(np.abs(f12 - (al * f1 + be * f2)).max() < 1e-8, f"{tag}: not linear")
    f_seq = quiet(tiltstack.dose_filter, f1, pixel, d2)
    f_sum = run_both(x1, pixel, d1 + d2, tag + " d1+d2")
    check(np.abs(f_seq - f_sum).max() < 1e-8, f"{tag}: d1 then d2 differs from d1+d2")
    p1 = np.abs(np.fft.fft2(f1, axes=(0, 1)))
    ps = np.abs(np.fft.fft2(f_sum, axes=(0, 1)))
    p0 = np.abs(np.fft.fft2(x1, axes=(0, 1)))
    check(np.all(ps <= p1 + 1e-8 * p0.max()) and np.all(p1 <= p0 + 1e-8 * p0.max()), f"{tag}: more dose does not attenuate more")
    # pairing of dose i with image i: permuting images and doses together permutes the result
    perm = rng.permutation(n)
    fp = quiet(tiltstack.dose_filter, np.ascontiguousarray(x1[:, :, perm]), pixel, d1[perm])
    check(np.array_equal(fp, f1[:, :, perm]), f"{tag}: dose i is not paired with image i")

# ------------------------------------------------------------------------------------------------------------------
# 4. the single-image function itself against the formula and the original (shifted frequency grid as dose_filter builds it)
for t in range(60):
    h, w = int(rng.integers(4, 65)), int(rng.integers(4, 65))
    pixel, dose = float(rng.uniform(0.5, 10)), float(rng.choice([0.0, 300.0, rng.uniform(0, 300)]))
    sy = (np.arange(h) - h // 2)[:, None] / (h * pixel)
    sx = (np.arange(w) - w // 2)[None, :] / (w * pixel)
    fa = np.sqrt(sx**2 + sy**2)
    img = rng.normal(size=(h, w)).astype(np.float32 if t % 3 == 0 else np.float64)
    fa0, img0 = fa.copy(), img.copy()
    new = tiltstack.dose_filter_single_image(img, dose, fa)
    old = orig_single(img, dose, fa)
    same_as_original(new, old, f"single image {t}")
    check(np.array_equal(fa, fa0) and np.array_equal(img, img0), f"single image {t}: arguments modified")
    q, _ = attenuation(h, w, pixel, dose)
    exp = np.fft.ifft2(np.fft.fft2(img.astype(np.float64)) * q).real
    check(np.abs(new - exp).max() < 1e-6 * max(1, np.abs(img).max()), f"single image {t}: deviates from formula")

# ------------------------------------------------------------------------------------------------------------------
# 5. files: stack from .mrc, dose from a one-value-per-line text file, result written to output_file
with tempfile.TemporaryDirectory() as td:
    for t, (n, h, w) in enumerate([(1, 4, 6), (3, 17, 32), (10, 64, 5)]):
        zyx = (rng.normal(size=(n, h, w)) * 20 + 7).astype(np.float32)
        doses = rng.uniform(0, 300, n)
        pixel = float(rng.uniform(0.5, 10))
        mrc, txt = os.path.join(td, f"in{t}.mrc"), os.path.join(td, f"dose{t}.txt")
        out_new, out_old = os.path.join(td, f"new{t}.mrc"), os.path.join(td, f"old{t}.mrc")
        cryomap.write(zyx, mrc, transpose=False)
        np.savetxt(txt, doses, fmt="%.6f")
        new = quiet(tiltstack.dose_filter, mrc, pixel, txt, output_file=out_new)
        old = quiet(orig_dose_filter, mrc, pixel, txt, output_file=out_old)
        same_as_original(new, old, f"file case {t}")
        check_property(zyx, to_zyx(new, "xyz"), pixel, np.loadtxt(txt, ndmin=1).astype(np.float32), f"file case {t}")
        w_new, w_old = cryomap.read(out_new, transpose=False), cryomap.read(out_old, transpose=False)
        same_as_original(w_new, w_old, f"file case {t} written file")
        check(np.array_equal(w_new, to_zyx(new, "xyz")), f"file case {t}: written file differs from the returned stack")
        check(np.array_equal(cryomap.read(mrc, transpose=False), zyx), f"file case {t}: input file changed")

# ------------------------------------------------------------------------------------------------------------------
# 6. change specific
import random


def outcome(f, *a, **k):
    try:
        return quiet(f, *a, **k)
    except Exception as e:  # noqa
        return e


# 6a. (change a: the defensive copy) memory-mapped, read-only and non-contiguous inputs: the result is a fresh,
#     writeable plain ndarray of the same layout as the original code returned and the source is untouched
with tempfile.TemporaryDirectory() as td:
    for t, (shape, order) in enumerate([((9, 6, 3), "xyz"), ((2, 7, 12), "zyx"), ((5, 5, 1), "xyz")]):
        path = os.path.join(td, f"mm{t}.dat")
        src = rng.normal(size=shape).astype(np.float32)
        src.tofile(path)
        mm = np.memmap(path, dtype=np.float32, mode="r", shape=shape)
        n = shape[2] if order == "xyz" else shape[0]
        doses = rng.uniform(0, 300, n)
        new = run_both(mm, 2.5, doses, f"memmap {t}", input_order=order, output_order=order)
        check(type(new) is np.ndarray and new.flags.writeable, f"memmap {t}: result is not a writeable plain ndarray")
        check(np.array_equal(np.fromfile(path, dtype=np.float32).reshape(shape), src), f"memmap {t}: file changed")
        check_property(to_zyx(src, order), to_zyx(new, order), 2.5, doses, f"memmap {t}")
        del mm
    big = rng.normal(size=(20, 24, 12))
    view = big[2:18:2, 1:22:3, ::4]  # strided view, 3 tilts
    new = run_both(view, 1.7, [10.0, 0.0, 300.0], "strided view")
    check_property(to_zyx(np.ascontiguousarray(view), "xyz"), to_zyx(new, "xyz"), 1.7, [10.0, 0.0, 300.0], "strided view")
    new[...] = 0  # writing into the result must not reach the caller's array
    check(np.array_equal(view, big[2:18:2, 1:22:3, ::4]) and np.abs(big).min() > 0, "strided view: result aliases input")

# integer-typed stacks: the result is stored back into the stack's integer dtype (truncated), so only the comparison
# with the original is made here, not the property (the quantifier's random images are floating point)
for t, dt in enumerate([np.int16, np.int32, np.uint8]):
    ist = rng.integers(0, 200, size=(7, 9, 4)).astype(dt)
    run_both(ist, 3.0, [0.0, 5.0, 40.0, 300.0], f"integer stack {np.dtype(dt).name}")

# 6b. (change b: validation) inputs OUTSIDE the quantifier that cannot be filtered are rejected by the original and by
#     the worktree (the exception type may differ) and nothing is written; neighbouring inputs that the original
#     accepts (longer dose list, column-shaped doses, empty stack, numeric strings) still give the same result
st = rng.normal(size=(8, 6, 3))
with tempfile.TemporaryDirectory() as td:
    for t, (px, ds) in enumerate([(0.0, [1.0, 2.0, 3.0]), (1.0, [1.0, 2.0]), (1.0, np.array(5.0)), (1.0, []), (1.0, 5.0)]):
        of = os.path.join(td, f"bad{t}.mrc")
        r_new = outcome(tiltstack.dose_filter, st, px, ds, output_file=of)
        r_old = outcome(orig_dose_filter, st, px, ds)
        check(isinstance(r_old, Exception), f"bad input {t}: the original accepted it?")
        check(isinstance(r_new, Exception), f"bad input {t}: not rejected any more")
        check(not os.path.exists(of), f"bad input {t}: an output file was written")
for t, (px, ds) in enumerate(
    [
        (1.0, [1.0, 2.0, 3.0, 4.0, 5.0]),  # more doses than images: the first n are used
        (2.0, np.array([[1.0], [20.0], [300.0]])),  # column-shaped doses
        ("1.327", [0.0, 150.0, 300.0]),  # numeric string: float() in dose_filter
        (np.float32(3.5), (np.array([3, 2, 1]))),  # numpy scalar pixel size, integer doses
        (np.array(0.5), np.array([300.0, 0.0, 12.5])),  # 0-d array pixel size
        (10, [7.0, 7.0, 7.0]),  # python int
    ]
):
    r_new = outcome(tiltstack.dose_filter, st, px, ds)
    r_old = outcome(orig_dose_filter, st, px, ds)
    check(isinstance(r_new, np.ndarray) and isinstance(r_old, np.ndarray), f"neighbour input {t}: rejected ({r_new!r})")
    if isinstance(r_new, np.ndarray) and isinstance(r_old, np.ndarray):
        same_as_original(r_new, r_old, f"neighbour input {t}")
empty = np.zeros((6, 8, 0))
r_new, r_old = outcome(tiltstack.dose_filter, empty, 1.0, []), outcome(orig_dose_filter, empty, 1.0, [])
check(isinstance(r_new, np.ndarray) and isinstance(r_old, np.ndarray) and r_new.shape == r_old.shape == (6, 8, 0), "empty stack")

# 6c. (change c: diagnostics) with DEBUG logging switched on for the whole package the results, the arguments, numpy's
#     and python's random states and the print-out are what they are with logging off
buf = io.StringIO()
handler = logging.StreamHandler(buf)
pkg_logger = logging.getLogger("cryocat")
old_level = pkg_logger.level
pkg_logger.addHandler(handler)
pkg_logger.setLevel(logging.DEBUG)
try:
    for t in range(25):
        n, h, w = int(rng.integers(1, 11)), int(rng.integers(4, 65)), int(rng.integers(4, 65))
        px = float(rng.uniform(0.5, 10))
        stack = (rng.normal(size=(w, h, n)) * 4).astype(np.float32 if t % 2 else np.float64)
        doses = rng.uniform(0, 300, n)
        np.random.seed(t)
        random.seed(t)
        s_np, s_py = np.random.get_state(), random.getstate()
        out_buf = io.StringIO()
        with contextlib.redirect_stdout(out_buf):
            new = tiltstack.dose_filter(stack, px, doses)
        s_np2 = np.random.get_state()
        check(s_np[0] == s_np2[0] and np.array_equal(s_np[1], s_np2[1]) and s_np[2:] == s_np2[2:], f"logging {t}: numpy random state moved")
        check(random.getstate() == s_py, f"logging {t}: python random state moved")
        check(out_buf.getvalue() == "Dose-filtering started...\n...dose-filtering finished.\n", f"logging {t}: print-out changed: {out_buf.getvalue()!r}")
        pkg_logger.setLevel(logging.WARNING)
        off = quiet(tiltstack.dose_filter, stack, px, doses)
        pkg_logger.setLevel(logging.DEBUG)
        old = quiet(orig_dose_filter, stack, px, doses)
        same_as_original(new, old, f"logging on {t}")
        same_as_original(off, old, f"logging off {t}")
        check_property(to_zyx(stack, "xyz"), to_zyx(new, "xyz"), px, doses, f"logging on {t}")
    r_new = outcome(tiltstack.dose_filter, empty, 1.0, [])
    check(isinstance(r_new, np.ndarray) and r_new.shape == (6, 8, 0), f"empty stack with logging on: {r_new!r}")
    r_new = outcome(tiltstack.dose_filter, st, 2.0, np.array([[1.0], [20.0], [300.0]]))
    check(isinstance(r_new, np.ndarray) and np.array_equal(r_new, quiet(orig_dose_filter, st, 2.0, np.array([[1.0], [20.0], [300.0]]))), "column doses with logging on")
finally:
    pkg_logger.removeHandler(handler)
    pkg_logger.setLevel(old_level)

print(f"change {CHANGE}: {N_CHECKS[0]} checks, {len(FAILS)} failed, {len(buf.getvalue().splitlines())} log lines captured")
if FAILS:
    print("FAILED")
    sys.exit(1)
print("PASS")
