import sys, os

sys.path.insert(0, os.getcwd())
import random
import tempfile
import shutil
import warnings

import numpy as np
import pandas as pd

warnings.filterwarnings("ignore")

from cryocat import mdoc as mdoc_mod
from cryocat import ioutils, wedgeutils, starfileio
import emfile

FAILS = []


def check(cond, msg):
    if not cond:
        FAILS.append(msg)
        if len(FAILS) < 15:
            print("FAIL:", msg)


def same(a, b):
    """value + type equality for the scalar cell values of an mdoc table"""
    if isinstance(a, (float, np.floating)) and isinstance(b, (float, np.floating)):
        return float(a) == float(b)
    if isinstance(a, (int, np.integer)) and not isinstance(a, bool) and isinstance(b, (int, np.integer)):
        return int(a) == int(b)
    if isinstance(a, (bool, np.bool_)) and isinstance(b, (bool, np.bool_)):
        return bool(a) == bool(b)
    if isinstance(a, str) and isinstance(b, str):
        return a == b
    return False


# ----------------------------------------------------------------------------------------------------------------
# mdoc grammar
# ----------------------------------------------------------------------------------------------------------------
def gen_value(rng, kind=None):
    """returns (text in the file, value expected after reading)"""
    kind = kind or rng.choice(["int", "float", "neg", "text", "pair", "path", "date"])
    if kind == "int":
        v = rng.randrange(0, 100000)
        return str(v), v
    if kind == "float":
        v = round(rng.uniform(0, 5000), rng.randrange(1, 5))
        t = repr(v)
        if "e" in t:
            t, v = "0.5", 0.5
        return t, float(t)
    if kind == "neg":
        t = "-" + repr(round(rng.uniform(0.1, 300), 3))
        return t, t  # negative numbers stay text (only TiltAngle is converted)
    if kind == "pair":
        t = "{} {}".format(rng.randrange(1, 9000), rng.randrange(1, 9000))
        return t, t
    if kind == "path":
        t = "X:\\frames\\ts_{:03d}_{:03d}.tif".format(rng.randrange(999), rng.randrange(999))
        return t, t
    if kind == "date":
        t = "{:02d}-Mar-21  {:02d}:{:02d}:{:02d}".format(
            rng.randrange(1, 29), rng.randrange(24), rng.randrange(60), rng.randrange(60)
        )
        return t, t
    t = rng.choice(["SerialEM", "K3 camera", "abc", "x1.2.3", "1.2.3", "True", "nan-like", "a_b"])
    return t, t


def gen_mdoc(rng, n_img=None, with_prior=True):
    n_img = n_img or rng.randrange(1, 81)
    header = {}
    for k in rng.sample(["PixelSpacing", "Voltage", "ImageFile", "ImageSize", "DataMode", "Extra"], rng.randrange(1, 6)):
        header[k] = gen_value(rng)
    titles = ["T = " + rng.choice(["SerialEM: Digitized on K3", "Tilt axis angle 85.3, binning 1", "note"])
              for _ in range(rng.randrange(0, 3))]
    keys = ["TiltAngle", "ExposureDose"]
    if with_prior:
        keys.append("PriorRecordDose")
    extra = [("Magnification", "int"), ("Defocus", "neg"), ("SubFramePath", "path"), ("DateTime", "date"),
             ("StagePosition", "pair"), ("ExposureTime", "float"), ("Note", "text")]
    extra = rng.sample(extra, rng.randrange(0, len(extra) + 1))
    keys += [e[0] for e in extra]
    kinds = dict(extra)
    rng.shuffle(keys)
    # distinct tilt angles (negative / float / int looking)
    tilts = rng.sample(range(-700, 701), n_img)
    order = list(range(n_img))
    zvals = order[:]
    if rng.random() < 0.3:
        rng.shuffle(zvals)
    imgs = []
    for i in range(n_img):
        img = {"ZValue": (str(zvals[i]), zvals[i])}
        for k in keys:
            if k == "TiltAngle":
                if rng.random() < 0.2:
                    t = str(int(tilts[i] / 10))
                    if i and any(float(im["TiltAngle"][0]) == float(t) for im in imgs):
                        t = repr(tilts[i] / 10.0 + 0.03)
                else:
                    t = repr(tilts[i] / 10.0 + 0.01)
                img[k] = (t, float(t))
            elif k in ("ExposureDose", "PriorRecordDose"):
                img[k] = gen_value(rng, rng.choice(["float", "float", "int"]))
            else:
                img[k] = gen_value(rng, kinds[k])
        imgs.append(img)
    lines = []
    for k, (t, _) in header.items():
        lines.append("{} = {}".format(k, t))
    lines.append("")
    for t in titles:
        lines.append("[{}]".format(t))
        lines.append("")
    for img in imgs:
        lines.append("[ZValue = {}]".format(img["ZValue"][0]))
        for k in keys:
            lines.append("{} = {}".format(k, img[k][0]))
        lines.append("")
    text = "\n".join(lines) + "\n"
    exp_header = {k: v for k, (_, v) in header.items()}
    exp_imgs = [{k: v for k, (_, v) in img.items()} for img in imgs]
    return text, titles, exp_header, ["ZValue"] + keys, exp_imgs


def check_table(m, columns, exp_imgs, tag, removed=None):
    df = m.imgs
    check(list(df.columns) == columns + ["Removed"], tag + ": columns")
    check(df.shape[0] == len(exp_imgs), tag + ": number of images")
    if df.shape[0] != len(exp_imgs):
        return
    removed = removed or set()
    for pos in range(len(exp_imgs)):
        row = df.iloc[pos]
        for c in columns:
            check(same(row[c], exp_imgs[pos][c]), "{}: cell {} {} {!r} vs {!r}".format(tag, pos, c, row[c], exp_imgs[pos][c]))
        check(bool(row["Removed"]) == (pos in removed), tag + ": removed flag at {}".format(pos))


def check_header(m, titles, exp_header, tag):
    check(m.titles == titles, tag + ": titles")
    check(list(m.project_info.keys()) == list(exp_header.keys()), tag + ": header keys")
    for k in exp_header:
        check(k in m.project_info and same(m.project_info[k], exp_header[k]), tag + ": header value " + k)


def mdoc_part(rng, tmp, n_cases):
    for case in range(n_cases):
        n_img = [1, 2, 80, None][case] if case < 4 else None
        text, titles, exp_header, columns, exp_imgs = gen_mdoc(rng, n_img)
        n = len(exp_imgs)
        p = os.path.join(tmp, "m{}.mdoc".format(case))
        with open(p, "w") as f:
            f.write(text)
        m = mdoc_mod.Mdoc(p)
        check(m.section_id == "ZValue", "section id")
        check_header(m, titles, exp_header, "read")
        check_table(m, columns, exp_imgs, "read")
        check(m.imgs["TiltAngle"].dtype == float, "TiltAngle dtype")
        check(pd.api.types.is_integer_dtype(m.imgs["ZValue"].dtype), "ZValue dtype")

        # write / re-read round trip (twice: the second generation has to be a fixed point)
        out = os.path.join(tmp, "o{}.mdoc".format(case))
        m.write(out, overwrite=True)
        m2 = mdoc_mod.Mdoc(out)
        check_header(m2, titles, exp_header, "round trip")
        check_table(m2, columns, exp_imgs, "round trip")
        out2 = os.path.join(tmp, "oo{}.mdoc".format(case))
        m2.write(out2)
        check(open(out).read() == open(out2).read(), "second generation text")
        try:
            m2.write(out2)
            check(False, "overwrite protection")
        except FileExistsError:
            pass
        # default out_path is the file the object was read from
        m2.write(overwrite=True)
        check(open(out).read() == open(out2).read(), "default out_path")

        # removing images: any subset, in two calls, relative to kept images
        k1 = rng.randrange(0, n)
        first = sorted(rng.sample(range(n), k1))
        m.remove_images(first)
        check_table(m, columns, exp_imgs, "remove 1", removed=set(first))
        kept = [i for i in range(n) if i not in first]
        rel = sorted(rng.sample(range(len(kept)), rng.randrange(0, len(kept) + 1))) if kept else []
        m.remove_images(rel)  # kept_only: indices are relative to the kept images
        removed = set(first) | {kept[i] for i in rel}
        check_table(m, columns, exp_imgs, "remove 2", removed=removed)
        check(list(m.kept_images().index) == [i for i in range(n) if i not in removed], "kept_images")
        check(list(m.removed_images().index) == sorted(removed), "removed_images")
        if len(removed) < n:
            m.write(out, overwrite=True)
            mk = mdoc_mod.Mdoc(out)
            check_header(mk, titles, exp_header, "written kept")
            check_table(mk, columns, [exp_imgs[i] for i in range(n) if i not in removed], "written kept")
        m.write(out, overwrite=True, removed=True)
        mk = mdoc_mod.Mdoc(out)
        check_table(mk, columns, exp_imgs, "written all")
        # absolute indices
        m.reset_images()
        check_table(m, columns, exp_imgs, "reset")
        m.remove_images(first)
        m.remove_images(first, kept_only=False)
        check_table(m, columns, exp_imgs, "remove absolute", removed=set(first))

        # sort by tilt: only the order changes, the flag travels with the image
        order = sorted(range(n), key=lambda i: exp_imgs[i]["TiltAngle"])
        m.sort_by_tilt()
        check(list(m.imgs.index) == order, "sort order")
        check_table(m, columns, [exp_imgs[i] for i in order], "sorted", removed={order.index(i) for i in first})
        m.sort_by_tilt()  # idempotent
        check_table(m, columns, [exp_imgs[i] for i in order], "sorted twice", removed={order.index(i) for i in first})
        if len(first) < n:
            m.write(out, overwrite=True)
            mk = mdoc_mod.Mdoc(out)
            check_table(mk, columns, [exp_imgs[i] for i in order if i not in first], "sorted written")
        m.sort_by_tilt(reset_z_value=True)
        exp_reset = [dict(exp_imgs[i], ZValue=j) for j, i in enumerate(order)]
        check_table(m, columns, exp_reset, "sorted reset", removed={order.index(i) for i in first})

        # module level wrappers
        ms = mdoc_mod.sort_mdoc_by_tilt_angles(p, output_file=out)
        check_table(ms, columns, [exp_imgs[i] for i in order], "wrapper sort")
        check_table(mdoc_mod.Mdoc(out), columns, [exp_imgs[i] for i in order], "wrapper sort file")
        ms = mdoc_mod.sort_mdoc_by_tilt_angles(p, reset_z_value=True)
        check_table(ms, columns, exp_reset, "wrapper sort reset")
        if 0 < len(first) < n:
            for from1 in (True, False):
                idx = [i + 1 for i in first] if from1 else first
                src = idx if rng.random() < 0.5 else np.asarray(idx)
                mr = mdoc_mod.remove_images(p, src, numbered_from_1=from1, output_file=out)
                check_table(mr, columns, exp_imgs, "wrapper remove", removed=set(first))
                check_table(mdoc_mod.Mdoc(out), columns, [exp_imgs[i] for i in range(n) if i not in first], "wrapper remove file")
        ta = mdoc_mod.get_tilt_angles(p, output_file=os.path.join(tmp, "ta.tlt"))
        check(np.array_equal(ta, np.asarray([e["TiltAngle"] for e in exp_imgs])), "get_tilt_angles")
        check(np.array_equal(ioutils.tlt_load(os.path.join(tmp, "ta.tlt")), np.sort(ta.astype(np.float32))), "tilt file of mdoc")

        # loaders on the mdoc
        check(np.array_equal(ioutils.tlt_load(p), np.sort(ta)), "tlt_load mdoc")
        check(np.array_equal(ioutils.tlt_load(p, sort_angles=False), ta), "tlt_load mdoc unsorted")
        dose = np.asarray([e["ExposureDose"] + e["PriorRecordDose"] for e in exp_imgs], dtype=float)
        got = ioutils.total_dose_load(p)
        check(np.array_equal(np.asarray(got, dtype=float), dose[order]), "dose mdoc sorted")
        got = ioutils.total_dose_load(p, sort_mdoc=False)
        check(np.array_equal(np.asarray(got, dtype=float), dose), "dose mdoc unsorted")


# ----------------------------------------------------------------------------------------------------------------
# loaders and wedge lists
# ----------------------------------------------------------------------------------------------------------------
def write_lines(path, values, fmt="{:.4f}"):
    with open(path, "w") as f:
        for v in values:
            f.write(fmt.format(v) + "\n")


def write_gctf(path, u, v, ang, phase=None):
    cols = ["rlnMicrographName", "rlnDefocusU", "rlnDefocusV", "rlnDefocusAngle", "rlnVoltage"]
    if phase is not None:
        cols.insert(4, "rlnPhaseShift")
    with open(path, "w") as f:
        f.write("\ndata_\n\nloop_\n")
        for i, c in enumerate(cols, 1):
            f.write("_{} #{}\n".format(c, i))
        for i in range(len(u)):
            row = ["split.mrc.{:02d}".format(i + 1), "{:.6f}".format(u[i]), "{:.6f}".format(v[i]), "{:.6f}".format(ang[i])]
            if phase is not None:
                row.append("{:.6f}".format(phase[i]))
            row.append("300.000000")
            f.write(" ".join(row) + "\n")
        f.write("\n")


def write_ctffind(path, u, v, ang, phase):
    with open(path, "w") as f:
        f.write("# Output from CTFFind version 4.1.8\n# Input file: x.mrc ; Number of micrographs: {}\n".format(len(u)))
        f.write("# Pixel size: 1.327 Angstroms\n# Box size: 512 pixels\n# Columns: #1 - micrograph number; ...\n")
        for i in range(len(u)):
            f.write("{:.6f} {:.6f} {:.6f} {:.6f} {:.6f} 0.001071 12.144508\n".format(i + 1.0, u[i], v[i], ang[i], phase[i]))


def gen_series(rng):
    n = rng.choice([1, 2, 3, 41, 80, rng.randrange(1, 81)])
    tilts = np.sort(np.asarray(rng.sample(range(-7000, 7001), n)) / 100.0)
    u = np.round(np.asarray([rng.uniform(5000, 60000) for _ in range(n)]), 6)
    v = np.round(np.asarray([rng.uniform(5000, 60000) for _ in range(n)]), 6)
    ang = np.round(np.asarray([rng.uniform(-90, 90) for _ in range(n)]), 6)
    phase = np.round(np.asarray([rng.uniform(0, 3) for _ in range(n)]), 6)
    dose = np.round(np.cumsum([rng.uniform(1, 4) for _ in range(n)]), 4)
    return n, tilts, u, v, ang, phase, dose


def f32(x):
    return np.asarray(x, dtype=np.float32)


def loaders_part(rng, tmp, n_cases):
    for case in range(n_cases):
        n, tilts, u, v, ang, phase, dose = gen_series(rng)
        pt = os.path.join(tmp, "s{}.tlt".format(case))
        pd_ = os.path.join(tmp, "s{}_dose.txt".format(case))
        write_lines(pt, tilts, "{:.2f}")
        write_lines(pd_, dose)
        for rep in range(2):  # repeated calls give the same answer
            got = ioutils.tlt_load(pt)
            check(got.dtype == np.float32 and np.array_equal(got, f32(tilts)), "tlt_load file")
            check(np.all(np.diff(got) >= 0), "tlt ascending")
            check(np.array_equal(ioutils.tlt_load(pt, sort_angles=False), f32(tilts)), "tlt_load unsorted file")
            got = ioutils.total_dose_load(pd_)
            check(got.dtype == np.float32 and np.array_equal(got, f32(dose)), "dose file")
            got = ioutils.one_value_per_line_read(pt)
            check(got.dtype == np.float32 and np.array_equal(got, f32(tilts)), "one value default")
            got = ioutils.one_value_per_line_read(pt, np.float64)
            check(got.dtype == np.float64 and np.array_equal(got, tilts), "one value float64")
            got = ioutils.one_value_per_line_read(pt, data_type=np.float64)
            check(got.dtype == np.float64 and np.array_equal(got, tilts), "one value float64 kw")
        # descending file is returned ascending
        pr = os.path.join(tmp, "s{}_rev.rawtlt".format(case))
        write_lines(pr, tilts[::-1], "{:.2f}")
        check(np.array_equal(ioutils.tlt_load(pr), f32(tilts)), "tlt_load reversed file")
        check(np.array_equal(ioutils.tlt_load(pr, sort_angles=False), f32(tilts[::-1])), "tlt_load reversed unsorted")
        # array / list input
        check(ioutils.tlt_load(tilts) is tilts, "tlt array as is")
        check(np.array_equal(ioutils.tlt_load(list(tilts)), tilts), "tlt list")
        check(ioutils.total_dose_load(dose) is dose, "dose array as is")
        check(np.array_equal(ioutils.total_dose_load(list(dose)), dose), "dose list")
        # integer lists (tomogram lists)
        pl = os.path.join(tmp, "list{}.txt".format(case))
        ids = sorted(rng.sample(range(1, 999), rng.randrange(1, 6)))
        write_lines(pl, ids, "{}")
        check(np.array_equal(ioutils.one_value_per_line_read(pl, data_type=int), np.asarray(ids)), "int list")
        check(np.array_equal(ioutils.tlt_load(pl).astype(int), np.asarray(ids)), "tomo list")

        # defocus files
        pg = os.path.join(tmp, "s{}_gctf.star".format(case))
        pc = os.path.join(tmp, "s{}_ctffind4.txt".format(case))
        with_phase = rng.random() < 0.5
        write_gctf(pg, u, v, ang, phase if with_phase else None)
        write_ctffind(pc, u, v, ang, phase)
        for loader in (ioutils.gctf_read, lambda q: ioutils.defocus_load(q), lambda q: ioutils.defocus_load(q, "GCTF"),
                       lambda q: ioutils.defocus_load(q, file_type="gctf")):
            g = loader(pg)
            check(list(g.columns) == ["defocus1", "defocus2", "astigmatism", "phase_shift", "defocus_mean"], "gctf columns")
            check(g.shape[0] == n, "gctf rows")
            check(np.allclose(g["defocus1"].values, u * 1e-4, rtol=1e-12, atol=0), "gctf U")
            check(np.allclose(g["defocus2"].values, v * 1e-4, rtol=1e-12, atol=0), "gctf V")
            check(np.array_equal(g["astigmatism"].values, ang), "gctf angle")
            check(np.array_equal(g["phase_shift"].values, phase if with_phase else np.zeros(n)), "gctf phase")
            check(np.array_equal(g["defocus_mean"].values, (g["defocus1"].values + g["defocus2"].values) / 2.0), "gctf mean")
            check(np.allclose(g["defocus_mean"].values, (u + v) / 2 * 1e-4, rtol=1e-12, atol=0), "gctf mean um")
        for loader in (ioutils.ctffind4_read, lambda q: ioutils.defocus_load(q, "ctffind4"),
                       lambda q: ioutils.defocus_load(q, file_type="CTFFIND4")):
            c = loader(pc)
            check(list(c.columns) == ["defocus1", "defocus2", "astigmatism", "phase_shift", "defocus_mean"], "ctffind columns")
            check(c.shape[0] == n, "ctffind rows")
            check(np.allclose(c["defocus1"].values, f32(u) * 1e-4, rtol=1e-5), "ctffind U")
            check(np.allclose(c["defocus2"].values, f32(v) * 1e-4, rtol=1e-5), "ctffind V")
            check(np.array_equal(c["astigmatism"].values, f32(ang)), "ctffind angle")
            check(np.array_equal(c["phase_shift"].values, f32(phase)), "ctffind phase")
            check(np.allclose(c["defocus_mean"].values, (u + v) / 2 * 1e-4, rtol=1e-5), "ctffind mean")
        arr = np.column_stack([u, v, ang, phase, (u + v) / 2])
        d = ioutils.defocus_load(arr)
        check(np.array_equal(d.values, arr) and list(d.columns) == list(g.columns), "defocus array")
        check(ioutils.defocus_load(g) is g, "defocus frame as is")
        try:
            ioutils.defocus_load(pg, "other")
            check(False, "unsupported defocus type")
        except ValueError:
            pass


SG_COLUMNS = ["tomo_num", "pixelsize", "tomo_x", "tomo_y", "tomo_z", "z_shift", "tilt_angle", "defocus", "exposure",
              "voltage", "amp_contrast", "cs"]


def expected_sg(tomos, with_ctf, with_dose, pixel, consts, as32=True):
    rows = []
    for t in tomos:
        n = t["n"]
        for i in range(n):
            r = {"tomo_num": t["id"], "pixelsize": pixel, "tomo_x": t["dim"][0], "tomo_y": t["dim"][1],
                 "tomo_z": t["dim"][2], "z_shift": t["zs"], "tilt_angle": t["tilt_v"][i]}
            if with_ctf:
                r["defocus"] = t["def_v"][i]
            if with_dose:
                r["exposure"] = t["dose_v"][i]
            r["voltage"], r["amp_contrast"], r["cs"] = consts
            rows.append(r)
    cols = [c for c in SG_COLUMNS if (c != "defocus" or with_ctf) and (c != "exposure" or with_dose)]
    return pd.DataFrame(rows, columns=cols)


def frames_match(got, exp, tag, rtol=0.0):
    check(list(got.columns) == list(exp.columns), tag + ": columns {} vs {}".format(list(got.columns), list(exp.columns)))
    check(got.shape == exp.shape, tag + ": shape")
    if list(got.columns) != list(exp.columns) or got.shape != exp.shape:
        return
    check(list(got.index) == list(range(exp.shape[0])), tag + ": index")
    for c in exp.columns:
        a = np.asarray(got[c].values, dtype=float)
        b = np.asarray(exp[c].values, dtype=float)
        ok = np.array_equal(a, b) if rtol == 0.0 else np.allclose(a, b, rtol=rtol, atol=1e-6)
        check(ok, tag + ": column " + c)


def wedge_part(rng, tmp, n_cases):
    for case in range(n_cases):
        d = os.path.join(tmp, "w{}".format(case))
        os.makedirs(d)
        n_tomo = [1, 5][case] if case < 2 else rng.randrange(1, 6)
        ids = sorted(rng.sample(range(1, 1000), n_tomo))
        ctf_type = rng.choice(["gctf", "ctffind4"])
        tomos = []
        for t in ids:
            n, tilts, u, v, ang, phase, dose = gen_series(rng)
            write_lines(os.path.join(d, "{:03d}.tlt".format(t)), tilts, "{:.2f}")
            write_lines(os.path.join(d, "{:04d}_dose.txt".format(t)), dose)
            if ctf_type == "gctf":
                write_gctf(os.path.join(d, "{:03d}_ctf.star".format(t)), u, v, ang, phase if rng.random() < 0.5 else None)
                def_v = (u * 10e-5 + v * 10e-5) / 2.0
            else:
                write_ctffind(os.path.join(d, "{:03d}_ctf.star".format(t)), u, v, ang, phase)
                u32, v32 = f32(u), f32(v)
                u32 = u32 * np.float32(10e-5)
                v32 = v32 * np.float32(10e-5)
                def_v = (u32 + v32) / np.float32(2.0)
            dim = [float(rng.randrange(100, 5000)) for _ in range(3)]
            zs = rng.choice([0.0, float(rng.randrange(-200, 200)), round(rng.uniform(-50, 50), 2)])
            with open(os.path.join(d, "{:03d}_dim.txt".format(t)), "w") as f:
                f.write("{} {} {}\n".format(*dim))
            with open(os.path.join(d, "{:03d}_zs.txt".format(t)), "w") as f:
                f.write("{!r}\n".format(zs))
            tomos.append({"id": t, "n": n, "tilts": tilts, "tilt_v": f32(tilts), "def_v": def_v, "dose_v": f32(dose),
                          "dose": dose, "dim": dim, "zs": zs, "u": u, "v": v, "ang": ang, "phase": phase})
        pixel = round(rng.uniform(0.5, 12), 3)
        consts = rng.choice([(300.0, 0.07, 2.7), (200.0, 0.1, 2.0), (rng.uniform(80, 300), rng.uniform(0, 0.2), rng.uniform(0, 3))])
        kw = {} if consts == (300.0, 0.07, 2.7) else dict(voltage=consts[0], amp_contrast=consts[1], cs=consts[2])
        with_ctf = rng.random() < 0.7
        with_dose = rng.random() < 0.7
        tl = os.path.join(d, "tomo_list.txt")
        write_lines(tl, ids, "{}")
        dims_arr = np.asarray([[t["id"]] + t["dim"] for t in tomos])
        zs_arr = np.asarray([[t["id"], t["zs"]] for t in tomos])

        # --- single tomogram, files
        for t in tomos[:2]:
            args = dict(kw)
            if with_ctf:
                args.update(ctf_file=os.path.join(d, "{:03d}_ctf.star".format(t["id"])), ctf_file_type=ctf_type)
            if with_dose:
                args.update(dose_file=os.path.join(d, "{:04d}_dose.txt".format(t["id"])))
            out = os.path.join(d, "single.star")
            got = wedgeutils.create_wedge_list_sg(t["id"], os.path.join(d, "{:03d}_dim.txt".format(t["id"])), pixel,
                                                  os.path.join(d, "{:03d}.tlt".format(t["id"])),
                                                  z_shift=os.path.join(d, "{:03d}_zs.txt".format(t["id"])),
                                                  output_file=out, **args)
            exp = expected_sg([t], with_ctf, with_dose, pixel, consts)
            frames_match(got, exp, "sg single files")
            back = starfileio.Starfile.read(out)
            check(back[1] == ["data_stopgap_wedgelist"], "sg specifier")
            frames_match(back[0][0], exp.round(6), "sg single file content", rtol=1e-9)
            # arrays: values travel unchanged (float64)
            arr = np.column_stack([t["u"], t["v"], t["ang"], t["phase"], (t["u"] + t["v"]) / 2 * 1e-4])
            got = wedgeutils.create_wedge_list_sg(t["id"], t["dim"], pixel, t["tilts"], t["zs"], arr, "gctf", t["dose"], *consts)
            t64 = dict(t, tilt_v=t["tilts"], def_v=arr[:, 4], dose_v=t["dose"])
            frames_match(got, expected_sg([t64], True, True, pixel, consts), "sg single arrays")
            got = wedgeutils.create_wedge_list_sg(t["id"], np.asarray(t["dim"]), pixel, list(t["tilts"]))
            t0 = dict(t64, zs=0.0)
            frames_match(got, expected_sg([t0], False, False, pixel, (300.0, 0.07, 2.7)), "sg single minimal")
            got = wedgeutils.create_wedge_list_sg(t["id"], np.asarray(t["dim"]), pixel, list(t["tilts"]), drop_nan_columns=False)
            check(list(got.columns) == SG_COLUMNS and got["defocus"].isna().all() and got["exposure"].isna().all(), "sg keep nan")
            # inconsistent lengths are refused
            if with_dose or with_ctf:
                try:
                    wedgeutils.create_wedge_list_sg(t["id"], t["dim"], pixel, np.append(t["tilts"], 80.0), t["zs"], arr, "gctf", t["dose"])
                    check(False, "inconsistent input accepted")
                except ValueError:
                    pass

        # --- batch, file formats / arrays
        args = dict(kw)
        if with_ctf:
            args.update(ctf_file_format=os.path.join(d, "$xxx_ctf.star"), ctf_file_type=ctf_type)
        if with_dose:
            args.update(dose_file_format=os.path.join(d, "$xxxx_dose.txt"))
        exp = expected_sg(tomos, with_ctf, with_dose, pixel, consts)
        out = os.path.join(d, "batch.star")
        for rep in range(2):
            got = wedgeutils.create_wedge_list_sg_batch(tl, pixel, os.path.join(d, "$xxx.tlt"),
                                                        tomo_dim_file_format=os.path.join(d, "$xxx_dim.txt"),
                                                        z_shift_file_format=os.path.join(d, "$xxx_zs.txt"),
                                                        output_file=out, **args)
            frames_match(got, exp, "sg batch files")
            back = starfileio.Starfile.read(out)
            frames_match(back[0][0], exp.round(6), "sg batch file content", rtol=1e-9)
        got = wedgeutils.create_wedge_list_sg_batch(np.asarray(ids), pixel, os.path.join(d, "$xxx.tlt"), tomo_dim=dims_arr,
                                                    z_shift=zs_arr, **args)
        frames_match(got, exp, "sg batch arrays")
        # shared dimensions and shift
        shared = [dict(t, dim=tomos[0]["dim"], zs=tomos[0]["zs"]) for t in tomos]
        got = wedgeutils.create_wedge_list_sg_batch(ids, pixel, os.path.join(d, "$xxx.tlt"), tomo_dim=tomos[0]["dim"],
                                                    z_shift=tomos[0]["zs"], **args)
        frames_match(got, expected_sg(shared, with_ctf, with_dose, pixel, consts), "sg batch shared")
        try:
            wedgeutils.create_wedge_list_sg_batch(ids, pixel, os.path.join(d, "$xxx.tlt"))
            check(False, "missing dimensions accepted")
        except ValueError:
            pass

        # --- EM wedge list
        oute = os.path.join(d, "wedge.em")
        exp_em = pd.DataFrame({"tomo_num": ids, "min_angle": [f32(t["tilts"]).min() for t in tomos],
                               "max_angle": [f32(t["tilts"]).max() for t in tomos]})
        for src in (tl, np.asarray(ids), ids):
            got = wedgeutils.create_wedge_list_em_batch(src, os.path.join(d, "$xxx.tlt"), output_file=oute)
            frames_match(got, exp_em, "em batch")
            data = emfile.read(oute)[1]
            check(data.dtype == np.float32 and data.shape == (1, n_tomo, 3), "em file shape")
            check(np.array_equal(data[0], exp_em.to_numpy().astype(np.float32)), "em file content")
            if n_tomo > 1:  # (a one-tomogram EM list cannot be loaded back by load_wedge_list_em, also before any change)
                loaded = wedgeutils.load_wedge_list_em(oute)
                check(np.array_equal(loaded.to_numpy(), exp_em.to_numpy().astype(np.float32)), "em file loaded")
        got = wedgeutils.create_wedge_list_em_batch(ids, os.path.join(d, "$xxx.tlt"))
        frames_match(got, exp_em, "em batch no file")

        # --- STOPGAP -> EM
        oute2 = os.path.join(d, "wedge2.em")
        got = wedgeutils.wedge_list_sg_to_em(out, oute2)
        exp_em2 = pd.DataFrame({"tomo_id": ids, "min_tilt_angle": [np.round(f32(t["tilts"]), 6).min() for t in tomos],
                                "max_tilt_angle": [np.round(f32(t["tilts"]), 6).max() for t in tomos]})
        frames_match(got, exp_em2, "sg to em", rtol=1e-9)
        data = emfile.read(oute2)[1]
        check(np.array_equal(data[0], exp_em.to_numpy().astype(np.float32)), "sg to em file")
        os.remove(oute2)
        got2 = wedgeutils.wedge_list_sg_to_em(out, oute2, write_out=False)
        frames_match(got2, exp_em2, "sg to em no file", rtol=1e-9)
        check(not os.path.exists(oute2), "write_out=False wrote a file")
        got3 = wedgeutils.wedge_list_sg_to_em(exp, oute2, False)  # data frame input
        check(np.array_equal(got3.to_numpy(), exp_em.to_numpy().astype(float)), "sg to em from frame")


def run_core(seed=2024, n_mdoc=40, n_load=40, n_wedge=25):
    rng = random.Random(seed)
    tmp = tempfile.mkdtemp(prefix="c17demo")
    try:
        mdoc_part(rng, tmp, n_mdoc)
        loaders_part(rng, tmp, n_load)
        wedge_part(rng, tmp, n_wedge)
    finally:
        shutil.rmtree(tmp, ignore_errors=True)


# ----------------------------------------------------------------------------------------------------------------
# comparison with the text of the functions as they were before the change
# ----------------------------------------------------------------------------------------------------------------
ORIGINAL = r'''
def orig_write(self, out_path=None, overwrite=False, removed=False):
    if not out_path:
        out_path = self.file_path
    if path.isfile(out_path) and not overwrite:
        raise FileExistsError("File {} already exists. Set overwrite=True to overwrite.".format(out_path))

    with open(out_path, "w") as f:
        # write header
        for key, value in self.project_info.items():
            f.write("{} = {}\n".format(key, value))
        f.write("\n")
        for title in self.titles:
            f.write("[{}]\n".format(title))
            f.write("\n")

        # write images
        for index, row in self.imgs.iterrows():
            if removed or (not removed and not row["Removed"]):
                f.write("[{} = {}]\n".format(self.section_id, row[self.section_id]))
                for column in self.imgs.columns:
                    if (column != self.section_id) and (column != "Removed"):
                        f.write("{} = {}\n".format(column, row[column]))
                f.write("\n")


def orig_sort_by_tilt(self, reset_z_value=False):
    self.imgs = self.imgs.sort_values(by="TiltAngle")
    if reset_z_value:
        self.imgs["ZValue"] = range(self.imgs.shape[0])


def orig_remove_images(self, indices, kept_only=True):
    if kept_only:
        kept_indices = self.kept_images().index
    else:
        kept_indices = self.imgs.index
    for index in indices:
        index = kept_indices[index]
        self.remove_image(index)


def orig_remove_images_wrapper(input_mdoc, idx_to_remove, numbered_from_1=True, output_file=None):

    mdoc = Mdoc(input_mdoc)
    idx_to_remove_final = ioutils.indices_load(idx_to_remove, numbered_from_1=numbered_from_1)
    orig_remove_images(mdoc, idx_to_remove_final)

    if output_file:
        orig_write(mdoc, output_file, overwrite=True)

    return mdoc


def orig_sort_mdoc_by_tilt_angles(input_mdoc, reset_z_value=False, output_file=None):

    mdoc = Mdoc(input_mdoc)
    orig_sort_by_tilt(mdoc, reset_z_value=reset_z_value)

    if output_file:
        orig_write(mdoc, output_file, overwrite=True)

    return mdoc


def orig_create_wedge_list_sg(
    tomo_id,
    tomo_dim,
    pixel_size,
    tlt_file,
    z_shift=0.0,
    ctf_file=None,
    ctf_file_type="gctf",
    dose_file=None,
    voltage=300.0,
    amp_contrast=0.07,
    cs=2.7000,
    output_file=None,
    drop_nan_columns=True,
):
    wedge_list_df = pd.DataFrame(
        columns=[
            "tomo_num",
            "pixelsize",
            "tomo_x",
            "tomo_y",
            "tomo_z",
            "z_shift",
            "tilt_angle",
            "defocus",
            "exposure",
            "voltage",
            "amp_contrast",
            "cs",
        ]
    )

    tilts = ioutils.tlt_load(tlt_file)

    wedge_list_df["tilt_angle"] = tilts

    if ctf_file is not None:
        ctf_df = ioutils.defocus_load(ctf_file, ctf_file_type)
        defocus = ctf_df["defocus_mean"].values
        check_data_consistency(defocus, tilts, "ctf", tlt_file)
        wedge_list_df["defocus"] = defocus

    if dose_file is not None:
        dose = ioutils.total_dose_load(dose_file)
        check_data_consistency(dose, tilts, "dose", tlt_file)
        wedge_list_df["exposure"] = dose

    tomo_dimensions = ioutils.dimensions_load(tomo_dim)
    z_shift = ioutils.z_shift_load(z_shift)

    wedge_list_df["tomo_num"] = tomo_id
    wedge_list_df["pixelsize"] = pixel_size
    wedge_list_df[["tomo_x", "tomo_y", "tomo_z"]] = np.repeat(tomo_dimensions.values, tilts.shape[0], axis=0)
    wedge_list_df["z_shift"] = z_shift.values[0][0]
    wedge_list_df["voltage"] = voltage
    wedge_list_df["amp_contrast"] = amp_contrast
    wedge_list_df["cs"] = cs

    if drop_nan_columns:
        wedge_list_df = wedge_list_df.dropna(axis=1, how="all")

    if output_file is not None:
        starfileio.Starfile.write(
            [wedge_list_df], output_file, specifiers=["data_stopgap_wedgelist"], number_columns=False
        )
    return wedge_list_df


def orig_create_wedge_list_sg_batch(
    tomo_list,
    pixel_size,
    tlt_file_format,
    tomo_dim=None,
    tomo_dim_file_format=None,
    z_shift=0.0,
    z_shift_file_format=None,
    ctf_file_format=None,
    ctf_file_type="gctf",
    dose_file_format=None,
    voltage=300.0,
    amp_contrast=0.07,
    cs=2.7000,
    output_file=None,
):
    wedge_list_df = pd.DataFrame()
    ctf_file = None
    dose_file = None

    tomograms = ioutils.tlt_load(tomo_list).astype(int)

    if tomo_dim_file_format is None:
        if tomo_dim is not None:
            tomo_dimensions = ioutils.dimensions_load(tomo_dim)
            if "tomo_id" not in tomo_dimensions.columns:
                repeated_values = np.repeat(tomo_dimensions[["x", "y", "z"]].values, len(tomograms), axis=0)
                tomo_dimensions = pd.DataFrame(repeated_values, columns=["x", "y", "z"])
                tomo_dimensions["tomo_id"] = tomograms
        else:
            raise ValueError("Either tomo_dim or tomo_dim_file_format has to be specified!")

    if z_shift_file_format is None:
        z_shift_df = ioutils.z_shift_load(z_shift)
        if "tomo_id" not in z_shift_df.columns:
            repeated_values = np.repeat(z_shift_df["z_shift"].values, len(tomograms), axis=0)
            z_shift_df = pd.DataFrame(repeated_values, columns=["z_shift"])
            z_shift_df["tomo_id"] = tomograms

    for t in tomograms:
        tlt_file = ioutils.fileformat_replace_pattern(tlt_file_format, t, "x", raise_error=False)

        if ctf_file_format is not None:
            ctf_file = ioutils.fileformat_replace_pattern(ctf_file_format, t, "x", raise_error=False)

        if dose_file_format is not None:
            dose_file = ioutils.fileformat_replace_pattern(dose_file_format, t, "x", raise_error=False)

        if tomo_dim_file_format is not None:
            t_dim = ioutils.fileformat_replace_pattern(tomo_dim_file_format, t, "x", raise_error=False)
        else:
            t_dim = tomo_dimensions.loc[tomo_dimensions["tomo_id"] == t, ["x", "y", "z"]].values[0]

        if z_shift_file_format is not None:
            z_shift_input = ioutils.fileformat_replace_pattern(z_shift_file_format, t, "x", raise_error=False)
        else:
            z_shift_input = z_shift_df.loc[z_shift_df["tomo_id"] == t, "z_shift"].values[0]

        wl_single_df = orig_create_wedge_list_sg(
            t,
            tomo_dim=t_dim,
            pixel_size=pixel_size,
            tlt_file=tlt_file,
            z_shift=z_shift_input,
            ctf_file=ctf_file,
            ctf_file_type=ctf_file_type,
            dose_file=dose_file,
            voltage=voltage,
            amp_contrast=amp_contrast,
            cs=cs,
            output_file=None,
            drop_nan_columns=False,
        )

        wedge_list_df = pd.concat([wedge_list_df, wl_single_df])

    wedge_list_df = wedge_list_df.dropna(axis=1, how="all")
    wedge_list_df.reset_index(drop=True, inplace=True)
    if output_file is not None:
        starfileio.Starfile.write(
            [wedge_list_df], output_file, specifiers=["data_stopgap_wedgelist"], number_columns=False
        )
    return wedge_list_df


def orig_create_wedge_list_em_batch(
    tomo_list,
    tlt_file_format,
    output_file=None,
):
    wedge_list_df = pd.DataFrame(columns=["tomo_num", "min_angle", "max_angle"])

    tomograms = ioutils.tlt_load(tomo_list).astype(int)

    wedge_list_df["tomo_num"] = tomograms
    tilts_min = []
    tilts_max = []

    for t in tomograms:
        tlt_file = ioutils.fileformat_replace_pattern(tlt_file_format, t, "x", raise_error=False)
        tilts = ioutils.tlt_load(tlt_file).astype(np.single)
        tilts_min.append(np.min(tilts))
        tilts_max.append(np.max(tilts))

    wedge_list_df["min_angle"] = np.asarray(tilts_min)
    wedge_list_df["max_angle"] = np.asarray(tilts_max)

    if output_file is not None:
        wedge_array = wedge_list_df.to_numpy()
        wedge_array = wedge_array.reshape((1, wedge_array.shape[0], wedge_array.shape[1])).astype(np.single)
        emfile.write(output_file, wedge_array, {}, overwrite=True)

    return wedge_list_df
'''

from os import path  # noqa: E402

NS = {"pd": pd, "np": np, "path": path, "ioutils": ioutils, "starfileio": starfileio, "emfile": emfile,
      "Mdoc": mdoc_mod.Mdoc, "check_data_consistency": wedgeutils.check_data_consistency}
exec(ORIGINAL, NS)


def frames_identical(a, b, tag):
    try:
        pd.testing.assert_frame_equal(a, b, check_exact=True)
    except AssertionError as e:
        check(False, tag + ": " + str(e).splitlines()[0])


def files_identical(a, b, tag):
    with open(a, "rb") as fa, open(b, "rb") as fb:
        check(fa.read() == fb.read(), tag + ": file bytes")


def compare_mdoc(rng, tmp, n_cases):
    for case in range(n_cases):
        text, titles, exp_header, columns, exp_imgs = gen_mdoc(rng, with_prior=rng.random() < 0.8)
        n = len(exp_imgs)
        p = os.path.join(tmp, "cmp{}.mdoc".format(case))
        with open(p, "w") as f:
            f.write(text)
        new, old = mdoc_mod.Mdoc(p), mdoc_mod.Mdoc(p)
        o_new, o_old = os.path.join(tmp, "cmp_new.mdoc"), os.path.join(tmp, "cmp_old.mdoc")
        # three rounds of random operations on the same two objects, the tables are edited in place in between
        for rnd in range(3):
            ops = [rng.choice(["sort", "sort_reset", "remove", "remove_abs", "reset", "write", "write_all"])
                   for _ in range(rng.randrange(2, 7))] + ["write", "write_all"]
            for op in ops:
                if op == "sort":
                    new.sort_by_tilt()
                    NS["orig_sort_by_tilt"](old)
                elif op == "sort_reset":
                    flag = rng.random() < 0.7
                    new.sort_by_tilt(reset_z_value=flag)
                    NS["orig_sort_by_tilt"](old, flag)
                elif op in ("remove", "remove_abs"):
                    limit = int((old.imgs["Removed"] == False).sum()) if op == "remove" else n
                    if limit == 0:
                        continue
                    idx = rng.sample(range(limit), rng.randrange(0, limit + 1))
                    if op == "remove":
                        if rng.random() < 0.5:
                            new.remove_images(idx)
                        else:
                            new.remove_images(idx, kept_only=True)
                        NS["orig_remove_images"](old, idx)
                    else:
                        new.remove_images(np.asarray(idx, dtype=int), kept_only=False)
                        NS["orig_remove_images"](old, np.asarray(idx, dtype=int), False)
                elif op == "reset":
                    new.reset_images()
                    old.reset_images()
                else:
                    flag = op == "write_all"
                    for q in (o_new, o_old):
                        if os.path.exists(q):
                            os.remove(q)
                    if flag:
                        new.write(o_new, overwrite=rng.random() < 0.5, removed=True)
                        NS["orig_write"](old, o_old, False, True)
                    else:
                        new.write(o_new)
                        NS["orig_write"](old, o_old)
                    files_identical(o_new, o_old, "mdoc write after " + "/".join(ops))
                    try:
                        new.write(o_new)
                        check(False, "overwrite protection lost")
                    except FileExistsError:
                        pass
                    new.write(out_path=o_new, overwrite=True, removed=flag)
                    files_identical(o_new, o_old, "mdoc overwrite")
                frames_identical(new.imgs, old.imgs, "mdoc table after " + op)
            # edit both tables in place the same way and go on
            pos = rng.randrange(n)
            for m in (new, old):
                m.imgs.iloc[pos, m.imgs.columns.get_loc("TiltAngle")] = 75.125 + rnd
                m.add_field("Edited", rnd)
                m.project_info["Round"] = rnd
        # wrappers
        for flag in (False, True):
            a = mdoc_mod.sort_mdoc_by_tilt_angles(p, reset_z_value=flag, output_file=o_new)
            b = NS["orig_sort_mdoc_by_tilt_angles"](p, flag, o_old)
            frames_identical(a.imgs, b.imgs, "wrapper sort")
            files_identical(o_new, o_old, "wrapper sort")
        idx = sorted(rng.sample(range(n), rng.randrange(1, n + 1)))
        for from1 in (True, False):
            src = [i + 1 for i in idx] if from1 else idx
            a = mdoc_mod.remove_images(p, src, numbered_from_1=from1, output_file=o_new)
            b = NS["orig_remove_images_wrapper"](p, src, from1, o_old)
            frames_identical(a.imgs, b.imgs, "wrapper remove")
            files_identical(o_new, o_old, "wrapper remove")
        # the dose loader sorts the mdoc through sort_by_tilt
        for flag in (True, False):
            m = mdoc_mod.Mdoc(p)
            if flag:
                NS["orig_sort_by_tilt"](m, False)
            if "PriorRecordDose" in m.imgs:
                d1 = ioutils.total_dose_load(p, sort_mdoc=flag)
                d2 = m.imgs["ExposureDose"].values + m.imgs["PriorRecordDose"].values
                check(np.array_equal(np.asarray(d1, dtype=float), np.asarray(d2, dtype=float)), "dose through sort_by_tilt")


def compare_wedges(rng, tmp, n_cases):
    for case in range(n_cases):
        d = os.path.join(tmp, "cw{}".format(case))
        os.makedirs(d)
        ids = sorted(rng.sample(range(1, 1000), rng.randrange(1, 6)))
        ctf_type = rng.choice(["gctf", "ctffind4"])
        series = {}
        for t in ids:
            n, tilts, u, v, ang, phase, dose = gen_series(rng)
            series[t] = (n, tilts, u, v, ang, phase, dose)
            # every third tilt file is stored descending: the loader has to sort it
            write_lines(os.path.join(d, "{:03d}.tlt".format(t)), tilts[::-1] if t % 3 == 0 else tilts, "{:.2f}")
            write_lines(os.path.join(d, "{:03d}_dose.txt".format(t)), dose)
            if ctf_type == "gctf":
                write_gctf(os.path.join(d, "{:03d}_ctf.txt".format(t)), u, v, ang, phase if rng.random() < 0.5 else None)
            else:
                write_ctffind(os.path.join(d, "{:03d}_ctf.txt".format(t)), u, v, ang, phase)
        dims = np.asarray([[t] + [float(rng.randrange(100, 4000)) for _ in range(3)] for t in ids])
        zs = np.asarray([[t, float(rng.randrange(-100, 100))] for t in ids])
        pixel = round(rng.uniform(0.5, 10), 3)
        o_new, o_old = os.path.join(d, "new.star"), os.path.join(d, "old.star")
        opts = {}
        if rng.random() < 0.7:
            opts.update(ctf_file_format=os.path.join(d, "$xxx_ctf.txt"), ctf_file_type=ctf_type)
        if rng.random() < 0.7:
            opts.update(dose_file_format=os.path.join(d, "$xxx_dose.txt"))
        if rng.random() < 0.5:
            opts.update(voltage=200.0, amp_contrast=0.1, cs=2.2)
        for rep in range(3):
            a = wedgeutils.create_wedge_list_sg_batch(ids, pixel, os.path.join(d, "$xxx.tlt"), tomo_dim=dims, z_shift=zs,
                                                      output_file=o_new, **opts)
            b = NS["orig_create_wedge_list_sg_batch"](ids, pixel, os.path.join(d, "$xxx.tlt"), tomo_dim=dims, z_shift=zs,
                                                      output_file=o_old, **opts)
            frames_identical(a, b, "sg batch")
            files_identical(o_new, o_old, "sg batch")
            e1 = wedgeutils.create_wedge_list_em_batch(ids, os.path.join(d, "$xxx.tlt"), o_new + ".em")
            e2 = NS["orig_create_wedge_list_em_batch"](ids, os.path.join(d, "$xxx.tlt"), o_old + ".em")
            frames_identical(e1, e2, "em batch")
            files_identical(o_new + ".em", o_old + ".em", "em batch")
            # inputs edited in place between the calls
            dims[:, 1:] += 8.0
            zs[:, 1] -= 1.5
            t = ids[rep % len(ids)]
            n, tilts, u, v, ang, phase, dose = series[t]
            write_lines(os.path.join(d, "{:03d}.tlt".format(t)), tilts + 0.25 * (rep + 1), "{:.2f}")
        # single tomogram: positional and keyword calls, array and file inputs, arrays edited in place
        t = ids[0]
        n, tilts, u, v, ang, phase, dose = series[t]
        arr = np.column_stack([u, v, ang, phase, (u + v) / 2 * 1e-4])
        tilts = tilts.copy()
        for rep in range(3):
            a = wedgeutils.create_wedge_list_sg(t, dims[0, 1:], pixel, tilts, zs[0, 1], arr, "gctf", dose, 200.0, 0.1, 2.0, o_new, True)
            b = NS["orig_create_wedge_list_sg"](t, dims[0, 1:], pixel, tilts, zs[0, 1], arr, "gctf", dose, 200.0, 0.1, 2.0, o_old, True)
            frames_identical(a, b, "sg single arrays")
            files_identical(o_new, o_old, "sg single arrays")
            a = wedgeutils.create_wedge_list_sg(tomo_id=t, tomo_dim=list(dims[0, 1:]), pixel_size=pixel,
                                                tlt_file=os.path.join(d, "{:03d}.tlt".format(t)),
                                                ctf_file=os.path.join(d, "{:03d}_ctf.txt".format(t)), ctf_file_type=ctf_type.upper(),
                                                dose_file=os.path.join(d, "{:03d}_dose.txt".format(t)), drop_nan_columns=rep == 1)
            b = NS["orig_create_wedge_list_sg"](tomo_id=t, tomo_dim=list(dims[0, 1:]), pixel_size=pixel,
                                                tlt_file=os.path.join(d, "{:03d}.tlt".format(t)),
                                                ctf_file=os.path.join(d, "{:03d}_ctf.txt".format(t)), ctf_file_type=ctf_type.upper(),
                                                dose_file=os.path.join(d, "{:03d}_dose.txt".format(t)), drop_nan_columns=rep == 1)
            frames_identical(a, b, "sg single files")
            tilts += 0.5
            arr[:, 4] *= 1.01
            dose = dose + 1.0
        # a data frame with defocus values and an mdoc as tilt and dose source
        text, titles, exp_header, columns, exp_imgs = gen_mdoc(rng)
        pm = os.path.join(d, "ts.mdoc")
        with open(pm, "w") as f:
            f.write(text)
        nd = len(exp_imgs)
        ddf = pd.DataFrame(np.random.RandomState(case).rand(nd, 5),
                           columns=["defocus1", "defocus2", "astigmatism", "phase_shift", "defocus_mean"])
        a = wedgeutils.create_wedge_list_sg(7, [10, 20, 30], pixel, pm, 2, ddf, dose_file=pm)
        b = NS["orig_create_wedge_list_sg"](7, [10, 20, 30], pixel, pm, 2, ddf, dose_file=pm)
        frames_identical(a, b, "sg single mdoc")
        order = np.argsort([e["TiltAngle"] for e in exp_imgs])
        check(np.array_equal(a["tilt_angle"].values, np.asarray([exp_imgs[i]["TiltAngle"] for i in order])), "sg mdoc tilts")
        check(np.array_equal(np.asarray(a["exposure"].values, dtype=float),
                             np.asarray([exp_imgs[i]["ExposureDose"] + exp_imgs[i]["PriorRecordDose"] for i in order], dtype=float)),
              "sg mdoc dose")


if __name__ == "__main__":
    run_core()
    rng = random.Random(77)
    tmp = tempfile.mkdtemp(prefix="c17cmp")
    try:
        compare_mdoc(rng, tmp, 30)
        compare_wedges(rng, tmp, 20)
    finally:
        shutil.rmtree(tmp, ignore_errors=True)
    if FAILS:
        print("FAILED: {} checks".format(len(FAILS)))
        sys.exit(1)
    print("PASS")
