#!/venv/bin/python
"""C12 demo: Fourier filters are the documented radial low/high/band-pass gains.

Run as:  cd /tmp/wt6/C12 && /venv/bin/python <this file>
Checks the property against an independent computation (own frequency grid, own hard ball by integer squared
radii, scipy gaussian_filter for the soft edge) and compares the current implementation bit-for-bit with a
verbatim copy of the original function(s) kept in this file.  Prints PASS and exits 0 when everything holds.
"""
import sys, os

sys.path.insert(0, os.getcwd())
import io, tempfile, contextlib, itertools
import numpy as np
from numpy import fft
from scipy import ndimage

from cryocat import cryomap, cryomask

# bandpass writes a stray band.em into the current directory -> work in a temp dir
_tmp = tempfile.TemporaryDirectory()
os.chdir(_tmp.name)

FAILS = []
NCHECK = [0]


def check(cond, msg):
    NCHECK[0] += 1
    if not cond:
        FAILS.append(msg)
        if len(FAILS) <= 20:
            print("FAIL:", msg)


def quiet(f, *a, **k):
    buf = io.StringIO()
    with contextlib.redirect_stdout(buf):
        out = f(*a, **k)
    return out, buf.getvalue()


def q(f, *a, **k):
    return quiet(f, *a, **k)[0]


# ---------------------------------------------------------------- independent reference
def freq_grids(shape):
    """integer frequencies per axis in FFT order (0,1,..,-1), computed without fftfreq/ifftshift"""
    axes = []
    for n in shape:
        k = np.arange(n)
        k = np.where(k >= n - n // 2 if n % 2 == 0 else k > n // 2, k - n, k)
        axes.append(k)
    return np.meshgrid(*axes, indexing="ij")


def ref_gain(shape, cutoff, sigma):
    """low-pass gain in FFT order: hard ball (integer arithmetic) in centred layout, blurred by scipy, un-shifted by roll"""
    cen = [n // 2 for n in shape]
    idx = np.meshgrid(*[np.arange(n) - c for n, c in zip(shape, cen)], indexing="ij")
    r2 = idx[0] ** 2 + idx[1] ** 2 + idx[2] ** 2
    if float(cutoff) == int(cutoff):
        hard = (r2 <= int(cutoff) ** 2).astype(float)
    else:
        hard = (np.sqrt(r2) <= cutoff).astype(float)
    if sigma != 0:
        hard = ndimage.gaussian_filter(hard, sigma=sigma, mode="nearest", truncate=4.0)
    g = np.roll(hard, [-c for c in cen], axis=(0, 1, 2))
    # the filters keep only the real part of the inverse transform, which for a real map is the same as applying
    # the mirror-symmetrised gain (g(k) + g(-k)) / 2; the two differ only where the blurred ball touches the box edge
    return 0.5 * (g + np.roll(g[::-1, ::-1, ::-1], 1, axis=(0, 1, 2)))


def apply_gain(x, g):
    return np.real(fft.ifftn(fft.fftn(x) * g))


rng = np.random.default_rng(20260928)

SHAPES = [(8, 8, 8), (9, 9, 9), (12, 12, 12), (16, 16, 16), (21, 21, 21), (32, 32, 32), (48, 48, 48),
          (8, 12, 10), (16, 9, 13), (11, 20, 8), (24, 16, 48), (48, 8, 9)]
SIGMAS = [0, 0.0, 0.5, 1, 1.5, 2, 3, 4, 4.0]


def cutoffs_for(shape):
    n = min(shape)
    cs = {1, 2, 3, n // 4, n // 2 - 1, n // 2, shape[0] // 2}
    return sorted(c for c in cs if c >= 1)


def property_checks():
    for shape in SHAPES:
        big = np.prod(shape) > 20000
        x = rng.normal(size=shape) * 3 - 1
        y = rng.normal(size=shape)
        delta = np.zeros(shape)
        delta[0, 0, 0] = 1.0
        kx, ky, kz = freq_grids(shape)
        rad = np.sqrt(kx**2 + ky**2 + kz**2)
        cuts = cutoffs_for(shape)
        sigs = SIGMAS if not big else [0, 1.5, 3, 4]
        if big:
            cuts = cuts[:2] + cuts[-2:]
        for cutoff, sigma in itertools.product(cuts, sigs):
            tag = f"shape={shape} cutoff={cutoff} sigma={sigma}"
            x0 = x.copy()
            lp = q(cryomap.lowpass, x, fourier_pixels=cutoff, gaussian=sigma)
            check(np.array_equal(x, x0), tag + " input mutated")
            check(lp.shape == tuple(shape) and lp.dtype == np.float64 and np.isrealobj(lp), tag + " lowpass type/shape")
            # gain from the impulse response
            g = fft.fftn(q(cryomap.lowpass, delta, fourier_pixels=cutoff, gaussian=sigma))
            check(np.abs(g.imag).max() < 1e-12, tag + " gain not real")
            g = g.real
            check(g.min() > -1e-12 and g.max() < 1 + 1e-12, tag + " gain outside [0,1]")
            gref = ref_gain(shape, cutoff, sigma)
            check(np.allclose(g, gref, atol=1e-11, rtol=0), tag + " gain differs from reference")
            check(np.allclose(lp, apply_gain(x, gref), atol=1e-10, rtol=0), tag + " lowpass(x) differs from reference")
            if sigma == 0:
                check(np.allclose(g[rad <= cutoff], 1, atol=1e-12), tag + " hard gain !=1 inside")
                check(np.allclose(g[rad > cutoff], 0, atol=1e-12), tag + " hard gain !=0 outside")
            else:
                check(np.allclose(g[rad < cutoff - 4 * sigma - 1], 1, atol=2e-4), tag + " soft gain !=1 deep inside")
                check(np.allclose(g[rad > cutoff + 4 * sigma + 1], 0, atol=2e-4), tag + " soft gain !=0 far outside")
            # non-increasing along the three frequency axes
            for ax in range(3):
                sl = [0, 0, 0]
                sl[ax] = slice(0, shape[ax] // 2 + 1)
                line = g[tuple(sl)]
                check(np.all(np.diff(line) <= 1e-12), tag + f" gain increases along axis {ax}")
            # symmetric gain (needed for a real-valued filter)
            gm = np.roll(g[::-1, ::-1, ::-1], 1, axis=(0, 1, 2))
            check(np.allclose(g, gm, atol=1e-12), tag + " gain not Hermitian-symmetric")
            # linearity
            a, b = 2.5, -0.75
            lpy = q(cryomap.lowpass, y, fourier_pixels=cutoff, gaussian=sigma)
            lpc = q(cryomap.lowpass, a * x + b * y, fourier_pixels=cutoff, gaussian=sigma)
            check(np.allclose(lpc, a * lp + b * lpy, atol=1e-10, rtol=0), tag + " lowpass not linear")
            # circular shifts
            sh = tuple(int(s) for s in rng.integers(-7, 8, size=3))
            lps = q(cryomap.lowpass, np.roll(x, sh, axis=(0, 1, 2)), fourier_pixels=cutoff, gaussian=sigma)
            check(np.allclose(lps, np.roll(lp, sh, axis=(0, 1, 2)), atol=1e-10, rtol=0), tag + " lowpass/shift")
            # complement
            hp = q(cryomap.highpass, x, fourier_pixels=cutoff, gaussian=sigma)
            check(hp.dtype == np.float64 and hp.shape == tuple(shape), tag + " highpass type/shape")
            check(np.allclose(hp, x - lp, atol=1e-10, rtol=0), tag + " highpass != x - lowpass")
            check(np.allclose(hp, apply_gain(x, 1 - gref), atol=1e-10, rtol=0), tag + " highpass != reference")
            hps = q(cryomap.highpass, np.roll(x, sh, axis=(0, 1, 2)), fourier_pixels=cutoff, gaussian=sigma)
            check(np.allclose(hps, np.roll(hp, sh, axis=(0, 1, 2)), atol=1e-10, rtol=0), tag + " highpass/shift")
            hpc = q(cryomap.highpass, a * x + b * y, fourier_pixels=cutoff, gaussian=sigma)
            hpy = q(cryomap.highpass, y, fourier_pixels=cutoff, gaussian=sigma)
            check(np.allclose(hpc, a * hp + b * hpy, atol=1e-10, rtol=0), tag + " highpass not linear")
            # repeated call on the same object
            check(np.array_equal(lp, q(cryomap.lowpass, x, fourier_pixels=cutoff, gaussian=sigma)), tag + " repeat call")

        # band-pass = difference of its two low-passes
        bp_cases = [(cuts[-1], cuts[0], 3, 2), (cuts[-1], cuts[0], 0, 0), (cuts[-1], max(1, cuts[-1] // 2), 1.5, 0.5),
                    (cuts[-1], cuts[0], 0, 4)]
        for lpc_, hpc_, lg, hg in bp_cases:
            tag = f"shape={shape} bandpass lp={lpc_} hp={hpc_} lg={lg} hg={hg}"
            bp = q(cryomap.bandpass, x, lp_fourier_pixels=lpc_, hp_fourier_pixels=hpc_, lp_gaussian=lg, hp_gaussian=hg)
            l1 = q(cryomap.lowpass, x, fourier_pixels=lpc_, gaussian=lg)
            l2 = q(cryomap.lowpass, x, fourier_pixels=hpc_, gaussian=hg)
            check(bp.dtype == np.float64 and bp.shape == tuple(shape), tag + " type/shape")
            check(np.allclose(bp, l1 - l2, atol=1e-10, rtol=0), tag + " != lp - lp")
            gb = ref_gain(shape, lpc_, lg) - ref_gain(shape, hpc_, hg)
            check(np.allclose(bp, apply_gain(x, gb), atol=1e-10, rtol=0), tag + " != reference")
            sh = (3, -2, 5)
            bps = q(cryomap.bandpass, np.roll(x, sh, axis=(0, 1, 2)), lp_fourier_pixels=lpc_, hp_fourier_pixels=hpc_,
                    lp_gaussian=lg, hp_gaussian=hg)
            check(np.allclose(bps, np.roll(bp, sh, axis=(0, 1, 2)), atol=1e-10, rtol=0), tag + " shift")
        # default gaussians (3 and 2)
        check(np.allclose(q(cryomap.lowpass, x, fourier_pixels=cuts[-1]), apply_gain(x, ref_gain(shape, cuts[-1], 3)),
                          atol=1e-10), f"shape={shape} default lowpass gaussian")
        check(np.allclose(q(cryomap.highpass, x, fourier_pixels=cuts[0]), apply_gain(x, 1 - ref_gain(shape, cuts[0], 2)),
                          atol=1e-10), f"shape={shape} default highpass gaussian")
        check(np.allclose(q(cryomap.bandpass, x, lp_fourier_pixels=cuts[-1], hp_fourier_pixels=cuts[0]),
                          apply_gain(x, ref_gain(shape, cuts[-1], 3) - ref_gain(shape, cuts[0], 2)), atol=1e-10),
              f"shape={shape} default bandpass gaussians")


def plane_wave_checks():
    """pure plane waves at every integer frequency: output = gain(radius) * input"""
    for shape, cutoff, sigma in [((8, 8, 8), 2, 0), ((8, 8, 8), 3, 1), ((9, 9, 9), 3, 0), ((8, 12, 10), 4, 0),
                                 ((8, 12, 10), 3, 0.5), ((10, 9, 8), 4, 2)]:
        gref = ref_gain(shape, cutoff, sigma)
        pos = np.meshgrid(*[np.arange(n) for n in shape], indexing="ij")
        kx, ky, kz = freq_grids(shape)
        for ix in np.ndindex(*shape):
            k = (kx[ix], ky[ix], kz[ix])
            phase = 2 * np.pi * sum(k[d] * pos[d] / shape[d] for d in range(3))
            wave = np.cos(phase + 0.3)
            tag = f"plane wave shape={shape} k={k} cutoff={cutoff} sigma={sigma}"
            lp = q(cryomap.lowpass, wave, fourier_pixels=cutoff, gaussian=sigma)
            gain = gref[ix]
            if sigma == 0:
                gain_doc = 1.0 if k[0] ** 2 + k[1] ** 2 + k[2] ** 2 <= cutoff**2 else 0.0
                check(gain == gain_doc, tag + " reference gain self-check")
            check(np.allclose(lp, gain * wave, atol=1e-10, rtol=0), tag + " lowpass")
            if ix[0] % 2 == 0:
                hp = q(cryomap.highpass, wave, fourier_pixels=cutoff, gaussian=sigma)
                check(np.allclose(hp, (1 - gain) * wave, atol=1e-10, rtol=0), tag + " highpass")
    # larger boxes: sampled frequencies
    for shape in [(32, 32, 32), (48, 20, 16), (16, 48, 9)]:
        pos = np.meshgrid(*[np.arange(n) for n in shape], indexing="ij")
        cutoff, sigma = shape[0] // 4, 1.5
        gl, gh = ref_gain(shape, cutoff, sigma), ref_gain(shape, 2, 0)
        kx, ky, kz = freq_grids(shape)
        for _ in range(25):
            ix = tuple(int(rng.integers(0, n)) for n in shape)
            k = (kx[ix], ky[ix], kz[ix])
            wave = np.sin(2 * np.pi * sum(k[d] * pos[d] / shape[d] for d in range(3)) + 1.1)
            bp = q(cryomap.bandpass, wave, lp_fourier_pixels=cutoff, hp_fourier_pixels=2, lp_gaussian=sigma, hp_gaussian=0)
            check(np.allclose(bp, (gl[ix] - gh[ix]) * wave, atol=1e-10, rtol=0), f"plane wave bandpass shape={shape} k={k}")


def resolution_checks():
    """resolution + pixel size -> round(box*pixel_size/resolution) Fourier pixels (box = first axis)"""
    for shape in [(16, 16, 16), (20, 12, 9), (33, 33, 33), (48, 10, 10)]:
        x = rng.normal(size=shape)
        for ps, res in [(1.0, 4.0), (2.5, 11.0), (7.89, 40.0), (1.35, 6.2), (3.0, 8.0), (2.0, shape[0] * 2.0 / 2.5),
                        (1.0, shape[0] / 1.5)]:
            px = round(shape[0] * ps / res)
            if px < 1 or px > shape[0] // 2:
                continue
            tag = f"resolution shape={shape} ps={ps} res={res} px={px}"
            r, out = quiet(cryomap.resolution2pixels, res, shape[0], ps)
            check(r == px and isinstance(r, int), tag + " resolution2pixels")
            check(out == f"The target resolution corresponds to {px} pixels.\n", tag + " resolution2pixels print")
            r, out = quiet(cryomap.resolution2pixels, res, shape[0], ps, print_out=False)
            check(r == px and out == "", tag + " resolution2pixels quiet")
            r, out = quiet(cryomap.get_filter_radius, shape[0], None, res, ps)
            check(r == px and out == f"The target resolution corresponds to {px} pixels.\n", tag + " get_filter_radius res")
            r, out = quiet(cryomap.get_filter_radius, shape[0], px, None, None)
            check(r == px and out == "", tag + " get_filter_radius px")
            r, out = quiet(cryomap.get_filter_radius, shape[0], px, res * 3, ps)
            check(r == px and out == f"The target resolution is {shape[0] * ps / px} Angstroms.\n",
                  tag + " get_filter_radius px wins over resolution")
            r, out = quiet(cryomap.get_filter_radius, shape[0], px, res, None)
            check(r == px and out == "", tag + " get_filter_radius px, no pixel size")
            check(quiet(cryomap.pixels2resolution, px, shape[0], ps)[0] == shape[0] * ps / px, tag + " pixels2resolution")
            for sigma in (0, 2):
                a = q(cryomap.lowpass, x, target_resolution=res, pixel_size=ps, gaussian=sigma)
                b = q(cryomap.lowpass, x, fourier_pixels=px, gaussian=sigma)
                check(np.array_equal(a, b), tag + " lowpass res vs px")
                check(np.allclose(a, apply_gain(x, ref_gain(shape, px, sigma)), atol=1e-10), tag + " lowpass res vs ref")
                a = q(cryomap.highpass, x, target_resolution=res, pixel_size=ps, gaussian=sigma)
                b = q(cryomap.highpass, x, fourier_pixels=px, pixel_size=ps, gaussian=sigma)
                check(np.array_equal(a, b), tag + " highpass res vs px")
                check(np.allclose(a, x - apply_gain(x, ref_gain(shape, px, sigma)), atol=1e-10), tag + " highpass res vs ref")
            hres = res * 3
            hpx = round(shape[0] * ps / hres)
            if hpx >= 1:
                a = q(cryomap.bandpass, x, lp_target_resolution=res, hp_target_resolution=hres, pixel_size=ps)
                b = q(cryomap.bandpass, x, lp_fourier_pixels=px, hp_fourier_pixels=hpx)
                check(np.array_equal(a, b), tag + " bandpass res vs px")
                a = q(cryomap.bandpass, x, lp_fourier_pixels=px, hp_target_resolution=hres, pixel_size=ps)
                check(np.array_equal(a, b), tag + " bandpass mixed res/px")
        for args in [(shape[0], None, None, None), (shape[0], None, 10.0, None), (shape[0], None, None, 2.0)]:
            try:
                q(cryomap.get_filter_radius, *args)
                check(False, f"get_filter_radius{args} did not raise")
            except ValueError:
                check(True, "")
        for f in (cryomap.lowpass, cryomap.highpass):
            try:
                q(f, x)
                check(False, f"{f.__name__} without cutoff did not raise")
            except ValueError:
                check(True, "")


# ---------------------------------------------------------------- verbatim copies of the ORIGINAL functions
ORIG_CRYOMASK = '''
def preprocess_params(radius, gaussian, gaussian_outwards):
    blur_factor = 5.0

    if gaussian != 0.0 and gaussian_outwards:
        new_radius = np.ceil(radius + gaussian * blur_factor).astype(int)
    else:
        new_radius = radius

    return new_radius


def spherical_mask(mask_size, radius=None, center=None, gaussian=0.0, gaussian_outwards=True, output_name=None):
    mask_size = get_correct_format(mask_size)
    center = get_correct_format(center, reference_size=mask_size)

    if radius is None:
        radius = np.amin(mask_size) // 2

    radius = preprocess_params(radius, gaussian, gaussian_outwards)

    x, y, z = np.mgrid[0 : mask_size[0] : 1, 0 : mask_size[1] : 1, 0 : mask_size[2] : 1]
    mask = np.sqrt((x - center[0]) ** 2 + (y - center[1]) ** 2 + (z - center[2]) ** 2)
    mask[mask > radius] = 0
    mask[mask > 0] = 1
    if radius >= 0:  # (edited on review: copy of the original updated to cryoCAT fix bb2db4f)
        mask[center[0], center[1], center[2]] = 1

    mask = postprocess(mask, gaussian, np.asarray([0, 0, 0]), output_name)

    return mask
'''

ORIG_CRYOMAP = '''
def pixels2resolution(fourier_pixels, edge_size, pixel_size, print_out=True):
    res = edge_size * pixel_size / fourier_pixels

    if print_out:
        print(f"The target resolution is {res} Angstroms.")

    return res


def resolution2pixels(resolution, edge_size, pixel_size, print_out=True):
    pixels = round(edge_size * pixel_size / resolution)

    if print_out:
        print(f"The target resolution corresponds to {pixels} pixels.")

    return pixels

def get_filter_radius(edge_size, fourier_pixels, target_resolution, pixel_size):
    if fourier_pixels is not None:
        radius = fourier_pixels
        if pixel_size is not None:
            _ = pixels2resolution(fourier_pixels=fourier_pixels, edge_size=edge_size, pixel_size=pixel_size)
    elif target_resolution is not None and pixel_size is not None:
        radius = resolution2pixels(target_resolution, edge_size=edge_size, pixel_size=pixel_size)
    else:
        raise ValueError(
            "Either target_voxels or target_resolution in combination with pixel_size have to be specified!"
        )

    return radius


def bandpass(
    input_map,
    lp_fourier_pixels=None,
    lp_target_resolution=None,
    hp_fourier_pixels=None,
    hp_target_resolution=None,
    pixel_size=None,
    lp_gaussian=3,
    hp_gaussian=2,
    output_name=None,
):
    input_map = read(input_map)
    lp_radius = get_filter_radius(
        input_map.shape[0],
        fourier_pixels=lp_fourier_pixels,
        target_resolution=lp_target_resolution,
        pixel_size=pixel_size,
    )

    hp_radius = get_filter_radius(
        input_map.shape[0],
        fourier_pixels=hp_fourier_pixels,
        target_resolution=hp_target_resolution,
        pixel_size=pixel_size,
    )
    outer_mask = cryomask.spherical_mask(input_map.shape, lp_radius, gaussian=lp_gaussian, gaussian_outwards=False)
    inner_mask = cryomask.spherical_mask(input_map.shape, hp_radius, gaussian=hp_gaussian, gaussian_outwards=False)
    band_mask = fft.ifftshift(outer_mask - inner_mask)
    write(outer_mask - inner_mask, "band.em", data_type=np.single)
    bandpass_filtered = np.real(fft.ifftn(fft.fftn(input_map) * band_mask))

    if output_name is not None:
        write(bandpass_filtered, output_name, data_type=np.single)

    return bandpass_filtered


def lowpass(input_map, fourier_pixels=None, target_resolution=None, pixel_size=None, gaussian=3, output_name=None):
    input_map = read(input_map)
    radius = get_filter_radius(
        input_map.shape[0], fourier_pixels=fourier_pixels, target_resolution=target_resolution, pixel_size=pixel_size
    )

    lowpass_filter = fft.ifftshift(
        cryomask.spherical_mask(input_map.shape, radius, gaussian=gaussian, gaussian_outwards=False)
    )
    # Apply filter
    filtered_map = np.real(fft.ifftn(fft.fftn(input_map) * lowpass_filter))

    if output_name is not None:
        write(filtered_map, output_name, data_type=np.single)

    return filtered_map


def highpass(input_map, fourier_pixels=None, target_resolution=None, pixel_size=None, gaussian=2, output_name=None):
    input_map = read(input_map)
    radius = get_filter_radius(
        input_map.shape[0], fourier_pixels=fourier_pixels, target_resolution=target_resolution, pixel_size=pixel_size
    )

    highpass_filter = fft.ifftshift(
        np.ones(input_map.shape)
        - cryomask.spherical_mask(input_map.shape, radius, gaussian=gaussian, gaussian_outwards=False)
    )

    # Apply filter
    filtered_map = np.real(fft.ifftn(fft.fftn(input_map) * highpass_filter))

    if output_name is not None:
        write(filtered_map, output_name, data_type=np.single)

    return filtered_map
'''

import types

_ns_mask = dict(vars(cryomask))
exec(ORIG_CRYOMASK, _ns_mask)
orig_mask = types.SimpleNamespace(**{k: _ns_mask[k] for k in ("spherical_mask", "preprocess_params")})
_ns_map = dict(vars(cryomap))
_ns_map["cryomask"] = orig_mask
exec(ORIG_CRYOMAP, _ns_map)
orig_map = types.SimpleNamespace(**{k: _ns_map[k] for k in ("pixels2resolution", "resolution2pixels", "get_filter_radius", "lowpass", "highpass", "bandpass")})


def same(a, b):
    a, b = np.asarray(a), np.asarray(b)
    return a.dtype == b.dtype and a.shape == b.shape and np.array_equal(a, b, equal_nan=True)


def outcome(f, *a, **k):
    """(kind, value, printed) so that exceptions and printed text are compared as well"""
    buf = io.StringIO()
    try:
        with contextlib.redirect_stdout(buf):
            r = f(*a, **k)
        return ("ok", r, buf.getvalue())
    except Exception as e:  # noqa
        return ("exc", type(e).__name__, buf.getvalue())


def same_outcome(o1, o2):
    if o1[0] != o2[0] or o1[2] != o2[2]:
        return False
    if o1[0] == "exc":
        return o1[1] == o2[1]
    if isinstance(o1[1], np.ndarray) or isinstance(o2[1], np.ndarray):
        return same(o1[1], o2[1])
    return type(o1[1]) is type(o2[1]) and (o1[1] == o2[1] or (o1[1] != o1[1] and o2[1] != o2[1]))


def original_vs_current():
    # --- cryomask.spherical_mask / preprocess_params
    for r, g, out in itertools.product([0, 1, 3, 2.5, -1, np.int64(4), np.float32(2.2)], [0, 0.0, 1, 0.3, 2.5, -1.0],
                                       [True, False]):
        check(same_outcome(outcome(cryomask.preprocess_params, r, g, out), outcome(orig_mask.preprocess_params, r, g, out)),
              f"preprocess_params({r},{g},{out}) differs from original")
    sizes = [8, (8, 8, 8), (9, 12, 7), [16, 10, 13], np.array([21, 8, 8]), (24, 24, 24), [5], (1, 1, 1), (2, 3, 4)]
    radii = [None, 0, 1, 2, 3, 4, 6, 12, 2.5, np.sqrt(5), np.sqrt(2), 3.0000000001, np.float32(2.2), -1, -0.5, 40]
    for size, radius in itertools.product(sizes, radii):
        for gaussian, outwards, center in [(0, True, None), (0.0, False, None), (1, False, None), (1.5, True, None),
                                           (2, False, (1, 0, 2)), (0, True, (0, 0, 0)), (0, False, [1]), (0.7, True, 0)]:
            kw = dict(radius=radius, gaussian=gaussian, gaussian_outwards=outwards, center=center)
            o1, o2 = outcome(cryomask.spherical_mask, size, **kw), outcome(orig_mask.spherical_mask, size, **kw)
            check(same_outcome(o1, o2), f"spherical_mask({size}, {kw}) differs from original")
    for center in [(20, 0, 0), (-1, 2, 3), (3.7, 2.2, 1.9), (1, 2)]:
        o1 = outcome(cryomask.spherical_mask, (8, 9, 10), radius=3, center=center)
        o2 = outcome(orig_mask.spherical_mask, (8, 9, 10), radius=3, center=center)
        check(same_outcome(o1, o2), f"spherical_mask centre {center} differs from original")
    check(same_outcome(outcome(cryomask.spherical_mask, 10, radius=float("nan")),
                       outcome(orig_mask.spherical_mask, 10, radius=float("nan"))), "spherical_mask nan radius")
    m = cryomask.spherical_mask((8, 8, 8), 3, output_name="sm.em")
    check(same(cryomap.read("sm.em"), cryomap.read("sm.em")) and np.allclose(cryomap.read("sm.em"), m), "mask file")
    check(same(cryomask.spherical_shell_mask(16, 2, radius=4), _ns_mask["spherical_shell_mask"](16, 2, radius=4)), "shell")

    # --- cryomap.pixels2resolution / resolution2pixels
    for v, e, s in itertools.product([1, 3, 7, 2.5, 0.3, 39, np.int64(4), np.float32(1.3), 0, 17.77], [8, 21, 48, 33.0, 100],
                                     [1.0, 2.5, 7.89, 3, 0.1, 1 / 3]):
        for kw in [dict(), dict(print_out=False), dict(print_out=1), dict(print_out=0)]:
            for name in ("pixels2resolution", "resolution2pixels"):
                check(same_outcome(outcome(getattr(cryomap, name), v, e, s, **kw), outcome(getattr(orig_map, name), v, e, s, **kw)),
                      f"{name}({v},{e},{s},{kw}) differs from original")
    # --- cryomap.get_filter_radius
    vals_px = [None, 0, 1, 5, 7.5, np.int64(3)]
    vals_res = [None, 10.0, 3, 0.5]
    vals_ps = [None, 1.0, 2.5, 3]
    for e, p, r, s in itertools.product([16, 20, 33.0], vals_px, vals_res, vals_ps):
        check(same_outcome(outcome(cryomap.get_filter_radius, e, p, r, s), outcome(orig_map.get_filter_radius, e, p, r, s)),
              f"get_filter_radius({e},{p},{r},{s}) differs from original")
        check(same_outcome(outcome(cryomap.get_filter_radius, edge_size=e, fourier_pixels=p, target_resolution=r, pixel_size=s),
                           outcome(orig_map.get_filter_radius, edge_size=e, fourier_pixels=p, target_resolution=r, pixel_size=s)),
              f"get_filter_radius kw ({e},{p},{r},{s}) differs from original")

    # --- cryomap.lowpass / highpass / bandpass: bit-for-bit, printed text, exceptions, files
    for shape in [(8, 8, 8), (9, 9, 9), (16, 16, 16), (8, 12, 10), (21, 9, 14), (32, 32, 32), (48, 12, 8)]:
        maps = [rng.normal(size=shape), rng.normal(size=shape).astype(np.float32), rng.integers(-5, 6, size=shape),
                np.zeros(shape)]
        for x in maps:
            x0 = x.copy()
            for cutoff in (1, 2, min(shape) // 2, shape[0] // 2, 2.5):
                for sigma in (0, 1, 1.5, 4):
                    for name in ("lowpass", "highpass"):
                        o1 = outcome(getattr(cryomap, name), x, fourier_pixels=cutoff, gaussian=sigma)
                        o2 = outcome(getattr(orig_map, name), x, fourier_pixels=cutoff, gaussian=sigma)
                        check(same_outcome(o1, o2), f"{name} shape={shape} dtype={x.dtype} c={cutoff} s={sigma} != original")
                o1 = outcome(cryomap.bandpass, x, lp_fourier_pixels=cutoff, hp_fourier_pixels=1, lp_gaussian=1, hp_gaussian=0.5)
                b1 = cryomap.read("band.em")
                os.remove("band.em")
                o2 = outcome(orig_map.bandpass, x, lp_fourier_pixels=cutoff, hp_fourier_pixels=1, lp_gaussian=1, hp_gaussian=0.5)
                b2 = cryomap.read("band.em")
                check(same_outcome(o1, o2) and same(b1, b2), f"bandpass shape={shape} dtype={x.dtype} c={cutoff} != original")
            for name in ("lowpass", "highpass"):
                for kw in [dict(), dict(target_resolution=8.0), dict(pixel_size=2.0), dict(target_resolution=9.0, pixel_size=2.0),
                           dict(fourier_pixels=3, pixel_size=1.7), dict(fourier_pixels=2, target_resolution=5.0, pixel_size=1.1),
                           dict(fourier_pixels=0, pixel_size=1.0)]:
                    o1, o2 = outcome(getattr(cryomap, name), x, **kw), outcome(getattr(orig_map, name), x, **kw)
                    check(same_outcome(o1, o2), f"{name} shape={shape} {kw} != original")
            for kw in [dict(), dict(lp_fourier_pixels=3), dict(lp_fourier_pixels=3, hp_fourier_pixels=1),
                       dict(lp_target_resolution=6.0, hp_target_resolution=20.0, pixel_size=2.0),
                       dict(lp_fourier_pixels=3, hp_target_resolution=20.0, pixel_size=2.0),
                       dict(lp_target_resolution=6.0, hp_fourier_pixels=1)]:
                o1, o2 = outcome(cryomap.bandpass, x, **kw), outcome(orig_map.bandpass, x, **kw)
                check(same_outcome(o1, o2), f"bandpass shape={shape} {kw} != original")
            check(np.array_equal(x, x0), f"input mutated shape={shape}")
        # files: input read from file, output written to file
        x = maps[0]
        cryomap.write(x, "in.mrc", data_type=np.single)
        for name in ("lowpass", "highpass"):
            o1 = outcome(getattr(cryomap, name), "in.mrc", fourier_pixels=2, gaussian=1, output_name="o1.em")
            o2 = outcome(getattr(orig_map, name), "in.mrc", fourier_pixels=2, gaussian=1, output_name="o2.em")
            check(same_outcome(o1, o2) and same(cryomap.read("o1.em"), cryomap.read("o2.em")), f"{name} file io shape={shape}")
        o1 = outcome(cryomap.bandpass, "in.mrc", lp_fourier_pixels=3, hp_fourier_pixels=1, output_name="o1.mrc")
        o2 = outcome(orig_map.bandpass, "in.mrc", lp_fourier_pixels=3, hp_fourier_pixels=1, output_name="o2.mrc")
        check(same_outcome(o1, o2) and same(cryomap.read("o1.mrc"), cryomap.read("o2.mrc")), f"bandpass file io shape={shape}")


if __name__ == "__main__":
    property_checks()
    plane_wave_checks()
    resolution_checks()
    original_vs_current()
    os.chdir("/")
    _tmp.cleanup()
    if FAILS:
        print(f"FAIL: {len(FAILS)} of {NCHECK[0]} checks failed")
        sys.exit(1)
    print(f"PASS ({NCHECK[0]} checks)")
